"""A 'stir' of the library's hidden state: a few hundred ordinary, read-only calls across the public theory
API (every memo table gets touched, scale objects ascend and descend, chords are named and built).
Shards flagged "after_history" run their workload, stir, and run the same workload again, so that the
property is also observed after a call history it did not produce itself (the histories quantifier of
C15 applied to the other properties' oracles). Nothing returned by the stirred calls is modified."""
import gc


def stir(ctx, rounds=1):
    from rv.props import c15
    mods = c15._mods()
    rng = ctx.rng("stir")
    n = 0
    for _ in range(rounds):
        for spec in c15.battery(rng, 500):
            try:
                c15.evaluate(spec, mods)
            except Exception:
                pass
            n += 1
        from mingus.core import scales
        for (k, _s, _m) in __import__("rv.models.theory", fromlist=["KEYS"]).KEYS:
            try:
                scales.Chromatic(k).descending()        # an odd number of calls per key
                scales.Chromatic(k, 2).ascending()
            except Exception:
                pass
            n += 2
        gc.collect()
    ctx.count("after-history: read-only calls stirred into the interpreter before the second pass", n)
    return n
