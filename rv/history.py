"""A 'stir' of the library's hidden state: a few hundred ordinary, read-only calls across the public theory
API (every memo table gets touched, scale objects ascend and descend, chords are named and built).
Shards flagged "after_history" run their workload, stir, and run the same workload again, so that the
property is also observed after a call history it did not produce itself (the histories quantifier of
C15 applied to the other properties' oracles). Nothing returned by the stirred calls is modified."""
import gc


def stir(ctx, rounds=1):
    from rv.props import c15
    mods = c15._mods()
    rng = ctx.rng("stir")
    n = 0
    for _ in range(rounds):
        for spec in c15.battery(rng, 500):
            try:
                c15.evaluate(spec, mods)
            except Exception:
                pass
            n += 1
        from mingus.core import scales
        for (k, _s, _m) in __import__("rv.models.theory", fromlist=["KEYS"]).KEYS:
            try:
                scales.Chromatic(k).descending()        # an odd number of calls per key
                scales.Chromatic(k, 2).ascending()
            except Exception:
                pass
            n += 2
        # public helpers called directly, with spelled (not natural) targets, non-default pitches and flags
        try:
            from mingus.core import intervals
            from mingus.containers import Note
            pure = list(__import__("rv.models.theory", fromlist=["pure_names"]).pure_names(2))
            for _i in range(120):
                a, b = rng.choice(pure), rng.choice(pure)
                try:
                    intervals.augment_or_diminish_until_the_interval_is_right(a, b, rng.randrange(12))
                    intervals.get_interval(a, rng.randrange(12), rng.choice(["C", "G", "F"]))
                    x = Note(rng.randint(0, 120))
                    x.to_hertz(rng.choice([415, 442, 432.5]))
                    Note().from_hertz(rng.uniform(20, 8000), rng.choice([415, 442, 220]))
                except Exception:
                    pass
                n += 4
        except Exception:
            pass
        # valid but non-canonical spellings of every name (mixed or very many accidentals): whatever a library call
        # remembers about them must not leak into what it later answers for the canonical spelling
        try:
            from mingus.core import notes as _notes, intervals, chords
            th = __import__("rv.models.theory", fromlist=["pure_names"])
            pure = list(th.pure_names(2))
            shs = th.all_shorthands(2)
            ctors = [getattr(intervals, c) for c in ("minor_unison", "major_unison", "augmented_unison", "minor_second", "major_second",
                                                     "minor_third", "major_third", "minor_fourth", "major_fourth", "perfect_fourth",
                                                     "minor_fifth", "major_fifth", "perfect_fifth", "minor_sixth", "major_sixth",
                                                     "minor_seventh", "major_seventh") if hasattr(intervals, c)]
            for nm in pure:
                for odd in (nm[0] + "#b" + nm[1:], nm + "b#", nm[0] + "#" * 7 + "b" * 7 + nm[1:], nm + "#" * 12):
                    for f in (_notes.note_to_int, _notes.reduce_accidentals, _notes.remove_redundant_accidentals, _notes.augment,
                              _notes.diminish) + tuple(ctors):
                        try:
                            f(odd)
                        except Exception:
                            pass
                        n += 1
                    other = rng.choice(pure)
                    for f in (intervals.measure, intervals.determine, _notes.is_enharmonic, intervals.is_consonant):
                        try:
                            f(odd, other)
                            f(other, odd)
                        except Exception:
                            pass
                        n += 2
                    for sh in rng.sample(shs, 12):
                        for up in (True, False):
                            try:
                                intervals.from_shorthand(odd, sh, up)
                            except Exception:
                                pass
                            n += 1
                    for suf in ("", "m7", "7b5", "M9"):
                        try:
                            chords.from_shorthand(odd + suf)
                        except Exception:
                            pass
                        n += 1
        except Exception:
            pass
        gc.collect()
    ctx.count("after-history: read-only calls stirred into the interpreter before the second pass", n)
    return n


def fault_stir(ctx):
    """Calls that the library must refuse (malformed names, unknown shorthands, out-of-range arguments, unplayable
    notes, files that are not MIDI). Each is expected to raise; what matters is that a refused call leaves nothing
    behind: the shard's workload runs afterwards in the same interpreter. Run at the start of every shard that is
    not marked cold/bare."""
    import os
    import tempfile
    n = 0
    calls = []
    try:
        from mingus.core import notes, intervals, keys, chords, progressions, scales, value, meter
        from mingus.containers import Note, NoteContainer, Bar, Track, Composition
        from mingus.containers.instrument import Piano, Guitar
        calls += [
            lambda: notes.note_to_int("H"), lambda: notes.note_to_int("C#x"), lambda: notes.int_to_note(12), lambda: notes.int_to_note(3, "x"),
            lambda: notes.reduce_accidentals("Cx"), lambda: intervals.interval("C", "H", 2), lambda: intervals.second("H", "C"),
            lambda: intervals.interval("X", "C", 2), lambda: keys.get_notes("X"), lambda: keys.get_key(9), lambda: keys.Key("G##"),
            lambda: keys.relative_major("C"), lambda: chords.from_shorthand("Cfoo"), lambda: chords.from_shorthand("H7"),
            lambda: chords.from_shorthand("C/H"), lambda: chords.from_shorthand(["C", "Xm"]), lambda: chords.from_shorthand("Cm7|Hdim"),
            lambda: chords.determine(["C", "E", "H"]), lambda: chords.triads("X"), lambda: chords.sevenths("q"),
            lambda: progressions.to_chords("Ifoo", "C"), lambda: progressions.to_chords(["I", "Vbar"], "G"),
            lambda: progressions.determine(["C", "E", "H"], "C"), lambda: scales.Major("c"), lambda: scales.Major("X").ascending(),
            lambda: scales.NaturalMinor("H", 2).ascending(), lambda: scales.Chromatic("X"), lambda: scales.Major("C").degree(0),
            lambda: scales.Major("C").degree(9), lambda: scales.Major("C").degree(1, "x"), lambda: scales.determine(["C", 5]),
            lambda: value.determine(0), lambda: value.dots(4, "x"), lambda: meter.is_valid((4,)), lambda: meter.valid_beat_duration("4"),
            lambda: Note("H"), lambda: Note("C", 4, velocity=300), lambda: Note("C", 4, channel=16), lambda: Note("C-4-5"), lambda: Note(3.5),
            lambda: Note("C").transpose("9"), lambda: Note().from_shorthand("x"), lambda: NoteContainer(["C", 5]),
            lambda: NoteContainer().add_note(5), lambda: NoteContainer(["C", "E"]).add_notes(["G", ["H", 4]]),
            lambda: NoteContainer().from_chord_shorthand("Cfoo"), lambda: NoteContainer().from_interval("C", "9"),
            lambda: Bar("C", (4, 3)), lambda: Bar("C", (4, 0)), lambda: Bar("X", (4, 4)), lambda: Bar().place_notes("H", 4),
            lambda: Bar().place_notes("C", 0), lambda: Bar().remove_last_entry(), lambda: Bar().place_notes_at("C", 0.0) or Bar()[3],
            lambda: Track(Piano()).add_notes(Note("C", 9)), lambda: Track(Guitar()).add_notes(["C-4"] * 7, 4),
            lambda: Track().from_chords(["C", "Xfoo"], 1), lambda: Track().__setitem__(0, 5), lambda: Composition().add_track(5),
            lambda: Composition()[2],
        ]
    except Exception:
        pass
    try:
        from mingus.extra import tunings, tablature, lilypond, musicxml
        g = tunings.get_tuning("Guitar", "Standard")
        calls += [
            lambda: g.find_fingering(["E-2", "H-2"]), lambda: g.find_fingering([Note("E", 3), "H"]), lambda: g.get_Note(99, 0),
            lambda: g.get_Note(0, 99), lambda: g.find_frets("H"), lambda: g.find_chord_fingering(["C", "H"]),
            lambda: tablature.from_Note(Note("C", 0)), lambda: tablature.from_NoteContainer(NoteContainer([Note("E", 3), Note("F", 3)])),
            lambda: tablature.from_Bar(5), lambda: lilypond.from_Bar(5) and None, lambda: musicxml.from_Bar(5),
            lambda: tunings.get_tuning("nonexistent", "x").find_frets("C"),
        ]
    except Exception:
        pass
    try:
        from mingus.midi import midi_file_in, midi_file_out
        from mingus.midi.midi_track import MidiTrack
        from mingus.midi.sequencer import Sequencer
        d = tempfile.mkdtemp(prefix="rv-fault-")
        bad = os.path.join(d, "bad.mid")
        with open(bad, "wb") as f:
            f.write(b"MThd\x00\x00\x00\x06\x00\x01\x00\x01\x00\x48MTrX\x00\x00\x00\x04\x00\xff\x2f\x00")

        def velo():
            n_ = Note("C", 4)
            n_.velocity = 300
            return MidiTrack().play_Note(n_)
        calls += [lambda: midi_file_in.MIDI_to_Composition(bad), lambda: midi_file_in.MIDI_to_Composition(os.path.join(d, "missing.mid")),
                  velo, lambda: MidiTrack().set_tempo(0), lambda: MidiTrack().play_Bar(5), lambda: midi_file_out.write_Bar(bad, 5),
                  lambda: Sequencer().play_Bar(5), lambda: Sequencer().play_Tracks([], []), lambda: Sequencer().play_Bars([Bar()], [1])]
    except Exception:
        d = None
    try:
        # an export that fails half way through a track (the second bar cannot be rendered)
        from mingus.extra import lilypond as _ly, musicxml as _mx, tablature as _tb
        from mingus.midi import midi_file_out as _mo

        def broken_track():
            t_ = Track()
            b1 = Bar("Eb", (3, 4))
            b1.place_notes("G", 4), b1.place_notes("Bb", 2)
            b2 = Bar("f#", (6, 8))
            b2.place_notes("A", 8)
            b2.bar.append([0.125, 4, ("C", "E")])       # not a container
            t_.add_bar(b1), t_.add_bar(b2)
            return t_
        calls += [lambda: _ly.from_Track(broken_track()), lambda: _mx.from_Track(broken_track()), lambda: _tb.from_Track(broken_track()),
                  lambda: _mo.write_Track(os.path.join(d or "/nonexistent", "x.mid"), broken_track())]
    except Exception:
        pass
    try:
        # arguments of one function handed to its siblings (a note where a shorthand belongs, a shorthand where a note belongs,
        # a key where a note belongs): refused or answered, what matters is what such a call leaves behind; and after a valid
        # call in one key, an unknown key asked for twice in a row
        from mingus.core import intervals as _iv, chords as _ch, progressions as _pg
        for (a_, b_) in (("C", "E"), ("C", "G"), ("E", "G#"), ("B", "F#"), ("Db", "Ab"), ("A", "C"), ("G", "b3"), ("F#", "5")):
            calls += [lambda a_=a_, b_=b_: _iv.from_shorthand(a_, b_), lambda a_=a_, b_=b_: _iv.from_shorthand(a_, b_, False),
                      lambda a_=a_, b_=b_: _iv.determine(b_, a_), lambda a_=a_, b_=b_: _iv.measure(a_, b_),
                      lambda a_=a_, b_=b_: _ch.triad(a_, b_), lambda a_=a_, b_=b_: _iv.third(b_, a_),
                      lambda a_=a_, b_=b_: _pg.to_chords(a_, b_)]
        calls += [lambda: _iv.third("E", "A"), lambda: _iv.second("D", "H"), lambda: _iv.fourth("D", "H"), lambda: _iv.third("E", "A"),
                  lambda: _iv.interval("Q", "D", 2), lambda: _iv.interval("Q", "D", 3)]
    except Exception:
        pass
    refused = 0
    flipped = []
    for k, c in enumerate(calls):
        outcome = []
        for _twice in (0, 1):
            try:
                c()
                outcome.append(None)
            except BaseException as e:
                if isinstance(e, (KeyboardInterrupt, SystemExit)):
                    raise
                outcome.append(type(e).__name__)
        if outcome[0] is not None:
            refused += 1
            if outcome[1] is None:
                flipped.append({"call_number": k, "first": outcome[0], "second": "returned normally"})
        n += 1
    ctx.extra["fault_prelude_flipped"] = flipped
    if d:
        import shutil
        shutil.rmtree(d, ignore_errors=True)
    ctx.count("fault-prelude: calls the library must refuse, made before the workload (refused: see extra)", n)
    ctx.extra["fault_prelude_calls"] = n
    ctx.extra["fault_prelude_refused"] = refused
    return n
