"""Attach monitors (contracts) to the real functions of the library from outside.

* icontract postconditions (named condition functions, explicit error=) on the functions named in the
  properties' anchors; every reference to the original function in every loaded mingus module
  (module attributes, `from x import f` copies, table entries such as chords.chord_shorthand[...]) is
  rebound to the contracted function, so calls made *inside* the library are observed too.
* a generic argument-integrity wrapper (M-args) for module-level functions.
* OLD-guarded structural postconditions on NoteContainer (M-sorted) and Bar (M-bar).

A condition that fails records a violation in the current Ctx (with the arguments and the stack) and,
in 'raise' mode, makes icontract raise MonitorViolation; in 'record' mode it returns True so that the
control flow of the observed program (e.g. the repository's own tests) is untouched.
"""
import copy
import functools
import sys
import traceback
import types

import icontract

from rv.models import theory as T

CTX = None          # the Ctx of the running shard
MODE = "raise"      # or "record"
ATTACHED = []       # (description) of everything attached, for the evidence file
_REBOUND = []       # (container, key, original) for restore()


class MonitorViolation(Exception):
    """Raised by a failed contract in raise mode. Already recorded in CTX when raised."""


def set_ctx(ctx, mode="raise"):
    global CTX, MODE
    CTX = ctx
    MODE = mode


def judge(clause, ok, witness, expected=None, observed=None, mechanism=None, shape=None):
    """Common tail of every condition function."""
    if CTX is not None:
        CTX.counters[clause] = CTX.counters.get(clause, 0) + 1
        if not ok:
            CTX.violation(clause, witness, expected, observed, mechanism or "contract", shape,
                          stack="".join(traceback.format_stack(limit=14)[:-2]))
    return bool(ok) or MODE == "record"


def _error(clause):
    def make():
        return MonitorViolation(clause)
    return make


# ------------------------------------------------------------------------------------ rebinding
def mingus_modules():
    return [m for n, m in list(sys.modules.items())
            if (n == "mingus" or n.startswith("mingus.")) and m is not None]


def rebind(orig, new):
    """Replace every reference to `orig` held by a mingus module: attributes and values of
    module-level dicts / lists. Returns the number of references replaced."""
    n = 0
    for mod in mingus_modules():
        for k, v in list(vars(mod).items()):
            if v is orig:
                setattr(mod, k, new)
                _REBOUND.append((mod, k, orig, "attr"))
                n += 1
            elif isinstance(v, dict) and not k.startswith("__"):
                for dk, dv in list(v.items()):
                    if dv is orig:
                        v[dk] = new
                        _REBOUND.append((v, dk, orig, "item"))
                        n += 1
            elif isinstance(v, list):
                for i, lv in enumerate(v):
                    if lv is orig:
                        v[i] = new
                        _REBOUND.append((v, i, orig, "item"))
                        n += 1
                    elif isinstance(lv, list):
                        for j, llv in enumerate(lv):
                            if llv is orig:
                                lv[j] = new
                                _REBOUND.append((lv, j, orig, "item"))
                                n += 1
    return n


def restore():
    for (c, k, orig, kind) in reversed(_REBOUND):
        if kind == "attr":
            setattr(c, k, orig)
        else:
            c[k] = orig
    del _REBOUND[:]
    del ATTACHED[:]


def ensure(module, name, clause, cond, snapshots=()):
    """Attach postcondition `cond` (named function; its parameters select arguments, `result`, `OLD`)
    to module.name (module may be a module or a class) and rebind all references."""
    orig = module.__dict__.get(name) if isinstance(module, type) else getattr(module, name, None)
    if orig is None:
        if CTX is not None:
            CTX.unsure("cannot attach %s: %s.%s is missing" % (clause, getattr(module, "__name__", module), name))
        return None
    wrapped = icontract.ensure(cond, error=_error(clause))(orig)
    for (capture, sname) in snapshots:
        wrapped = icontract.snapshot(capture, name=sname)(wrapped)
    if isinstance(module, type):
        setattr(module, name, wrapped)
        _REBOUND.append((module, name, orig, "attr"))
        n = 1
    else:
        n = rebind(orig, wrapped)
    ATTACHED.append("%s on %s.%s (%d refs)" % (clause, getattr(module, "__name__", module), name, n))
    return wrapped


def fast_post_note_to_int(notes_module):
    """M-pc on notes.note_to_int as a hand-written postcondition wrapper: this function is called
    millions of times by every workload (every Note comparison goes through it) and icontract's
    argument resolution costs ~15 us per call; the condition evaluated is the same c_note_to_int."""
    orig = notes_module.note_to_int
    natural = T.NAT

    @functools.wraps(orig)
    def note_to_int(note):
        result = orig(note)
        try:
            ok = result == (natural[note[0]] + note.count("#", 1) - note.count("b", 1)) % 12
        except Exception:
            ok = False
        if ok:
            if CTX is not None:
                cs = CTX.counters
                cs[_MPC] = cs.get(_MPC, 0) + 1
            return result
        if not c_note_to_int(note, result):
            raise MonitorViolation("M-pc")
        return result
    n = rebind(orig, note_to_int)
    ATTACHED.append("M-pc (hand-written postcondition) on mingus.core.notes.note_to_int (%d refs)" % n)


_MPC = "M-pc note_to_int == (natural+sharps-flats) mod 12"


# ------------------------------------------------------------------------------------ M-args
def _snap(v):
    if isinstance(v, (list, dict)):
        try:
            return copy.deepcopy(v)
        except Exception:
            return None
    return None


def guard_args(module, name, skip=()):
    """M-args: documented list/dict arguments are unchanged when the call returns or raises."""
    orig = getattr(module, name)
    code = getattr(orig, "__code__", None)
    inner = orig
    while code is None and hasattr(inner, "__wrapped__"):
        inner = inner.__wrapped__
        code = getattr(inner, "__code__", None)
    argnames = code.co_varnames[:code.co_argcount] if code else ()
    clause = "M-args"

    @functools.wraps(orig)
    def wrapper(*a, **kw):
        snaps = None
        for i, v in enumerate(a):
            if type(v) in (list, dict) and (i >= len(argnames) or argnames[i] not in skip):
                if snaps is None:
                    snaps = []
                snaps.append((i, v, _snap(v)))
        for k, v in kw.items():
            if type(v) in (list, dict) and k not in skip:
                if snaps is None:
                    snaps = []
                snaps.append((k, v, _snap(v)))
        if snaps is None:
            return orig(*a, **kw)
        try:
            return orig(*a, **kw)
        finally:
            for (pos, live, before) in snaps:
                if before is None:
                    continue
                ok = (live == before)
                if CTX is not None:
                    CTX.counters[clause] = CTX.counters.get(clause, 0) + 1
                    if not ok:
                        CTX.violation(clause, {"function": "%s.%s" % (module.__name__, name),
                                               "argument": pos, "before": before, "after": live},
                                      expected=before, observed=live,
                                      mechanism="argument-mutated:%s.%s" % (module.__name__.split(".")[-1], name),
                                      stack="".join(traceback.format_stack(limit=10)[:-1]))
    n = rebind(orig, wrapper)
    return n


def guard_module_args(module, skip_functions=(), skip_params=None):
    skip_params = skip_params or {}
    n = 0
    for k, v in list(vars(module).items()):
        if k.startswith("_") or k in skip_functions:
            continue
        if isinstance(v, types.FunctionType) and getattr(v, "__module__", None) == module.__name__:
            guard_args(module, k, skip=skip_params.get(k, ()))
            n += 1
    ATTACHED.append("M-args on %d public functions of %s" % (n, module.__name__))


# ------------------------------------------------------------------------------------ conditions
# Named condition functions: parameter names match the observed function's.

def _valid_list(names):
    return isinstance(names, list) and all(T.valid(x) for x in names)


def c_note_to_int(note, result):
    if not T.valid(note):
        return True     # rejection of other strings is decided by the C01 workload, not here
    return judge("M-pc note_to_int == (natural+sharps-flats) mod 12", result == T.pc(note),
                 {"call": "notes.note_to_int", "note": note}, T.pc(note), result)


def c_int_to_note(note_int, accidentals, result):
    ok = (isinstance(note_int, int) and 0 <= note_int <= 11 and accidentals in ("#", "b")
          and T.valid(result) and T.pc(result) == note_int and len(result) <= 2
          and (len(result) == 1 or result[1] == accidentals))
    return judge("M-int_to_note style and pitch class", ok,
                 {"call": "notes.int_to_note", "note_int": note_int, "accidentals": accidentals},
                 None, result)


def c_augment(note, result):
    if not T.valid(note):
        return True
    ok = T.valid(result) and result[0] == note[0] and T.pc(result) == (T.pc(note) + 1) % 12
    return judge("M-augment +1 same letter", ok, {"call": "notes.augment", "note": note}, None, result)


def c_diminish(note, result):
    if not T.valid(note):
        return True
    ok = T.valid(result) and result[0] == note[0] and T.pc(result) == (T.pc(note) - 1) % 12
    return judge("M-diminish -1 same letter", ok, {"call": "notes.diminish", "note": note}, None, result)


def _mk_interval_cond(fname, number, semis):
    clause = "M-interval %s letter+distance+valid" % fname

    def cond(note, result):
        if not T.valid(note):
            return True
        L, P = T.interval_target(note, number, semis)
        ok = T.valid(result) and T.li(result) == L and T.pc(result) == P
        return judge(clause, ok, {"call": "intervals." + fname, "note": note},
                     {"letter": T.LETTERS[L], "pc": P}, result)
    cond.__name__ = "c_" + fname
    return cond


def c_measure(note1, note2, result):
    if not (T.valid(note1) and T.valid(note2)):
        return True
    exp = (T.pc(note2) - T.pc(note1)) % 12
    return judge("M-measure == pc difference mod 12", result == exp,
                 {"call": "intervals.measure", "note1": note1, "note2": note2}, exp, result)


def c_get_notes(key, result):
    k = T.KEY_BY_NAME.get(key)
    if k is None:
        return True
    exp = T.key_notes(k[1], k[2] == "minor")
    return judge("M-keys.get_notes == model key", list(result) == exp,
                 {"call": "keys.get_notes", "key": key}, exp, result)


def c_scale_list(self, result):
    ok = _valid_list(result) and len(result) >= 2
    return judge("M-valid-out scale lists are valid names", ok,
                 {"call": type(self).__name__ + " ascending/descending",
                  "tonic": getattr(self, "tonic", None)}, None, result)


def c_chord_builder_result(result):
    ok = isinstance(result, list) and all(T.valid(x) for x in result)
    return judge("M-valid-out chord builders return valid names", ok, {"call": "chords.<builder>"},
                 None, result)


# -- NoteContainer: sortedness preserved (OLD-guarded) ------------------------------------------
def _nc_ok(nc):
    try:
        ints = [12 * x.octave + T.NAT[x.name[0]] + x.name.count("#", 1) - x.name.count("b", 1) for x in nc.notes]
    except Exception:
        return None
    for a, b in zip(ints, ints[1:]):
        if a >= b:
            return False
    return True


def snap_nc_ok(self):
    return _nc_ok(self)


def c_nc_sorted(self, OLD):
    if OLD.was_ok is not True:
        return True
    now = _nc_ok(self)
    return judge("M-sorted NoteContainer add/remove keeps sorted & duplicate-free", now is True,
                 {"call": "NoteContainer add/remove family", "notes": repr(self.notes)}, None,
                 repr(self.notes))


# -- Bar: start beats are prefix sums (OLD-guarded) ---------------------------------------------
def _bar_ok(bar):
    try:
        t = 0.0
        for e in bar.bar:
            if abs(e[0] - t) > 1e-9:
                return False
            t += 1.0 / e[1]
        return abs(bar.current_beat - t) <= 1e-9
    except Exception:
        return None


def snap_bar_ok(self):
    return _bar_ok(self)


def c_bar_accounting(self, OLD):
    if OLD.was_ok is not True:
        return True
    now = _bar_ok(self)
    return judge("M-bar start beats are prefix sums and current_beat is the total", now is True,
                 {"call": "Bar place/remove family",
                  "bar": [[e[0], e[1]] for e in self.bar], "current_beat": self.current_beat},
                 None, None)


# ------------------------------------------------------------------------------------ standard set
def attach_standard(ctx, mode="raise", args_monitor=True):
    """Attach the cross-cutting monitors of DESIGN.md section 3."""
    set_ctx(ctx, mode)
    from mingus.core import notes, intervals, keys, scales, chords, progressions, value, meter
    from mingus.containers import NoteContainer, Bar

    fast_post_note_to_int(notes)
    ensure(notes, "int_to_note", "M-int_to_note", c_int_to_note)
    ensure(notes, "augment", "M-augment", c_augment)
    ensure(notes, "diminish", "M-diminish", c_diminish)
    for fname, (number, semis) in T.CONSTRUCTORS.items():
        if hasattr(intervals, fname):
            ensure(intervals, fname, "M-interval", _mk_interval_cond(fname, number, semis))
    ensure(intervals, "measure", "M-measure", c_measure)
    ensure(keys, "get_notes", "M-get_notes", c_get_notes)

    seen = set()
    stack = [scales._Scale]
    while stack:
        c = stack.pop()
        stack.extend(c.__subclasses__())
        for m in ("ascending", "descending"):
            f = c.__dict__.get(m)
            if f is not None and (c, m) not in seen and c is not scales._Scale:
                seen.add((c, m))
                ensure(c, m, "M-valid-out scale", c_scale_list)

    for m in ("add_note", "add_notes", "remove_note", "remove_notes", "__add__", "__sub__",
              "remove_duplicate_notes"):
        ensure(NoteContainer, m, "M-sorted", c_nc_sorted, snapshots=[(snap_nc_ok, "was_ok")])
    for m in ("place_notes", "place_rest", "__add__", "remove_last_entry"):
        ensure(Bar, m, "M-bar", c_bar_accounting, snapshots=[(snap_bar_ok, "was_ok")])

    if args_monitor:
        guard_module_args(notes)
        guard_module_args(intervals)
        guard_module_args(keys)
        guard_module_args(chords, skip_params={"from_shorthand": ("slash",)})
        guard_module_args(progressions)
        guard_module_args(value)
        guard_module_args(meter)
