"""Runs one shard of one property's workload in a fresh interpreter.

usage: shard.py <root> <repo> <PROP> list <tier> <seed> <out.json>
       shard.py <root> <repo> <PROP> run  <tier> <seed> <out.json> <shard.json>
"""
import array
import importlib
import json
import os
import sys
import time
import traceback


def die_with_parent():
    """A shard never outlives the check that started it (the check may be killed from outside while shards are still running)."""
    try:
        import ctypes
        import signal
        ctypes.CDLL("libc.so.6", use_errno=True).prctl(1, signal.SIGKILL)      # PR_SET_PDEATHSIG
        if os.getppid() == 1:
            os._exit(3)
    except Exception:
        pass


def main():
    die_with_parent()
    root, repo, prop, action, tier, seed, out = sys.argv[1:8]
    seed = int(seed)
    sys.path[:0] = [repo, root, os.path.join(root, ".deps")]
    sys.setrecursionlimit(3000)
    res = {"ok": False}
    t0 = time.time()
    try:
        import mingus
        mfile = os.path.realpath(mingus.__file__)
        if not mfile.startswith(os.path.realpath(repo) + os.sep):
            res["inconclusive"] = ["mingus imported from %s, not from %s" % (mfile, repo)]
            raise SystemExit
        mod = importlib.import_module("rv.props." + prop.lower())
        if action == "list":
            res["shards"] = mod.shards(tier, seed)
            res["meta"] = {"rule": mod.RULE, "anchors": getattr(mod, "ANCHOR_FILES", []),
                           "required_reach": getattr(mod, "REQUIRED_REACH", []),
                           "required_clauses": getattr(mod, "REQUIRED_CLAUSES", [])}
            res["ok"] = True
        else:
            from rv import contracts, reach
            from rv.ctx import Ctx
            shard = json.load(open(sys.argv[8]))
            ctx = Ctx(prop, shard, tier, seed)
            contracts.set_ctx(ctx, shard.get("mode", "raise"))
            anchors = list(getattr(mod, "ANCHOR_FILES", []))
            if anchors and not shard.get("no_reach"):
                reach.start_reach(anchors)
                reach.start_lines(anchors)
            if not shard.get("bare"):
                contracts.attach_standard(ctx, shard.get("mode", "raise"))
            if hasattr(mod, "attach"):
                mod.attach(ctx, shard)
            try:
                if not shard.get("bare") and not shard.get("cold") and shard.get("mode", "raise") == "raise":
                    from rv import history
                    saved = ctx.violations, ctx.vio_index, ctx.vio_total
                    ctx.violations, ctx.vio_index, ctx.vio_total = [], {}, 0     # refused calls may trip contracts; not judged here
                    history.fault_stir(ctx)
                    ctx.violations, ctx.vio_index, ctx.vio_total = saved
                    flipped = ctx.extra.pop("fault_prelude_flipped", [])
                    ctx.check("fault-prelude: a call the library refused is refused again when it is repeated at once", not flipped,
                              {"calls": flipped[:4]}, "refused both times", flipped[:2], mechanism="refusal-flipped")
                if shard.get("before_history"):
                    from rv import history
                    history.stir(ctx)           # unrelated calls come first: the workload meets warm, foreign state
                mod.run(shard, ctx)
                if shard.get("after_history"):
                    from rv import history
                    history.stir(ctx)
                    mod.run(shard, ctx)
            except Exception as e:
                # an exception raised *inside the library* by a call the workload makes as an ordinary,
                # documented use (building a chord it will then inspect, ...) is an observation about
                # the library, not a harness fault
                tb = traceback.extract_tb(sys.exc_info()[2])
                inner = tb[-1] if tb else None
                lib = os.path.realpath(repo) + os.sep
                if inner is not None and os.path.realpath(inner.filename).startswith(lib + "mingus"):
                    callsite = next((f for f in reversed(tb) if "/rv/props/" in f.filename), None)
                    ctx.violation("workload: a library call the workload relies on raised %s" % type(e).__name__,
                                  {"exception": repr(e)[:300], "raised_in": "%s:%s" % (inner.filename[len(lib):], inner.name),
                                   "workload_line": callsite.line if callsite else None},
                                  expected="a value", observed=repr(e)[:200],
                                  mechanism="unexpected-exception:%s:%s" % (inner.name, type(e).__name__))
                else:
                    ctx.crash("shard %s" % shard.get("name"))
            r = ctx.result()
            r["reach"] = reach.stop_reach(getattr(mod, "REQUIRED_REACH", [])) if anchors and not shard.get("no_reach") else {}
            r["lines"] = reach.stop_lines() if anchors and not shard.get("no_reach") else {}
            r["attached"] = list(contracts.ATTACHED)
            hashes = r.pop("hashes")
            states = r.pop("states")
            with open(out + ".hashes", "wb") as f:
                array.array("Q", hashes).tofile(f)
            with open(out + ".states", "wb") as f:
                array.array("Q", states).tofile(f)
            res.update(r)
            res["ok"] = True
    except SystemExit:
        pass
    except BaseException:
        res.setdefault("inconclusive", []).append("shard process failed: " + traceback.format_exc()[-1500:])
    res["wall_s"] = time.time() - t0
    with open(out, "w") as f:
        json.dump(res, f)


if __name__ == "__main__":
    main()
