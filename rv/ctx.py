"""Shard-side recording context: cases, distinct hashes, clause counters, violations, samples.

Everything a monitor or an offline checker observes goes through one Ctx object; the driver
(rv/run.py) merges the per-shard results into the verdict and the evidence file.
"""
import hashlib
import random
import traceback


def h64(key):
    """Stable 64-bit hash of a canonical (repr-able) case key."""
    if not isinstance(key, (bytes, bytearray)):
        key = repr(key).encode("utf-8", "backslashreplace")
    return int.from_bytes(hashlib.blake2b(key, digest_size=8).digest(), "big")


def short(obj, limit=400):
    """JSON-safe, bounded rendering of an arbitrary object for witnesses and samples."""
    if isinstance(obj, (int, bool)) or obj is None:
        return obj
    if isinstance(obj, float):
        if obj != obj or obj in (float("inf"), float("-inf")):
            return repr(obj)
        return obj
    if isinstance(obj, str):
        return obj if len(obj) <= limit else obj[:limit] + "...<%d chars>" % len(obj)
    if isinstance(obj, (bytes, bytearray)):
        hx = bytes(obj).hex()
        return "hex:" + (hx if len(hx) <= limit else hx[:limit] + "...<%d bytes>" % len(obj))
    if isinstance(obj, dict):
        out = {}
        for i, (k, v) in enumerate(obj.items()):
            if i >= 40:
                out["..."] = "%d more" % (len(obj) - 40)
                break
            out[str(k)] = short(v, limit)
        return out
    if isinstance(obj, (list, tuple, set, frozenset)):
        seq = list(obj)
        out = [short(v, limit) for v in seq[:60]]
        if len(seq) > 60:
            out.append("...%d more" % (len(seq) - 60))
        return out
    r = repr(obj)
    return r if len(r) <= limit else r[:limit] + "..."


_SIGS = {}
_API = None


def _api_names(key, bound):
    """documented parameter names (without self) of a public function / method, from rv/models/api_names.json: the
    parameter names of the pinned library, which a caller may use as keywords"""
    global _API
    if _API is None:
        import json
        import os
        try:
            _API = json.load(open(os.path.join(os.path.dirname(os.path.abspath(__file__)), "models", "api_names.json")))
        except (IOError, ValueError):
            _API = {}
    mod = getattr(key, "__module__", None) or ""
    for q in (getattr(key, "__qualname__", None), getattr(key, "__name__", None)):
        if q and (mod + "." + q) in _API:
            return _API[mod + "." + q]
    if bound is not None and getattr(key, "__name__", None):
        cls = type(bound)
        q = "%s.%s.%s" % (cls.__module__, cls.__name__, key.__name__)
        if q in _API:
            return _API[q]
    return None


def _by_keyword(f, a):
    """(args, {}) -> (first argument positional, the rest by their parameter names) for a library function or method
    whose parameters can be given either way; unchanged when that cannot be told."""
    import inspect
    key = getattr(f, "__func__", f)
    bound = getattr(f, "__self__", None)
    ck = (key, type(bound))
    try:
        names = _SIGS.get(ck)
    except TypeError:
        return a, {}
    if names is None:
        names = _api_names(key, bound) or False
        if not names:
            try:
                mod = getattr(key, "__module__", "") or ""
                ps = list(inspect.signature(f).parameters.values())
                if mod.startswith("mingus") and all(p.kind == p.POSITIONAL_OR_KEYWORD for p in ps):
                    names = [p.name for p in ps]
            except (TypeError, ValueError):
                pass
        _SIGS[ck] = names
    if not names or len(a) > len(names):
        return a, {}
    return a[:1], dict(zip(names[1:], a[1:]))


class Ctx(object):
    MAX_SAMPLES = 6
    MAX_VIOLATIONS = 40

    def __init__(self, prop, shard, tier, seed):
        self.prop = prop
        self.shard = shard
        self.tier = tier
        self.seed = seed
        self.evaluations = 0
        self.hashes = set()
        self.states = set()
        self.counters = {}
        self.violations = []          # first witness per (clause, mechanism)
        self.vio_index = {}
        self.vio_total = 0
        self.samples = []
        self.inconclusive = []
        self.exhaustive = {}
        self.extra = {}

    # -- randomness -------------------------------------------------------------------------
    def rng(self, case=""):
        return random.Random("%s:%s:%s:%s" % (self.seed, self.prop, self.shard.get("name"), case))

    # -- counting ---------------------------------------------------------------------------
    def case(self, key, nontrivial=True, n=1):
        """One executed case. `key` is its canonical form; distinct non-trivial ones are hashed."""
        self.evaluations += n
        if nontrivial:
            self.hashes.add(h64(key))

    def count(self, name, n=1):
        self.counters[name] = self.counters.get(name, 0) + n

    def state(self, key):
        self.states.add(h64(key))

    def sample(self, obj, force=False):
        if force or len(self.samples) < self.MAX_SAMPLES:
            self.samples.append(short(obj))

    def note_exhaustive(self, what, size):
        self.exhaustive[what] = size

    def unsure(self, reason):
        if reason not in self.inconclusive:
            self.inconclusive.append(reason)

    # -- verdicts ---------------------------------------------------------------------------
    def violation(self, clause, witness, expected=None, observed=None, mechanism=None, shape=None,
                  stack=None):
        """Record a refuting observation. Deduplicated by (clause, mechanism); the first witness of
        each is kept in full, later ones are only counted."""
        self.vio_total += 1
        key = (clause, mechanism)
        if key in self.vio_index:
            self.vio_index[key]["count"] += 1
            return
        if len(self.violations) >= self.MAX_VIOLATIONS:
            return
        rec = {
            "property": self.prop,
            "clause": clause,
            "mechanism": mechanism,
            "witness": short(witness, 2000),
            "expected": short(expected, 1000),
            "observed": short(observed, 1000),
            "shape": shape or {},
            "shard": self.shard,
            "tier": self.tier,
            "seed": self.seed,
            "count": 1,
        }
        if stack:
            rec["stack"] = stack[-1500:]
        self.vio_index[key] = rec
        self.violations.append(rec)

    def check(self, clause, ok, witness, expected=None, observed=None, mechanism=None, shape=None):
        """Count one evaluation of `clause`; record a violation when it does not hold."""
        self.counters[clause] = self.counters.get(clause, 0) + 1
        if not ok:
            self.violation(clause, witness, expected, observed, mechanism, shape)
        return ok

    def check_eq(self, clause, observed, expected, witness, mechanism=None, shape=None):
        return self.check(clause, observed == expected, witness, expected, observed, mechanism, shape)

    def call(self, f, *a, **kw):
        """Call f; return ('ok', value) or ('exc', exception). Monitor exceptions propagate as
        violations recorded by the monitor itself (see contracts.py) and come back as ('mon', e)."""
        from rv import contracts
        if len(a) >= 2 and not kw:
            # every third call hands its optional-position arguments over by keyword (a caller may write either form)
            self._calls = getattr(self, "_calls", 0) + 1
            if self._calls % 3 == 0:
                a, kw = _by_keyword(f, a)
                if kw:
                    self.counters["calls made with keyword arguments"] = self.counters.get("calls made with keyword arguments", 0) + 1
        try:
            return ("ok", f(*a, **kw))
        except contracts.MonitorViolation as e:
            return ("mon", e)
        except RecursionError as e:
            return ("exc", e)
        except Exception as e:  # noqa - the library's own failure is an observation, not a crash
            return ("exc", e)

    def crash(self, where):
        self.unsure("harness error in %s: %s" % (where, traceback.format_exc()[-600:]))

    # -- result -----------------------------------------------------------------------------
    def result(self):
        return {
            "shard": self.shard,
            "evaluations": self.evaluations,
            "hashes": sorted(self.hashes),
            "states": sorted(self.states),
            "counters": self.counters,
            "violations": self.violations,
            "vio_total": self.vio_total,
            "samples": self.samples,
            "inconclusive": self.inconclusive,
            "exhaustive": self.exhaustive,
            "extra": self.extra,
        }
