"""Known findings: genuine defects of the library that are recorded rather than repaired.

/verif/known_findings.txt lists them (`known: property=Cxx id=<classifier> | text`). A violation is
attributed to a listed finding only when the classifier registered here under that id accepts it;
classifiers look at the clause and at the *shape* of the failing input / history and the known wrong
output (computed by the property's checker and stored in the violation record), never at case hashes
or random values. Everything else is reported as a VIOLATION. `fixed:` lines are documentation and
suppress nothing. The file is never written at run time.
"""
import os
import re

CLASSIFIERS = {}


def classifier(kid):
    def deco(f):
        CLASSIFIERS[kid] = f
        return f
    return deco


def load(root):
    """-> {property: [(id, text)]}, [fixed lines]"""
    known, fixed = {}, []
    path = os.path.join(root, "known_findings.txt")
    if not os.path.exists(path):
        return known, fixed
    for line in open(path):
        line = line.strip()
        if line.startswith("known:"):
            m = re.match(r"known:\s+property=(C\d+)\s+id=(\S+)\s*\|\s*(.*)", line)
            if m:
                known.setdefault(m.group(1), []).append((m.group(2), m.group(3)))
        elif line.startswith("fixed:"):
            fixed.append(line)
    return known, fixed


def classify(vio, listed):
    """Return the id of the listed known finding this violation belongs to, or None."""
    for kid, _text in listed:
        f = CLASSIFIERS.get(kid)
        if f is None:
            continue
        try:
            if f(vio):
                return kid
        except Exception:
            continue
    return None


# ------------------------------------------------------------------------------- classifiers
# None at present: every defect found so far has been repaired in /repo (see the `fixed:` lines of
# known_findings.txt). The C18 checker still computes the input-shape features (parallel playback,
# differing entry boundaries, float sum short of the bar length) and stores them in the `shape` of a
# violation, so a classifier can be registered here again should a finding have to be listed:
#
#   @classifier("c18_unequal_rhythm")
#   def _c18_unequal(v):
#       s = v.get("shape") or {}
#       return v.get("property") == "C18" and s.get("parallel") is True and s.get("boundaries_differ") is True
