"""Small executable models of the container classes (history checkers compare against these)."""
from fractions import Fraction

from rv.models import theory as T


def pitch(name, octave):
    return 12 * octave + T.NAT[name[0]] + T.net(name)


class SetModel(object):
    """NoteContainer = list of (pitch, name, octave) sorted by pitch, at most one entry per pitch."""

    def __init__(self):
        self.m = []

    def add(self, name, octave=None):
        if octave is None:
            # bare names are voiced upward: the octave that puts the name at or above the current top
            # note and less than an octave (0..11 semitones) above it; octave 4 when empty
            if not self.m:
                octave = 4
            else:
                top = self.m[-1]
                octave = top[2]
                octave -= (pitch(name, octave) - top[0]) // 12
        p = pitch(name, octave)
        if all(x[0] != p for x in self.m):
            self.m.append((p, name, octave))
            self.m.sort(key=lambda x: x[0])

    def remove_name(self, name, octave=None):
        self.m = [x for x in self.m if not (x[1] == name and (octave is None or x[2] == octave))]

    def remove_pitch(self, p):
        self.m = [x for x in self.m if x[0] != p]

    def names(self):
        out = []
        for x in self.m:
            if x[1] not in out:
                out.append(x[1])
        return out

    def state(self):
        return tuple(self.m)


class BarModel(object):
    """Exact rational model of Bar time accounting."""

    def __init__(self, meter):
        self.meter = tuple(meter)
        self.length = Fraction(meter[0], meter[1]) if meter[1] else Fraction(0)
        self.unbounded = self.meter == (0, 0)
        self.entries = []          # (exact start, Val or raw value, content-kind, pitches)
        self.total = Fraction(0)

    def fits(self, length):
        return self.unbounded or self.total + length <= self.length

    def place(self, length, value, content):
        if not self.fits(length):
            return False
        self.entries.append([self.total, value, content, length])
        self.total += length
        return True

    def remove_last(self):
        e = self.entries.pop()
        self.total -= e[3]

    def is_full(self):
        return bool(self.entries) and not self.unbounded and self.length > 0 and self.length - self.total <= Fraction(1, 1000)
