"""Independent Standard MIDI File reader (written for this harness; shares nothing with mingus).

Strict about structure (chunk tags and lengths, VLQ length, data-byte range, end-of-track placement),
permissive about everything the format allows (running status, note-on velocity 0, sysex, any meta
event, alien chunks), so that a legitimate change of the writer cannot raise an alarm.
"""
import struct


class SMFError(Exception):
    pass


def read_vlq(b, i, limit=None):
    v = 0
    n = 0
    while True:
        if i >= (len(b) if limit is None else limit):
            raise SMFError("variable-length quantity runs past the end at offset %d" % i)
        c = b[i]
        i += 1
        n += 1
        v = (v << 7) | (c & 0x7F)
        if not c & 0x80:
            return v, i
        if n >= 4:
            raise SMFError("variable-length quantity longer than 4 bytes at offset %d" % (i - n))


def encode_vlq(n):
    """The standard encoding (reference for the encoder clause)."""
    if n < 0:
        raise ValueError(n)
    out = [n & 0x7F]
    n >>= 7
    while n:
        out.append((n & 0x7F) | 0x80)
        n >>= 7
    return bytes(reversed(out))


def parse(b):
    """-> {'format', 'ntracks', 'division', 'tracks': [[event, ...], ...], 'alien_chunks'}
    event = {'tick', 'delta', 'kind', ...}; kind in on/off/at/cc/pc/cp/pb (with 'ch', 'd1', 'd2'),
    meta (with 'type', 'data'), sysex (with 'data')."""
    if len(b) < 14:
        raise SMFError("shorter than a header chunk (%d bytes)" % len(b))
    if b[:4] != b"MThd":
        raise SMFError("header tag is %r" % b[:4])
    hl = struct.unpack(">I", b[4:8])[0]
    if hl != 6:
        raise SMFError("header length is %d, not 6" % hl)
    fmt, ntr, div = struct.unpack(">HHH", b[8:14])
    if fmt not in (0, 1, 2):
        raise SMFError("impossible format %d" % fmt)
    i = 14
    tracks = []
    alien = 0
    while i < len(b):
        if i + 8 > len(b):
            raise SMFError("truncated chunk header at offset %d" % i)
        tag = b[i:i + 4]
        ln = struct.unpack(">I", b[i + 4:i + 8])[0]
        j = i + 8
        end = j + ln
        if end > len(b):
            raise SMFError("chunk at offset %d declares %d bytes but only %d follow" % (i, ln, len(b) - j))
        if tag != b"MTrk":
            alien += 1
            i = end
            continue
        tick = 0
        ev = []
        status = None
        ended = False
        while j < end:
            if ended:
                raise SMFError("events after end-of-track in chunk at offset %d" % i)
            d, j = read_vlq(b, j, end)
            tick += d
            if j >= end:
                raise SMFError("delta time without event at offset %d" % j)
            st = b[j]
            if st & 0x80:
                j += 1
                if st < 0xF0:
                    status = st
            else:
                if status is None:
                    raise SMFError("data byte %02x without running status at offset %d" % (st, j))
                st = status
            if st == 0xFF:
                if j >= end:
                    raise SMFError("truncated meta event")
                ty = b[j]
                j += 1
                l, j = read_vlq(b, j, end)
                if j + l > end:
                    raise SMFError("meta event data runs past the chunk end")
                data = bytes(b[j:j + l])
                j += l
                ev.append({"tick": tick, "delta": d, "kind": "meta", "type": ty, "data": data})
                if ty == 0x2F:
                    if l != 0:
                        raise SMFError("end-of-track with data")
                    ended = True
                status = None
            elif st in (0xF0, 0xF7):
                l, j = read_vlq(b, j, end)
                if j + l > end:
                    raise SMFError("sysex data runs past the chunk end")
                ev.append({"tick": tick, "delta": d, "kind": "sysex", "data": bytes(b[j:j + l])})
                j += l
                status = None
            elif st >= 0xF0:
                raise SMFError("system message %02x inside a track at offset %d" % (st, j))
            else:
                hi = st >> 4
                need = 1 if hi in (0xC, 0xD) else 2
                if j + need > end:
                    raise SMFError("truncated channel message at offset %d" % j)
                d1 = b[j]
                d2 = b[j + 1] if need == 2 else None
                if d1 > 127 or (d2 is not None and d2 > 127):
                    raise SMFError("data byte above 127 at offset %d" % j)
                j += need
                kind = {8: "off", 9: "on", 0xA: "at", 0xB: "cc", 0xC: "pc", 0xD: "cp", 0xE: "pb"}[hi]
                ev.append({"tick": tick, "delta": d, "kind": kind, "ch": st & 15, "d1": d1, "d2": d2})
        if not ended:
            raise SMFError("track chunk at offset %d does not end in end-of-track" % i)
        tracks.append(ev)
        i = end
    if len(tracks) != ntr:
        raise SMFError("header declares %d tracks, %d track chunks follow" % (ntr, len(tracks)))
    return {"format": fmt, "ntracks": ntr, "division": div, "tracks": tracks, "alien_chunks": alien}
