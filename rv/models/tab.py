"""Independent reader of ASCII tablature: fret numbers are read off the string lines column by column.

A *system* is a list of string lines (highest string first, as printed), all equally long, each with a
'||' after the string name. Columns after the '||' that carry a digit on some string form a group
(adjacent digit columns, possibly padded with spaces for right-aligned numbers); groups are
separated by columns without digits. Each group is one sounding entry.
"""
import os


class TabError(Exception):
    pass


def decode_system(lines, opens):
    """opens: open-string pitches, lowest string first (string 0). -> [sorted pitches per group]"""
    n = len(opens)
    if len(lines) != n:
        raise TabError("expected %d string lines, found %d" % (n, len(lines)))
    if len(set(len(l) for l in lines)) != 1:
        raise TabError("string lines have different lengths: %s" % [len(l) for l in lines])
    body = []
    for l in lines:
        k = l.find("||")
        if k < 0:
            raise TabError("string line without '||': %r" % l)
        body.append(l[k + 2:])
    if len(set(len(b) for b in body)) != 1:
        raise TabError("bars start at different columns")
    W = len(body[0])
    groups, cur = [], None
    for col in range(W):
        has = any(b[col].isdigit() for b in body)
        if has:
            if cur is None:
                cur = [col, col]
            else:
                cur[1] = col
        else:
            if cur is not None and not any(b[col] == " " for b in body):
                groups.append(tuple(cur))
                cur = None
            elif cur is not None:
                cur[1] = col
    if cur is not None:
        groups.append(tuple(cur))
    out = []
    for a, b in groups:
        ps = []
        for i, bl in enumerate(body):
            s = bl[a:b + 1].replace("-", "").strip()
            if s:
                if not s.isdigit():
                    raise TabError("unreadable fret %r" % s)
                string = n - 1 - i
                ps.append(opens[string] + int(s))
        out.append(sorted(ps))
    return out


def is_string_line(l):
    s = l.lstrip()
    return "||" in l and s != "||" and not s.startswith("||") and not set(l) <= set(" *|")


def systems(text):
    """Split tablature text into systems (runs of consecutive string lines)."""
    out, cur = [], []
    for l in text.split(os.linesep):
        if is_string_line(l):
            cur.append(l)
        else:
            if cur:
                out.append(cur)
                cur = []
    if cur:
        out.append(cur)
    return out


def marker_lines(text):
    return [l for l in text.split(os.linesep) if "*" in l and set(l) <= set(" *|")]


def beat_width(marker_line):
    """distance in columns between the first two quarter-note markers, or None"""
    idx = [i for i, c in enumerate(marker_line) if c == "*"]
    if len(idx) < 2:
        return None
    return idx[1] - idx[0]
