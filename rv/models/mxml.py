"""Independent MusicXML (score-partwise) reader built on xml.etree (the writer uses minidom)."""
import xml.etree.ElementTree as ET
from fractions import Fraction


class MXError(Exception):
    pass


def text(node, path, default=None):
    v = node.findtext(path)
    return default if v is None else v.strip()


def raw(node, path, default=None):
    """text of a name / title element exactly as written (no stripping: blanks at the ends belong to the text)"""
    v = node.findtext(path)
    return default if v is None else v


def read(xml_text):
    """-> {'title', 'composer', 'part_list': [{'id','name','instrument','program'}], 'parts': [{'id',
    'measures': [{'number','divisions','beats','beat_type','fifths','mode','notes': [...]}]}]}
    note = {'pitch': (step, alter, octave) | None, 'chord': bool, 'dots': n, 'quarters': Fraction | None}"""
    try:
        root = ET.fromstring(xml_text)
    except ET.ParseError as e:
        raise MXError("not well-formed: %s" % e)
    if root.tag != "score-partwise":
        raise MXError("root element is %r" % root.tag)
    out = {"title": raw(root, "movement-title"), "composer": None, "part_list": [], "parts": []}
    for c in root.findall("identification/creator"):
        if c.get("type") == "composer":
            out["composer"] = c.text or ""
    pl = root.find("part-list")
    if pl is None:
        raise MXError("no part-list")
    for sp in pl.findall("score-part"):
        out["part_list"].append({"id": sp.get("id"), "name": raw(sp, "part-name", ""),
                                 "instrument": raw(sp, "score-instrument/instrument-name"),
                                 "program": text(sp, "midi-instrument/midi-program")})
    for part in root.findall("part"):
        ms = []
        for m in part.findall("measure"):
            a = m.find("attributes")
            if a is None:
                raise MXError("measure without attributes")
            div = text(a, "divisions")
            try:
                D = Fraction(div)
            except (TypeError, ValueError, ZeroDivisionError):
                raise MXError("divisions is %r" % div)
            if D <= 0:
                raise MXError("divisions is %r" % div)
            notes = []
            for n in m.findall("note"):
                if n.find("rest") is not None:
                    pitch = None
                else:
                    p = n.find("pitch")
                    if p is None:
                        raise MXError("note without pitch or rest")
                    try:
                        pitch = (text(p, "step"), int(text(p, "alter", "0")), int(text(p, "octave")))
                    except (TypeError, ValueError):
                        raise MXError("pitch with step %r, alter %r, octave %r" % (text(p, "step"), text(p, "alter", "0"), text(p, "octave")))
                    if pitch[0] is None:
                        raise MXError("pitch without step")
                dur = text(n, "duration")
                try:
                    q = Fraction(dur) / D
                except (TypeError, ValueError):
                    raise MXError("duration is %r" % dur)
                notes.append({"pitch": pitch, "chord": n.find("chord") is not None, "dots": len(n.findall("dot")), "quarters": q})
            ms.append({"number": m.get("number"), "divisions": D, "beats": text(a, "time/beats"), "beat_type": text(a, "time/beat-type"),
                       "fifths": text(a, "key/fifths"), "mode": text(a, "key/mode"), "notes": notes})
        out["parts"].append({"id": part.get("id"), "measures": ms})
    return out
