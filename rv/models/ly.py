"""Independent reader of the LilyPond subset mingus emits (and of equivalent spellings).

Accepted: { } blocks, \\time n/d, \\key <pitch> \\major|\\minor, \\times a/b { } and \\tuplet b/a { },
chords < ... >, rests r, pitches with is/es suffixes and ' , octave marks, durations (integers,
\\longa, \\breve) with dots, \\header { name = "text" ... }. Whitespace is free.
Octave: c (no mark) is octave 3; each ' adds one, each , subtracts one.
"""
import re
from fractions import Fraction

TOK = re.compile(r'\\[a-zA-Z]+|"[^"]*"|[{}<>=]|\d+/\d+|[a-g](?:is|es)*[\',]*(?![a-z])|r(?![a-z])|\d+|\.+|[A-Za-z]+|\S')


class LyError(Exception):
    pass


def parse_pitch(tok):
    m = re.fullmatch(r"([a-g])((?:is|es)*)([',]*)", tok)
    if not m:
        raise LyError("not a pitch: %r" % tok)
    acc = m.group(2)
    # a name is given either with sharps or with flats in the order written
    name = m.group(1).upper() + "".join("#" if a == "is" else "b" for a in re.findall("is|es", acc))
    return name, 3 + m.group(3).count("'") - m.group(3).count(",")


class Reader(object):
    def __init__(self, text):
        self.toks = TOK.findall(text)
        self.i = 0

    def peek(self):
        return self.toks[self.i] if self.i < len(self.toks) else None

    def next(self):
        t = self.peek()
        if t is None:
            raise LyError("unexpected end of text")
        self.i += 1
        return t

    def expect(self, t):
        g = self.next()
        if g != t:
            raise LyError("expected %r, found %r" % (t, g))

    def duration(self):
        base, dots = None, 0
        t = self.peek()
        if t in ("\\longa", "\\breve"):
            base = Fraction(1, 4) if t == "\\longa" else Fraction(1, 2)
            self.i += 1
        elif t is not None and t.isdigit():
            base = Fraction(int(t))
            self.i += 1
        t = self.peek()
        if t is not None and set(t) == {"."}:
            dots = len(t)
            self.i += 1
        return base, dots

    def header(self):
        self.expect("{")
        out = {}
        while self.peek() != "}":
            name = self.next()
            self.expect("=")
            val = self.next()
            if not (val.startswith('"') and val.endswith('"')):
                raise LyError("header value is not a string: %r" % val)
            out[name] = val[1:-1]
        self.expect("}")
        return out

    def block(self, ratio=(1, 1)):
        """Parse '{ ... }'. Returns a node {'time', 'key', 'entries', 'blocks'} where entries are
        (pitches | None, base, dots, ratio) and blocks are nested plain blocks in order; 'order'
        records the sequence of items ('e', index) / ('b', index)."""
        self.expect("{")
        node = {"time": None, "key": None, "entries": [], "blocks": [], "order": []}
        while True:
            t = self.peek()
            if t is None:
                raise LyError("unclosed block")
            if t == "}":
                self.i += 1
                return node
            if t == "{":
                node["blocks"].append(self.block(ratio))
                node["order"].append(("b", len(node["blocks"]) - 1))
            elif t == "\\time":
                self.i += 1
                n, d = self.next().split("/")
                node["time"] = (int(n), int(d))
            elif t == "\\key":
                self.i += 1
                nm, _o = parse_pitch(self.next())
                mode = self.next()
                if mode not in ("\\major", "\\minor"):
                    raise LyError("mode %r" % mode)
                node["key"] = (nm, mode[1:])
            elif t in ("\\times", "\\tuplet"):
                self.i += 1
                a, b = self.next().split("/")
                # \times 2/3 {..}: three in the time of two -> ratio (3, 2); \tuplet 3/2 {..} likewise
                r = (int(b), int(a)) if t == "\\times" else (int(a), int(b))
                inner = self.block(r)
                if inner["blocks"] or inner["time"] or inner["key"]:
                    raise LyError("unexpected content in a tuplet group")
                for e in inner["entries"]:
                    node["entries"].append(e)
                    node["order"].append(("e", len(node["entries"]) - 1))
            elif t == "<":
                self.i += 1
                ps = []
                while self.peek() != ">":
                    ps.append(parse_pitch(self.next()))
                self.expect(">")
                base, dots = self.duration()
                node["entries"].append((ps, base, dots, ratio))
                node["order"].append(("e", len(node["entries"]) - 1))
            elif t == "r":
                self.i += 1
                base, dots = self.duration()
                node["entries"].append((None, base, dots, ratio))
                node["order"].append(("e", len(node["entries"]) - 1))
            elif re.fullmatch(r"[a-g](?:is|es)*[',]*", t):
                self.i += 1
                p = parse_pitch(t)
                base, dots = self.duration()
                node["entries"].append(([p], base, dots, ratio))
                node["order"].append(("e", len(node["entries"]) - 1))
            else:
                raise LyError("unexpected token %r" % t)


def read_music(text):
    r = Reader(text)
    node = r.block()
    if r.peek() is not None:
        raise LyError("trailing text after the music block: %r" % r.peek())
    return node


def read_score(text):
    """'\\header {...} {track} {track} ...' -> (header dict, [track nodes])"""
    r = Reader(text)
    header = {}
    tracks = []
    while r.peek() is not None:
        if r.peek() == "\\header":
            r.i += 1
            header.update(r.header())
        elif r.peek() == "{":
            tracks.append(r.block())
        else:
            raise LyError("unexpected token %r at score level" % r.peek())
    return header, tracks
