"""Chord formulas: shorthand -> [(degree, semitones above the root)] for every note after the root.

Written from chord theory / the library's *documented meaning* of each shorthand (e.g. 'm7' = minor
third, perfect fifth, minor seventh; 'dim7' has a diminished seventh (7, 9); '7#11' adds an augmented
fourth (4, 6); 'hendrix' = dominant seventh plus the minor third; '11' = 1-5-b7-4). Degree d means
the note is spelled d-1 letters above the root's letter.
"""
from rv.models import theory as T

m3, M3, P4, A4, d5, P5, A5, M6, d7, m7, M7 = (3, 3), (3, 4), (4, 5), (4, 6), (5, 6), (5, 7), (5, 8), (6, 9), (7, 9), (7, 10), (7, 11)
m2, M2, A2 = (2, 1), (2, 2), (2, 3)

FORMULA = {
    "m": [m3, P5], "M": [M3, P5], "": [M3, P5], "dim": [m3, d5], "aug": [M3, A5], "+": [M3, A5],
    # the library documents '7#5', 'M7+5', 'm7+' as "augmented minor seventh" and 'M7+', '7+' as
    # "augmented major seventh"
    "7#5": [M3, A5, m7], "M7+5": [M3, A5, m7], "m7+": [M3, A5, m7], "M7+": [M3, A5, M7], "7+": [M3, A5, M7],
    "sus47": [P4, P5, m7], "7sus4": [P4, P5, m7], "sus4": [P4, P5], "sus2": [M2, P5], "sus": [P4, P5],
    "11": [P5, m7, P4], "add11": [P5, m7, P4], "sus4b9": [P4, P5, m2], "susb9": [P4, P5, m2],
    "m7": [m3, P5, m7], "M7": [M3, P5, M7], "dom7": [M3, P5, m7], "7": [M3, P5, m7],
    "m7b5": [m3, d5, m7], "dim7": [m3, d5, d7], "m/M7": [m3, P5, M7], "mM7": [m3, P5, M7],
    "m6": [m3, P5, M6], "M6": [M3, P5, M6], "6": [M3, P5, M6],
    "6/7": [M3, P5, M6, m7], "67": [M3, P5, M6, m7], "6/9": [M3, P5, M6, M2], "69": [M3, P5, M6, M2],
    "9": [M3, P5, m7, M2], "add9": [M3, P5, m7, M2], "7b9": [M3, P5, m7, m2], "7#9": [M3, P5, m7, A2],
    "M9": [M3, P5, M7, M2], "m9": [m3, P5, m7, M2],
    "7#11": [M3, P5, m7, A4], "m11": [m3, P5, m7, P4], "M11": [M3, P5, M7, M2, P4],
    "M13": [M3, P5, M7, M2, M6], "m13": [m3, P5, m7, M2, M6], "13": [M3, P5, m7, M2, M6],
    "add13": [M3, P5, m7, M2, M6],
    "7b5": [M3, d5, m7], "hendrix": [M3, P5, m7, m3], "7b12": [M3, P5, m7, m3], "5": [P5],
}

# named builder function -> a shorthand with the same formula
BUILDERS = {
    "major_triad": "M", "minor_triad": "m", "diminished_triad": "dim", "augmented_triad": "aug",
    "major_seventh": "M7", "minor_seventh": "m7", "dominant_seventh": "7", "half_diminished_seventh": "m7b5",
    "minor_seventh_flat_five": "m7b5", "diminished_seventh": "dim7", "minor_major_seventh": "mM7",
    "minor_sixth": "m6", "major_sixth": "M6", "dominant_sixth": "67", "sixth_ninth": "69",
    "minor_ninth": "m9", "major_ninth": "M9", "dominant_ninth": "9", "dominant_flat_ninth": "7b9",
    "dominant_sharp_ninth": "7#9", "eleventh": "11", "minor_eleventh": "m11", "minor_thirteenth": "m13",
    "major_thirteenth": "M13", "major_eleventh": "M11", "dominant_thirteenth": "13", "suspended_triad": "sus",
    "suspended_second_triad": "sus2", "suspended_fourth_triad": "sus4", "suspended_seventh": "sus47",
    "suspended_fourth_ninth": "sus4b9", "augmented_major_seventh": "M7+", "augmented_minor_seventh": "m7+",
    "dominant_flat_five": "7b5", "lydian_dominant_seventh": "7#11", "hendrix_chord": "hendrix",
}


def targets(root, sh):
    """[(letter index, pitch class)] of the notes after the root."""
    return [((T.li(root) + d - 1) % 7, (T.pc(root) + s) % 12) for (d, s) in FORMULA[sh]]


def matches(root, sh, chord):
    """True when `chord` is exactly the chord the formula prescribes on root."""
    if not isinstance(chord, list) or len(chord) != len(FORMULA[sh]) + 1 or chord[0] != root:
        return False
    for n, (L, P) in zip(chord[1:], targets(root, sh)):
        if not T.valid(n) or T.li(n) != L or T.pc(n) != P:
            return False
    return True


def aliases(sh):
    """Alias spellings: every 'm' may be written min/mi/-, every 'M' maj/ma (one position at a time
    and all positions at once)."""
    out = set()
    for i, ch in enumerate(sh):
        if ch == "m":
            out |= set(sh[:i] + a + sh[i + 1:] for a in ("min", "mi", "-"))
        if ch == "M":
            out |= set(sh[:i] + a + sh[i + 1:] for a in ("maj", "ma"))
    for (a, b) in (("min", "maj"), ("mi", "ma"), ("-", "maj")):
        out.add(sh.replace("m", a).replace("M", b))
    out.discard(sh)
    return sorted(out)


def normalise_alias(s):
    """The documented alias rewriting (min/mi/- -> m, maj/ma -> M)."""
    return s.replace("min", "m").replace("mi", "m").replace("-", "m").replace("maj", "M").replace("ma", "M")


def polychord(x, y):
    """'X|Y' = Y's notes followed by X's notes; a note equal to the one just before it is dropped."""
    r = list(y)
    for n in x:
        if not r or n != r[-1]:
            r.append(n)
    return r
