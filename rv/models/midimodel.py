"""Music specifications for the MIDI / sequencer / notation workloads, and the MIDI timeline model.

A *spec* is plain data (JSON-able), so that a failing case can be written to a replay file and the
models never look at library objects:
  composition = {"title", "author", "tracks": [track]}
  track       = {"name", "instrument": None | {"kind": "midi", "nr": n, "name": s} | {"kind": "plain"},
                 "bars": [bar]}
  bar         = {"key", "meter": [n, d], "entries": [entry]}
  entry       = {"v": [base, dots, r1, r2], "notes": None | [[name, octave, channel, velocity], ...][, "bpm": n]}
                ("bpm": the container carries a tempo change, as the MIDI writer and the sequencer honour it)
"""
from fractions import Fraction

from rv.models import theory as T
from rv.models import music as MU


def val_of(v):
    return MU.Val(v[0], v[1], v[2], v[3])


def ticks_of(val):
    """round(288 / value) exactly as the statement puts it (Python's round, half to even)."""
    return int(round(288.0 / val.value))


def ambiguous(val):
    """Exact tick length is k + 1/2 but the value is not a dyadic float: the rounding direction would
    depend on floating-point noise, so such values are outside the MIDI workloads."""
    t = val.length * 288
    if t.denominator != 2:
        return False
    f = Fraction(val.value)
    return f.denominator & (f.denominator - 1) != 0 or Fraction(1) / f != val.length


def midi_vocabulary(whole_ticks_only=False, zero_ticks=False):
    vs = MU.vocabulary(bases=(1, 2, 4, 8, 16, 32, 64, 128), dots=(0, 1, 2), tuplets=((3, 2), (5, 4), (7, 4)))
    vs = [v for v in vs if not ambiguous(v) and ticks_of(v) >= 1]
    if zero_ticks:
        # values so short that round(288 / value) is 0: the entry takes no time at all (note-on and note-off on one tick)
        vs += [MU.Val(576), MU.Val(1024), MU.Val(2048)]
    if whole_ticks_only:
        vs = [v for v in vs if (v.length * 288).denominator == 1]
    # values outside the dotted / tuplet vocabulary that still last a whole number of ticks: 288/k as a float, and vocabulary
    # values tied together with value.add
    vs += [MU.Val("ticks", k) for k in (1, 3, 5, 7, 9, 11, 13, 17, 23, 31, 35, 41, 47, 55, 77, 91, 101, 119, 143, 239)]
    vs += [MU.Val("tied", ([a, 0, 1, 1], [b, 0, 1, 1])) for (a, b) in ((3, 12), (3, 2), (4, 12), (6, 4), (8, 12), (2, 8), (16, 6), (12, 24))]
    return vs


def pitch_of(n):
    return 12 * n[1] + T.NAT[n[0][0]] + T.net(n[0])


# ------------------------------------------------------------------------------------ generation
def random_notes(rng, size=None, lo=0, hi=115, channel=None, velocity=(1, 127), acc=1, same_channel=True):
    size = size if size is not None else rng.choice([1, 1, 1, 2, 3, 3, 4, 5])
    ch = channel if channel is not None else rng.randint(0, 15)
    out, seen = [], set()
    tries = 0
    while len(out) < size and tries < 60:
        tries += 1
        name, octave = MU.random_pitch(rng, lo, hi, acc)
        p = pitch_of([name, octave])
        if p in seen:
            continue
        seen.add(p)
        c = ch if same_channel else rng.randint(0, 15)
        out.append([name, octave, c, rng.randint(velocity[0], velocity[1])])
    out.sort(key=pitch_of)
    return out


def random_bar(rng, key, meter, values, rest_p=0.3, fill=None, tempo_p=0.0, **kw):
    entries = []
    L = Fraction(meter[0], meter[1])
    total = Fraction(0)
    fill = rng.random() < 0.8 if fill is None else fill
    for _ in range(60):
        fits = [v for v in values if total + v.length <= L]
        if not fits:
            break
        if not fill and entries and rng.random() < 0.3:
            break
        v = rng.choice(fits)
        notes = None if rng.random() < rest_p else random_notes(rng, **kw)
        if notes is None and rng.random() < 0.25:
            notes = []          # a rest given as an empty container (bar + [], place_notes(NoteContainer(), v))
        entries.append({"v": [v.base, v.dots, v.r1, v.r2], "notes": notes})
        if notes and tempo_p and rng.random() < tempo_p:
            entries[-1]["bpm"] = rng.choice([40, 60, 90, 119, 121, 180, 240, rng.randint(30, 400)])
        total += v.length
    return {"key": key, "meter": list(meter), "entries": entries}


def random_track(rng, values, nbars=None, one_key_meter=True, instrument=None, meters=None, rest_p=0.3, **kw):
    keys = [k[0] for k in T.KEYS]
    meters = meters or [(4, 4), (3, 4), (6, 8), (12, 8), (2, 2), (5, 4), (7, 8), (2, 4)]
    key, meter = rng.choice(keys), rng.choice(meters)
    bars = []
    for _ in range(nbars if nbars is not None else rng.randint(1, 4)):
        if not one_key_meter and rng.random() < 0.4:
            key, meter = rng.choice(keys), rng.choice(meters)
        r = rng.random()
        rp = 1.0 if r < 0.08 else (rest_p if r < 0.9 else 0.7)       # whole-bar rests, rest-heavy bars
        bars.append(random_bar(rng, key, meter, values, rest_p=rp, **kw))
    if bars and nbars is None and rng.random() < 0.25:
        # a second, separate bar with the same key, meter, values and pitches as an earlier one: the phrase played again,
        # louder or softer or on another channel (or exactly alike)
        i = rng.randrange(len(bars))
        how = rng.choice(["velocity", "channel", "both", "alike"])
        vel = kw.get("velocity", (1, 127))
        entries = []
        for e in bars[i]["entries"]:
            notes = e["notes"]
            if notes:
                dv = rng.randint(vel[0], vel[1])
                dc = rng.randint(0, 15)
                notes = [[n[0], n[1], dc if how in ("channel", "both") else n[2], dv if how in ("velocity", "both") else n[3]] for n in notes]
            entries.append(dict(e, v=list(e["v"]), notes=notes))
        again = {"key": bars[i]["key"], "meter": list(bars[i]["meter"]), "entries": entries}
        bars.insert(rng.randint(i + 1, len(bars)), again)
    if len(bars) >= 2 and rng.random() < 0.2:
        # one bar object is placed in the track a second time (a repeated phrase)
        i = rng.randrange(len(bars))
        twin = dict(bars[i])
        twin["reuse_of"] = i
        bars.insert(rng.randint(i + 1, len(bars)), twin)
    if instrument == "random":
        r = rng.random()
        if r < 0.45:
            instrument = {"kind": "midi", "nr": rng.choice([0, 127, rng.randint(0, 127), rng.randint(0, 127)]), "name": ""}
        elif r < 0.55:
            # any instrument object carrying an instrument_nr attribute (documented by write_Track)
            instrument = {"kind": "attr", "nr": rng.randint(0, 127)}
        elif r < 0.65:
            instrument = {"kind": "plain"}
        else:
            instrument = None
    name = "".join(rng.choice("abcdefghij KLMN-_019") for _ in range(rng.randint(0, 14)))
    if rng.random() < 0.08:
        # names with blanks, tabs or NUL characters at either end (ASCII all the same): written and read back as they are
        name = rng.choice(["", " ", "\x00", "\t"]) + name + rng.choice([" ", "  ", "\x00", "\x00\x00", "\t", " \x00"])
    if rng.random() < 0.06:
        # long names: the length of the name meta event needs two VLQ bytes from 128 characters on
        name = "".join(rng.choice("abcdefghij KLMN-_019") for _ in range(rng.choice([127, 128, 129, 200, 255, 256, 300])))
    return {"name": name, "instrument": instrument, "bars": bars}


def random_composition(rng, values, ntracks=None, **kw):
    n = ntracks if ntracks is not None else rng.randint(1, 4)
    return {"title": "t", "author": "a", "tracks": [random_track(rng, values, **kw) for _ in range(n)]}


# ------------------------------------------------------------------------------------ building
def build_notes(notes):
    from mingus.containers import Note, NoteContainer
    nc = NoteContainer()
    for (name, octave, ch, vel) in notes:
        n = Note(name, octave)
        n.set_channel(ch)
        n.velocity = vel        # velocity 0 is a legal MIDI value; set_velocity also accepts it
        nc.add_note(n)
    return nc


def build_bar(bspec):
    from mingus.containers import Bar
    b = Bar(bspec["key"], tuple(bspec["meter"]))
    for e in bspec["entries"]:
        v = val_of(e["v"])
        content = None if e["notes"] is None else build_notes(e["notes"])
        if e.get("bpm") and content is not None:
            content.bpm = e["bpm"]
        ok = b.place_notes(content, v.value)
        if not ok:
            raise RuntimeError("workload bar does not accept %r (model says it fits)" % (e,))
    return b


def build_track(tspec):
    from mingus.containers import Track
    from mingus.containers.instrument import MidiInstrument, Instrument
    ins = None
    if tspec.get("instrument"):
        if tspec["instrument"]["kind"] == "midi":
            ins = MidiInstrument()
            ins.instrument_nr = tspec["instrument"]["nr"]
            if tspec["instrument"].get("name"):
                ins.name = tspec["instrument"]["name"]
        elif tspec["instrument"]["kind"] == "attr":
            ins = Instrument()
            ins.instrument_nr = tspec["instrument"]["nr"]
        else:
            ins = Instrument()
    t = Track(ins)
    t.name = tspec["name"]
    built = []
    for b in tspec["bars"]:
        if b.get("reuse_of") is not None and b["reuse_of"] < len(built):
            built.append(built[b["reuse_of"]])        # the very same Bar object placed again
        else:
            built.append(build_bar(b))
        t.add_bar(built[-1])
    return t


def change_track(rng, tspec, tobj, new_bar, new_notes):
    """Change a built Track in place and its spec alike (so that it can be exported / written / played again):
    new content for one entry through bar[i] = ..., the last entry of the last bar removed, a new bar appended.
    new_bar() -> bar spec in the key / meter the caller wants; new_notes() -> note list. Returns what was done."""
    done = []
    for _ in range(rng.randint(1, 3)):
        how = rng.choice(["setitem", "remove-last", "add-bar"])
        if how == "setitem":
            ks = [k for k, b in enumerate(tspec["bars"]) if b["entries"]]
            if not ks:
                continue
            k = rng.choice(ks)
            i = rng.randrange(len(tspec["bars"][k]["entries"]))
            notes = new_notes()
            tobj.bars[k][i] = build_notes(notes)
            tspec["bars"][k]["entries"][i] = dict(tspec["bars"][k]["entries"][i], notes=notes)
            tspec["bars"][k]["entries"][i].pop("bpm", None)        # the new container carries no tempo
        elif how == "remove-last":
            if not tspec["bars"] or not tspec["bars"][-1]["entries"] or any(b.get("reuse_of") is not None for b in tspec["bars"]):
                continue
            if any(b["entries"] is tspec["bars"][-1]["entries"] for b in tspec["bars"][:-1]):
                continue
            tobj.bars[-1].remove_last_entry()
            tspec["bars"][-1]["entries"].pop()
        else:
            bs = new_bar()
            tobj.add_bar(build_bar(bs))
            tspec["bars"].append(bs)
        done.append(how)
    return done


def build_composition(cspec):
    from mingus.containers import Composition
    c = Composition()
    c.set_title(cspec.get("title", "Untitled"), cspec.get("subtitle", ""))
    c.set_author(cspec.get("author", ""), cspec.get("email", ""))
    for t in cspec["tracks"]:
        c.add_track(build_track(t))
    return c


# ------------------------------------------------------------------------------------ timeline model
def track_timeline(tspec, repeat=0, keep_trailing_rest=True):
    """Expected note events and bar boundaries of one written track.
    -> {'events': [(tick, 'on'|'off', ch, key, vel)], 'bars': [(start_tick, end_tick, key, meter,
        first_on_tick | None, last_off_tick | None)], 'end': tick, 'first_note': (tick, ch) | None}"""
    t = 0
    events, bars, tempos = [], [], []
    first_notes = []
    for r in range(repeat + 1):
        first = None
        for b in tspec["bars"]:
            start = t
            f_on, l_off = None, None
            for e in b["entries"]:
                tk = ticks_of(val_of(e["v"]))
                if e["notes"]:
                    if e.get("bpm"):
                        tempos.append((t, e["bpm"]))
                    for n in e["notes"]:
                        events.append((t, "on", n[2], pitch_of(n) + 12, n[3]))
                        events.append((t + tk, "off", n[2], pitch_of(n) + 12, n[3]))
                    if f_on is None:
                        f_on = t
                    l_off = t + tk
                    if first is None:
                        first = (t, e["notes"][0][2])
                t += tk
            bars.append((start, t, b["key"], tuple(b["meter"]), f_on, l_off))
        first_notes.append(first)
    return {"events": events, "bars": bars, "end": t, "first_notes": first_notes, "tempos": tempos}


def key_signature_bytes(key):
    """(signed sharps/flats count as a byte, minor flag) of a key name."""
    k = T.KEY_BY_NAME[key]
    return (k[1] % 256, 1 if k[2] == "minor" else 0)
