"""Workload generators and snapshots for container-level music (bars, tracks, compositions).

Values are built from exact Fractions (length in whole notes) and handed to the library as the
float the library's own constructors produce, so the models can account time exactly.
"""
from fractions import Fraction

from rv.models import theory as T


class Val(object):
    """A note value: exact length, the library float, and (base, dots, r1, r2)."""
    __slots__ = ("length", "value", "base", "dots", "r1", "r2", "label")

    def __init__(self, base, dots=0, r1=1, r2=1):
        from mingus.core import value as V
        self.base, self.dots, self.r1, self.r2 = base, dots, r1, r2
        if base == "ticks":
            # a value that is not in the dotted / tuplet vocabulary: the float 288/k, lasting exactly k ticks (k/288 of a whole note)
            self.length, self.value, self.label = Fraction(dots, 288), 288.0 / dots, "288/%d" % dots
            return
        if base == "tied":
            # two vocabulary values tied together through the library's own value.add (a float a hair off the exact quotient)
            a, b = Val(*dots[0]), Val(*dots[1])
            self.length, self.value, self.label = a.length + b.length, V.add(a.value, b.value), "%s+%s" % (a.label, b.label)
            return
        self.length = (Fraction(1) / Fraction(base)) * (2 - Fraction(1, 2 ** dots)) * Fraction(r2, r1)
        v = base
        if dots:
            v = V.dots(base, dots)
        if (r1, r2) != (1, 1):
            v = V.tuplet(v, r1, r2)
        self.value = v
        self.label = "%s%s%s" % (base, "." * dots, "" if r1 == 1 else "(%d:%d)" % (r1, r2))

    def __repr__(self):
        return "Val(%s)" % self.label

    @property
    def ticks_exact(self):
        return self.length * 288


def vocabulary(bases=(1, 2, 4, 8, 16, 32, 64, 128), dots=(0, 1, 2), tuplets=((3, 2), (5, 4), (7, 4)), long_values=False):
    out = []
    bs = list(bases)
    if long_values:
        bs = [0.25, 0.5] + bs
    for b in bs:
        for d in dots:
            out.append(Val(b, d))
        for (a, c) in tuplets:
            out.append(Val(b, 0, a, c))
    return out


METERS = [(4, 4), (3, 4), (6, 8), (12, 8), (5, 4), (2, 2), (7, 8), (3, 8), (1, 1), (2, 4)]
SIMPLE_VALUES = [1, 2, 4, 8, 16]


def note_tuple(n):
    return (n.name, int(n.octave), int(n.channel), int(n.velocity))


def snap_entry(e):
    cont = e[2]
    if cont is None:
        c = None
    elif not hasattr(cont, "notes"):
        c = [("<content that is no container: %s>" % type(cont).__name__, 0, 0, 0)]     # (reported by whoever compares, not a crash here)
    else:
        c = [note_tuple(n) for n in cont.notes]
    return (e[0], e[1], c)


def snap_bar(bar):
    return {"key": bar.key.key, "meter": tuple(bar.meter), "length": bar.length, "current_beat": bar.current_beat,
            "entries": [snap_entry(e) for e in bar.bar]}


def snap_track(track):
    return [snap_bar(b) for b in track.bars]


def random_pitch(rng, lo=24, hi=96, acc=1):
    """(name, octave) of a random pitch between lo and hi (mingus integers), any spelling."""
    from mingus.containers import Note
    while True:
        name = rng.choice(T.LETTERS) + rng.choice(["", "", "#", "b", "##", "bb"][: 2 + 2 * acc])
        octave = rng.randint(0, 8)
        v = 12 * octave + T.NAT[name[0]] + T.net(name)
        if lo <= v <= hi:
            return name, octave


def random_container(rng, size=None, lo=24, hi=96, acc=1, channel=None, velocity=None):
    """A NoteContainer of `size` distinct pitches built from fresh Note objects."""
    from mingus.containers import Note, NoteContainer
    size = size if size is not None else rng.choice([1, 1, 1, 2, 3, 3, 4, 5])
    nc = NoteContainer()
    seen = set()
    tries = 0
    while len(seen) < size and tries < 50:
        tries += 1
        name, octave = random_pitch(rng, lo, hi, acc)
        v = 12 * octave + T.NAT[name[0]] + T.net(name)
        if v in seen:
            continue
        seen.add(v)
        n = Note(name, octave)
        n.set_channel(channel if channel is not None else rng.randint(0, 15))
        n.set_velocity(velocity if velocity is not None else rng.randint(1, 127))
        nc.add_note(n)
    return nc


def fill_bar(rng, bar, values, rest_p=0.25, **kw):
    """Place random entries until the bar is full or nothing in `values` fits (exact accounting)."""
    total = Fraction(0)
    length = Fraction(bar.meter[0], bar.meter[1]) if bar.meter[1] else None
    guard = 0
    while guard < 200:
        guard += 1
        fits = [v for v in values if length is None or total + v.length <= length]
        if not fits or (length is None and guard > rng.randint(1, 8)):
            break
        v = rng.choice(fits)
        cont = None if rng.random() < rest_p else random_container(rng, **kw)
        ok = bar.place_notes(cont, v.value)
        if not ok:
            break
        total += v.length
        if length is not None and total == length:
            break
    return total


def random_track(rng, bars=None, values=None, meters=None, keys=None, rest_p=0.25, **kw):
    from mingus.containers import Bar, Track
    values = values or vocabulary(bases=(1, 2, 4, 8, 16), dots=(0, 1), tuplets=((3, 2),))
    t = Track()
    nb = bars if bars is not None else rng.randint(1, 6)
    key = rng.choice(keys or [k[0] for k in T.KEYS])
    meter = rng.choice(meters or METERS[:6])
    for i in range(nb):
        if rng.random() < 0.15:
            key = rng.choice(keys or [k[0] for k in T.KEYS])
        if rng.random() < 0.15:
            meter = rng.choice(meters or METERS[:6])
        b = Bar(key, meter)
        fill_bar(rng, b, values, rest_p, **kw)
        t.add_bar(b)
    return t
