"""Independent reference model of spelled-pitch arithmetic.

A note name is (letter index 0..6 over C D E F G A B, net accidentals). Everything is derived from
three facts written down from music theory, not from the code under test:
  * naturals C D E F G A B = 0 2 4 5 7 9 11
  * the line of fifths ... Fb Cb Gb Db Ab Eb Bb F C G D A E B F# C# ... (position 0 = F)
  * per-object formula tables (interval sizes, scale step patterns).
"""
import itertools

LETTERS = "CDEFGAB"
NAT = {"C": 0, "D": 2, "E": 4, "F": 5, "G": 7, "A": 9, "B": 11}
FIFTHS = "FCGDAEB"


# ---------------------------------------------------------------------------------- names
class SubStr(str):
    """a name handed over as an instance of a str subclass (numpy.str_, a user's NoteName(str) ...): still that name"""


class NamedStr(str):
    """... of one that also carries a `name` attribute saying something else (a str-valued Enum member does)"""
    name = "G"


def valid(name):
    if not isinstance(name, str) or name == "":
        return False
    if name[0] not in NAT:
        return False
    for c in name[1:]:
        if c != "#" and c != "b":
            return False
    return True


def net(name):
    return name.count("#", 1) - name.count("b", 1)


def pc(name):
    return (NAT[name[0]] + net(name)) % 12


def li(name):
    return LETTERS.index(name[0])


def spell(letter_index, n):
    """Pure spelling: letter followed by |n| sharps (n>0) or flats (n<0)."""
    L = LETTERS[letter_index % 7]
    return L + ("#" * n if n >= 0 else "b" * (-n))


def is_pure(name):
    return not ("#" in name[1:] and "b" in name[1:])


def acc_strings(k):
    """Every string over {#,b} of length <= k, in every order."""
    for n in range(k + 1):
        for t in itertools.product("#b", repeat=n):
            yield "".join(t)


def all_names(k):
    for L in LETTERS:
        for a in acc_strings(k):
            yield L + a


def pure_names(k):
    for L in LETTERS:
        for n in range(-k, k + 1):
            yield L + ("#" * n if n >= 0 else "b" * (-n))


# ---------------------------------------------------------------------------------- intervals
MAJOR_SIZE = {1: 0, 2: 2, 3: 4, 4: 5, 5: 7, 6: 9, 7: 11}
NUMBER_NAME = {1: "unison", 2: "second", 3: "third", 4: "fourth", 5: "fifth", 6: "sixth", 7: "seventh"}

# constructor name -> (interval number, semitones above the input, modulo the octave)
CONSTRUCTORS = {
    "minor_unison": (1, -1),
    "major_unison": (1, 0),
    "augmented_unison": (1, 1),
    "minor_second": (2, 1),
    "major_second": (2, 2),
    "minor_third": (3, 3),
    "major_third": (3, 4),
    "minor_fourth": (4, 4),
    "major_fourth": (4, 5),
    "perfect_fourth": (4, 5),
    "minor_fifth": (5, 6),
    "major_fifth": (5, 7),
    "perfect_fifth": (5, 7),
    "minor_sixth": (6, 8),
    "major_sixth": (6, 9),
    "minor_seventh": (7, 10),
    "major_seventh": (7, 11),
}


def interval_target(name, number, semis):
    """(letter index, pitch class) the note `number` letters-inclusive above `name`, `semis` up."""
    return ((li(name) + number - 1) % 7, (pc(name) + semis) % 12)


def letter_distance(a, b):
    """Ascending distance from a to b counted along the letters they span (may be <0 or >11)."""
    if a[0] == b[0]:
        return net(b) - net(a)
    return (NAT[b[0]] - NAT[a[0]]) % 12 + net(b) - net(a)


def interval_number(a, b):
    return (li(b) - li(a)) % 7 + 1


def interval_name(a, b):
    """Long name and shorthand of the interval a -> b (distance must be 0..11)."""
    num = interval_number(a, b)
    d = letter_distance(a, b)
    off = d - MAJOR_SIZE[num]
    if off == 0:
        q = "perfect" if num in (4, 5) else "major"
    elif off == -1:
        q = "minor"
    elif off < -1:
        q = "diminished"
    else:
        q = "augmented"
    sh = ("#" * off if off > 0 else "b" * (-off)) + str(num)
    return q + " " + NUMBER_NAME[num], sh


def shorthand_size(sh):
    """Semitone size of an interval shorthand like 'b3', '##4', '7'."""
    num = int(sh[-1])
    return MAJOR_SIZE[num] + sh[:-1].count("#") - sh[:-1].count("b")


def all_shorthands(k=2, mixed=False):
    """Shorthands with up to k accidentals of one sign plus a degree 1..7 (35 for k=2); with mixed=True
    also the two-accidental prefixes '#b' and 'b#' (size = major size + sharps - flats)."""
    out = []
    for n in range(-k, k + 1):
        for d in range(1, 8):
            out.append(("#" * n if n >= 0 else "b" * (-n)) + str(d))
    if mixed:
        for pre in ("#b", "b#"):
            for d in range(1, 8):
                out.append(pre + str(d))
    return out


def shorthand_apply(name, sh, up=True):
    """Pure spelling of the note reached from `name` by shorthand, together with the letter index
    and pitch class it must have."""
    num = int(sh[-1])
    size = shorthand_size(sh)
    if up:
        L = (li(name) + num - 1) % 7
        P = (pc(name) + size) % 12
    else:
        L = (li(name) - num + 1) % 7
        P = (pc(name) - size) % 12
    return L, P


def respell(letter_index, pitch_class, near=0):
    """The pure spelling of pitch_class on the letter whose accidental count is closest to `near`
    (ties cannot occur: candidates are 12 apart)."""
    base = NAT[LETTERS[letter_index % 7]]
    n = (pitch_class - base) % 12
    cands = [n - 24, n - 12, n, n + 12]
    best = min(cands, key=lambda c: abs(c - near))
    return spell(letter_index, best)


# ---------------------------------------------------------------------------------- keys
def fifths_line(p):
    """Name at position p of the line of fifths (0 = F, 1 = C, ... 7 = F#, -1 = Bb)."""
    return FIFTHS[p % 7] + ("#" * (p // 7) if p >= 0 else "b" * (-(p // 7)))


def major_tonic(sig):
    return fifths_line(1 + sig)


def minor_tonic(sig):
    return fifths_line(4 + sig)


def key_signature_accidentals(sig):
    if sig >= 0:
        return [FIFTHS[i] + "#" for i in range(sig)]
    return [FIFTHS[6 - i] + "b" for i in range(-sig)]


def key_notes(sig, minor=False):
    """The seven notes of the key with signature sig, from its tonic upward by letter."""
    pool = {}
    for p in range(sig, sig + 7):
        n = fifths_line(p)
        pool[n[0]] = n
    tonic = minor_tonic(sig) if minor else major_tonic(sig)
    start = LETTERS.index(tonic[0])
    return [pool[LETTERS[(start + i) % 7]] for i in range(7)]


def all_keys():
    """[(name, signature, 'major'|'minor')] for the 30 keys; minor keys are lower-case names."""
    out = []
    for s in range(-7, 8):
        out.append((major_tonic(s), s, "major"))
        t = minor_tonic(s)
        out.append((t[0].lower() + t[1:], s, "minor"))
    return out


KEYS = all_keys()
KEY_BY_NAME = dict((k[0], k) for k in KEYS)
MAJOR_KEYS = [k[0] for k in KEYS if k[2] == "major"]
MINOR_KEYS = [k[0] for k in KEYS if k[2] == "minor"]
MAJOR_STEPS = [2, 2, 1, 2, 2, 2, 1]
MINOR_STEPS = [2, 1, 2, 2, 1, 2, 2]


def notes_of_key(name):
    k = KEY_BY_NAME[name]
    return key_notes(k[1], k[2] == "minor")


def steps_of(names):
    """Semitone steps between consecutive names (mod 12, ascending)."""
    return [(pc(b) - pc(a)) % 12 for a, b in zip(names, names[1:])]


# ---------------------------------------------------------------------------------- scales
MODE_PATTERNS = {
    "Ionian": [2, 2, 1, 2, 2, 2, 1],
    "Dorian": [2, 1, 2, 2, 2, 1, 2],
    "Phrygian": [1, 2, 2, 2, 1, 2, 2],
    "Lydian": [2, 2, 2, 1, 2, 2, 1],
    "Mixolydian": [2, 2, 1, 2, 2, 1, 2],
    "Aeolian": [2, 1, 2, 2, 1, 2, 2],
    "Locrian": [1, 2, 2, 1, 2, 2, 2],
}
# Diatonic(note, semitone positions): position p means the p-th step of the scale is a semitone
DIATONIC_SEMITONES = {(3, 7): "Ionian", (2, 6): "Dorian", (1, 5): "Phrygian", (4, 7): "Lydian",
                      (3, 6): "Mixolydian", (2, 5): "Aeolian", (1, 4): "Locrian"}
SCALE_PATTERNS = dict(MODE_PATTERNS)
SCALE_PATTERNS.update({
    "Major": [2, 2, 1, 2, 2, 2, 1],
    "HarmonicMajor": [2, 2, 1, 2, 1, 3, 1],
    "NaturalMinor": [2, 1, 2, 2, 1, 2, 2],
    "HarmonicMinor": [2, 1, 2, 2, 1, 3, 1],
    "MelodicMinor": [2, 1, 2, 2, 2, 2, 1],
    "Bachian": [2, 1, 2, 2, 2, 2, 1],
    "MinorNeapolitan": [1, 2, 2, 2, 1, 3, 1],
    "WholeTone": [2] * 6,
    "Octatonic": [2, 1] * 4,
    "Chromatic": [1] * 12,
})
# descending forms that are not the reverse of the ascending form: pattern of the *reversed* descending list
DESCENDING_PATTERNS = {
    "MelodicMinor": [2, 1, 2, 2, 1, 2, 2],          # natural minor
    "MinorNeapolitan": [1, 2, 2, 2, 1, 2, 2],        # natural minor with the lowered second
}
MAJOR_FAMILY = [("Major", "major"), ("HarmonicMajor", "harmonic major")]
MINOR_FAMILY = [("NaturalMinor", "natural minor"), ("HarmonicMinor", "harmonic minor"),
                ("MelodicMinor", "melodic minor"), ("Bachian", "Bachian"),
                ("MinorNeapolitan", "minor Neapolitan")]


def spell_scale(tonic, pattern):
    """Heptatonic scale on consecutive letters from tonic following the step pattern (one octave,
    without the closing tonic); accidental counts are the ones of smallest magnitude."""
    out = [tonic]
    for s in pattern[:-1]:
        prev = out[-1]
        out.append(respell(li(prev) + 1, (pc(prev) + s) % 12, near=0))
    return out


def recognisable_scales():
    """[(name, ascending name set, descending name set)] for the 15 key pairs x the major- and
    minor-family scale types, built from the model only."""
    out = []
    for sig in range(-7, 8):
        mt, nt = major_tonic(sig), minor_tonic(sig)
        for cls, label in MAJOR_FAMILY:
            a = set(spell_scale(mt, SCALE_PATTERNS[cls]))
            out.append((mt + " " + label, a, a))
        for cls, label in MINOR_FAMILY:
            a = set(spell_scale(nt, SCALE_PATTERNS[cls]))
            d = set(spell_scale(nt, DESCENDING_PATTERNS[cls])) if cls in DESCENDING_PATTERNS else a
            out.append((nt + " " + label, a, d))
    return out


# strings that are never a name / key / shorthand and that carry characters with a meaning to string formatting, to regular
# expressions or to line handling: a refusal has to come as the documented error whatever the text contains
HOSTILE_STRINGS = ["{", "}", "{}", "{0}", "{key}", "C{", "c}", "C{0}", "%", "%s", "%d", "%(k)s", "C%s", "c%d", "C%", "\\", "C\\",
                   "C\x00", "\x00C", "C'", 'C"', "C*", "C+", "C.", "(C)", "[C]", "C|", "^C", "C$", "C\n", "c\n", "C\r", "C\r\n",
                   "C\n#", "C#\n", "Cb\n", "C\x0b", "C\x0c", "C\u2028", "C\u00a0", "\ufeffC"]
