"""Which lines of a source file can report a LINE event from inside a function body (no third-party imports: used by run.py)."""


def function_lines(path):
    """{line: qualified function name} for every line inside a function body of the file that can report a LINE event
    (module and class bodies run at import, before any workload, and are left out)."""
    import dis
    out = {}
    try:
        top = compile(open(path, encoding="utf-8").read(), path, "exec")
    except (OSError, SyntaxError):
        return out
    todo = [top]
    while todo:
        code = todo.pop()
        for c in code.co_consts:
            if hasattr(c, "co_code"):
                todo.append(c)
        if not code.co_flags & 0x1:          # CO_OPTIMIZED: function-like code only
            continue
        lines = set(l for (_o, l) in dis.findlinestarts(code) if l)
        if len(lines) > 1:
            lines.discard(code.co_firstlineno)      # the 'def' line holds RESUME only
        for l in lines:
            out.setdefault(l, code.co_qualname)
    return out
