"""Run every check for several seeds on the unchanged tree (no evidence written) and report anything that is not 'held'.

  python3 rv/selftest/sweep.py --tier quick --seeds 0,1,2,3,7,12345 [--props C01,C02] [--jobs 2]
"""
import argparse
import concurrent.futures
import os
import subprocess
import sys
import time

ROOT = os.path.dirname(os.path.dirname(os.path.dirname(os.path.abspath(__file__))))


def one(job):
    prop, tier, seed, jobs = job
    t0 = time.time()
    env = dict(os.environ, VERIF_SEED=str(seed), VERIF_JOBS=str(jobs))
    p = subprocess.run([os.path.join(ROOT, "check"), prop, "--tier", tier, "--no-evidence"], cwd=ROOT, env=env,
                       stdout=subprocess.PIPE, stderr=subprocess.STDOUT, text=True)
    bad = [l for l in p.stdout.splitlines() if l.startswith(("VIOLATION", "INCONCLUSIVE", "KNOWN-FINDING", "   violated clause", "      witness"))]
    return prop, tier, seed, p.returncode, round(time.time() - t0, 1), bad


def main():
    ap = argparse.ArgumentParser()
    ap.add_argument("--tier", default="quick")
    ap.add_argument("--seeds", default="0,1,2,3,7,12345")
    ap.add_argument("--props", default=",".join("C%02d" % i for i in range(1, 21)))
    ap.add_argument("--jobs", type=int, default=2, help="checks run at the same time (each uses up to 16/jobs shard processes)")
    a = ap.parse_args()
    jobs = [(p, a.tier, int(s), max(2, 16 // a.jobs)) for s in a.seeds.split(",") for p in a.props.split(",")]
    nbad = 0
    with concurrent.futures.ThreadPoolExecutor(max_workers=a.jobs) as ex:
        for (prop, tier, seed, rc, wall, bad) in ex.map(one, jobs):
            print("%s %s seed=%-6d exit=%d %6.1fs" % (prop, tier, seed, rc, wall))
            for l in bad[:8]:
                print("     " + l[:400])
            if rc != 0 or bad:
                nbad += 1
            sys.stdout.flush()
    print("SWEEP %s: %d runs, %d not clean" % (a.tier, len(jobs), nbad))
    return 1 if nbad else 0


if __name__ == "__main__":
    sys.exit(main())
