"""Re-base kept patches (seeded/*/patch.diff, negative/*/patch.diff) that no longer apply to /repo HEAD because a later repair
edited neighbouring lines: three-way merge against the blobs the patch was written for (they are in /repo's object store).
A patch that merges cleanly is rewritten (the original is kept as patch.orig.diff); one that conflicts is left alone.

  python3 rv/selftest/rebase_patches.py [--dir seeded|negative] [--only C09]
"""
import argparse
import glob
import os
import shutil
import subprocess
import tempfile

ROOT = os.path.dirname(os.path.dirname(os.path.dirname(os.path.abspath(__file__))))


def sh(*cmd, cwd=None):
    p = subprocess.run(cmd, cwd=cwd, stdout=subprocess.PIPE, stderr=subprocess.STDOUT, text=True)
    return p.returncode, p.stdout


def main():
    ap = argparse.ArgumentParser()
    ap.add_argument("--dir", default="seeded,negative")
    ap.add_argument("--only")
    a = ap.parse_args()
    wt = tempfile.mkdtemp(prefix="rv-rebase-", dir="/tmp")
    os.rmdir(wt)
    rc, out = sh("git", "-C", "/repo", "worktree", "add", "--detach", "-q", wt, "HEAD")
    assert rc == 0, out
    try:
        for d in a.dir.split(","):
            for p in sorted(glob.glob(os.path.join(ROOT, d, "*", "patch.diff"))):
                if a.only and a.only not in p:
                    continue
                sh("git", "checkout", "-q", "--", ".", cwd=wt)
                sh("git", "clean", "-fdq", cwd=wt)
                rc, _ = sh("git", "apply", "--check", p, cwd=wt)
                if rc == 0:
                    continue
                rc, out = sh("git", "apply", "--3way", p, cwd=wt)
                rc2, st = sh("git", "status", "--porcelain", cwd=wt)
                conflict = rc != 0 or any(l[:2] in ("UU", "AA", "DU", "UD") for l in st.splitlines())
                if conflict:
                    print("%-28s conflicts, left as it is" % p[len(ROOT) + 1:-11])
                    sh("git", "reset", "-q", "--hard", cwd=wt)
                    continue
                rc, diff = sh("git", "diff", "HEAD", "--", "mingus", cwd=wt)
                sh("git", "reset", "-q", "--hard", cwd=wt)
                if not diff.strip():
                    print("%-28s merges to nothing (already in HEAD)" % p[len(ROOT) + 1:-11])
                    continue
                if not os.path.exists(p[:-10] + "patch.orig.diff"):
                    shutil.copy(p, p[:-10] + "patch.orig.diff")
                open(p, "w").write(diff)
                print("%-28s re-based" % p[len(ROOT) + 1:-11])
    finally:
        sh("git", "-C", "/repo", "worktree", "remove", "--force", wt)
        sh("git", "-C", "/repo", "worktree", "prune")


if __name__ == "__main__":
    main()
