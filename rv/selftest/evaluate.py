"""Evaluate one seeded change (patch) against the checks.

  python3 rv/selftest/evaluate.py --patch seeded/X/patch.diff --prop C07 [--demo seeded/X/demo.py] [--tier quick]
                                  [--also C15,C06] [--skip-tests]

Copies /repo (working tree, without .git) to a scratch directory outside /repo and /verif, applies the
patch there, confirms the repository's own 190 tests still pass and that the demonstration fails with
the change and passes without it, then runs `./check <prop>` with VERIF_REPO pointing at the copy
(evidence files are not touched). The scratch copy is removed afterwards. Prints one JSON object.
"""
import argparse
import json
import os
import shutil
import subprocess
import sys
import tempfile
import time

ROOT = os.path.dirname(os.path.dirname(os.path.dirname(os.path.abspath(__file__))))
PY = "/venv/bin/python"
REPO = os.environ.get("SELFTEST_REPO", "/repo")


def sh(cmd, cwd=None, env=None, timeout=3600):
    p = subprocess.run(cmd, cwd=cwd, env=env, stdout=subprocess.PIPE, stderr=subprocess.STDOUT, text=True, timeout=timeout)
    return p.returncode, p.stdout


def make_copy():
    d = tempfile.mkdtemp(prefix="rv-mutant-", dir=os.environ.get("SELFTEST_TMP", "/tmp"))
    shutil.copytree(REPO, os.path.join(d, "repo"), ignore=shutil.ignore_patterns(".git", "__pycache__", "*.pyc", ".pytest_cache"))
    return d, os.path.join(d, "repo")


def run_tests(copy):
    env = dict(os.environ, PYTHONPATH=copy, PYTHONDONTWRITEBYTECODE="1")
    rc, out = sh([PY, "-m", "pytest", "-q", "-p", "no:cacheprovider", "--continue-on-collection-errors", "tests"], cwd=copy, env=env)
    last = out.strip().splitlines()[-1] if out.strip() else ""
    return "190 passed" in last and "failed" not in last, last


def run_demo(copy, demo):
    dst = os.path.join(copy, "_demo.py")
    shutil.copy(demo, dst)
    env = dict(os.environ, PYTHONPATH=copy, PYTHONDONTWRITEBYTECODE="1")
    rc, out = sh([PY, dst], cwd=copy, env=env, timeout=600)
    os.remove(dst)
    return rc, out[-400:]


def run_check(copy, prop, tier, seed):
    env = dict(os.environ, VERIF_REPO=copy, VERIF_SEED=str(seed))
    t0 = time.time()
    rc, out = sh([os.path.join(ROOT, "check"), prop, "--tier", tier, "--no-evidence"], cwd=ROOT, env=env, timeout=4 * 3600)
    lines = [l for l in out.splitlines() if l.startswith(("VIOLATION", "INCONCLUSIVE", "   violated clause", "KNOWN-FINDING", "VERDICT"))]
    return {"exit": rc, "wall_s": round(time.time() - t0, 1), "lines": [l[:300] for l in lines][:14]}


def main():
    ap = argparse.ArgumentParser()
    ap.add_argument("--patch", required=True)
    ap.add_argument("--prop", required=True)
    ap.add_argument("--demo")
    ap.add_argument("--tier", default="quick")
    ap.add_argument("--seed", type=int, default=0)
    ap.add_argument("--also", default="")
    ap.add_argument("--skip-tests", action="store_true")
    a = ap.parse_args()
    res = {"patch": a.patch, "property": a.prop}
    d, copy = make_copy()
    try:
        if a.demo:
            rc, out = run_demo(copy, a.demo)
            res["demo_exit_without_change"] = rc
        rc, out = sh(["git", "apply", "--unsafe-paths", "--directory", copy, os.path.abspath(a.patch)], cwd="/")
        if rc != 0:
            rc, out = sh(["patch", "-p1", "-d", copy, "-i", os.path.abspath(a.patch)])
        res["applied"] = rc == 0
        if rc != 0:
            res["apply_error"] = out[-300:]
            print(json.dumps(res, indent=1))
            return 2
        if not a.skip_tests:
            ok, last = run_tests(copy)
            res["repo_tests_pass_with_change"] = ok
            res["repo_tests_summary"] = last
        if a.demo:
            rc, out = run_demo(copy, a.demo)
            res["demo_exit_with_change"] = rc
            res["demo_output"] = out
        res["check"] = {a.prop: run_check(copy, a.prop, a.tier, a.seed)}
        for p in [x for x in a.also.split(",") if x]:
            res["check"][p] = run_check(copy, p, a.tier, a.seed)
        res["detected"] = res["check"][a.prop]["exit"] == 1
        res["detected_by"] = [p for p, r in res["check"].items() if r["exit"] == 1]
    finally:
        shutil.rmtree(d, ignore_errors=True)
    print(json.dumps(res, indent=1))
    return 0


if __name__ == "__main__":
    sys.exit(main())
