"""Self-test mutants: realistic small edits of the library, each meant to break one property while the
repository's own tests keep passing. (id, property, file, old, new, what)

Run:  python3 rv/selftest/run_mutants.py [--only C07] [--tier quick] [--jobs 4]
Negative controls (behaviour-preserving edits that must NOT raise an alarm) are at the end.
"""

M = [
    # ---- C01
    ("c01-long-names", "C01", "mingus/core/notes.py", "    # Check for '#' and 'b' postfixes\n    for post in note[1:]:", "    # Check for '#' and 'b' postfixes\n    for post in note[1:12]:",
     "note_to_int ignores accidentals beyond the eleventh"),
    ("c01-valid-lower-h", "C01", "mingus/core/notes.py", "        if post != \"b\" and post != \"#\":\n            return False\n    return True",
     "        if post != \"b\" and post != \"#\" and post != \"x\":\n            return False\n    return True", "validity accepts 'x' as accidental"),
    ("c01-redundant-long", "C01", "mingus/core/notes.py", "    result = note[0]\n    while val > 0:\n        result = augment(result)\n        val -= 1",
     "    result = note[0]\n    val = max(-9, min(9, val))\n    while val > 0:\n        result = augment(result)\n        val -= 1",
     "remove_redundant_accidentals caps the net accidentals at 9"),
    # ---- C02
    ("c02-wrap-threshold", "C02", "mingus/core/intervals.py", "    if val > 6:\n        val = val % 12", "    if val > 7:\n        val = val % 12",
     "re-spelling threshold off by one: seven sharps survive"),
    ("c02-minor-sixth", "C02", "mingus/core/intervals.py", "    return augment_or_diminish_until_the_interval_is_right(note, sth, 8)",
     "    return augment_or_diminish_until_the_interval_is_right(note, sth, 8 if len(note) < 4 else 9)", "minor sixth wrong for triple accidentals"),
    ("c02-imperfect-set", "C02", "mingus/core/intervals.py", "    return measure(note1, note2) in [3, 4, 8, 9]", "    return measure(note1, note2) in [3, 4, 8, 9, 10]",
     "imperfect consonance set has a wrong member"),
    # ---- C03
    ("c03-down-seventh", "C03", "mingus/core/intervals.py", "        [\"7\", major_seventh, minor_second],", "        [\"7\", major_seventh, major_second],",
     "shorthand '7' downward uses the wrong function"),
    ("c03-dim-quality", "C03", "mingus/core/intervals.py", "    elif maj - 2 >= half_notes:\n        if not shorthand:\n            return \"diminished \" + current[0]\n        return \"b\" * (maj - half_notes) + current[1]",
     "    elif maj - 2 >= half_notes:\n        if not shorthand:\n            return \"diminished \" + current[0]\n        return \"bb\" + current[1]",
     "triply diminished intervals lose a flat in shorthand"),
    # ---- C04
    ("c04-relative-row", "C04", "mingus/core/keys.py", "    for couple in keys:\n        if key == couple[0]:\n            return couple[1]",
     "    for (i, couple) in enumerate(keys):\n        if key == couple[0]:\n            return keys[i - 1][1] if key == \"Cb\" else couple[1]",
     "relative minor of Cb wraps to the wrong row"),
    ("c04-flat-symbol", "C04", "mingus/core/keys.py", "    if get_key_signature(key) < 0:\n        symbol = \"b\"", "    if get_key_signature(key) < -1:\n        symbol = \"b\"\n    elif get_key_signature(key) == -1:\n        symbol = \"b\" if key != \"d\" else \"#\"",
     "d minor gets a sharp instead of a flat"),
    # ---- C05
    ("c05-harmonic-major", "C05", "mingus/core/scales.py", "        notes = Major(self.tonic).ascending()[:-1]\n        notes[5] = diminish(notes[5])",
     "        notes = Major(self.tonic).ascending()[:-1]\n        notes[5] = diminish(notes[5]) if self.tonic != \"F#\" else notes[5]", "harmonic major on F# is plain major"),
    ("c05-determine-desc", "C05", "mingus/core/scales.py", "                if notes <= set(scale(get_notes(key[1])[0]).ascending()) or notes <= set(\n                    scale(get_notes(key[1])[0]).descending()\n                ):",
     "                if notes <= set(scale(get_notes(key[1])[0]).ascending()):", "recognition ignores descending forms of minor scales"),
    ("c05-octaves", "C05", "mingus/core/scales.py", "        notes = [self.tonic]\n        for note in range(5):\n            notes.append(intervals.major_second(notes[-1]))\n        return notes * self.octaves + [notes[0]]",
     "        notes = [self.tonic]\n        for note in range(5):\n            notes.append(intervals.major_second(notes[-1]))\n        return notes * max(1, self.octaves - (self.octaves > 2)) + [notes[0]]",
     "whole tone scale drops an octave when more than two are asked"),
    # ---- C06
    ("c06-dim7", "C06", "mingus/core/chords.py", "    return diminished_triad(note) + [notes.diminish(intervals.minor_seventh(note))]",
     "    return diminished_triad(note) + [intervals.major_sixth(note)]", "dim7 spelled with a major sixth (same pitch, wrong letter)"),
    ("c06-polychord-dup", "C06", "mingus/core/chords.py", "                for n in res:\n                    if n != r[-1]:\n                        r.append(n)",
     "                for n in res:\n                    if n not in r:\n                        r.append(n)", "polychord drops every repeated note, not only immediate repeats"),
    ("c06-alias-order", "C06", "mingus/core/chords.py", "    shorthand_string = shorthand_string.replace(\"min\", \"m\")\n    shorthand_string = shorthand_string.replace(\"mi\", \"m\")",
     "    shorthand_string = shorthand_string.replace(\"mi\", \"m\")\n    shorthand_string = shorthand_string.replace(\"min\", \"m\")", "alias rewriting order: 'min' becomes 'mn'"),
    # ---- C07
    ("c07-row", "C07", "mingus/core/chords.py", "        elif intval == \"b36\":\n            add_result(\"m6\")", "        elif intval == \"b36\":\n            add_result(\"M6\")",
     "triad recogniser names a minor-sixth shape M6"),
    ("c07-inversion-counter", "C07", "mingus/core/chords.py", "        if tries != 5 and not no_inversions:\n            return inversion_exhauster(\n                [chord[-1]] + chord[:-1], shorthand, tries + 1, result, polychords\n            )",
     "        if tries != 4 and not no_inversions:\n            return inversion_exhauster(\n                [chord[-1]] + chord[:-1], shorthand, tries + 1, result, polychords\n            )",
     "five-note chords: the last rotation is never tried"),
    # ---- C08
    ("c08-iii7", "C08", "mingus/core/chords.py", "def iii7(key):\n    return mediant7(key)", "def iii7(key):\n    return mediant(key)", "iii7 alias returns the triad"),
    ("c08-prefix", "C08", "mingus/core/progressions.py", "        while acc < 0:\n            r = [notes.diminish(x) for x in r]\n            acc += 1",
     "        while acc < 0:\n            r = [notes.diminish(x) for x in r[:3]] + r[3:]\n            acc += 1", "flat prefix does not reach the seventh of a chord"),
    ("c08-subst-interval", "C08", "mingus/core/progressions.py", "        n = skip(roman, 5)\n        a = interval_diff(roman, n, 9) + acc\n        if suff == \"M\" or ignore_suffix:",
     "        n = skip(roman, 5)\n        a = interval_diff(roman, n, 8) + acc\n        if suff == \"M\" or ignore_suffix:", "major-for-minor substitute a semitone low"),
    # ---- C09
    ("c09-dots4", "C09", "mingus/core/value.py", "    for x in range(2, 5):", "    for x in range(2, 4):", "four dots are no longer recognised"),
    ("c09-compound", "C09", "mingus/core/meter.py", "    return is_valid(meter) and meter[0] % 3 == 0 and 6 <= meter[0]", "    return is_valid(meter) and meter[0] % 3 == 0 and 6 < meter[0]",
     "6/8 is no longer compound"),
    ("c09-loop", "C09", "mingus/core/meter.py", "        while r > 1:\n            if r % 2 != 0:", "        while r != 1:\n            if r % 2 == 1:", "the halving loop no longer terminates for fractions"),
    # ---- C10
    ("c10-ge", "C10", "mingus/containers/note.py", "    def __ge__(self, other):\n        return not self < other", "    def __ge__(self, other):\n        return self > other",
     ">= is false for equal (enharmonic) notes"),
    ("c10-hertz", "C10", "mingus/containers/note.py", "        ) * 12 + 9  # notes.note_to_int(\"A\")", "        ) * 12 + 9.2  # notes.note_to_int(\"A\")",
     "from_hertz rounding point shifted by 20 cents"),
    ("c10-channel", "C10", "mingus/containers/note.py", "        if not 0 <= channel < 16:", "        if not 0 <= channel <= 16:", "channel 16 accepted"),
    # ---- C11
    ("c11-octave-down", "C11", "mingus/containers/note.py", "            if self > Note(old, o_octave):\n                self.octave -= 1", "            if self >= Note(old, o_octave):\n                self.octave -= 1",
     "transposing down by a unison-sized interval drops an octave"),
    ("c11-bar-rests", "C11", "mingus/containers/bar.py", "        for cont in self.bar:\n            if self._is_note(cont[2]):\n                cont[2].transpose(interval, up)",
     "        for cont in self.bar[:8]:\n            if self._is_note(cont[2]):\n                cont[2].transpose(interval, up)", "bar transposition stops after eight entries"),
    # ---- C12
    ("c12-dup-by-name", "C12", "mingus/containers/note_container.py", "        if note not in self.notes:\n            self.notes.append(note)\n            self.notes.sort()",
     "        if note.name not in [x.name for x in self.notes] or note not in self.notes:\n            self.notes.append(note)\n            self.notes.sort()",
     "duplicate test by name: an enharmonic name of a pitch already present is added again"),
    ("c12-octave-rule", "C12", "mingus/containers/note_container.py", "                    note.octave -= (int(note) - int(top)) // 12", "                    note.octave -= (int(note) - int(top) - 1) // 12",
     "a bare name equal in pitch to the top note is voiced an octave higher"),
    ("c12-remove-octave", "C12", "mingus/containers/note_container.py", "                    if x.octave != octave and octave != -1:\n                        res.append(x)",
     "                    if x.octave < octave and octave != -1:\n                        res.append(x)", "removal with octave also removes higher octaves"),
    # ---- C13
    ("c13-is-full", "C13", "mingus/containers/bar.py", "        if self.current_beat >= self.length - 0.001:", "        if self.current_beat >= self.length - 0.01:",
     "a bar with a 128th of room reports full"),
    ("c13-remove-last", "C13", "mingus/containers/bar.py", "        self.current_beat -= 1.0 / self.bar[-1][1]\n        self.bar = self.bar[:-1]", "        self.current_beat -= 1.0 / self.bar[0][1]\n        self.bar = self.bar[:-1]",
     "remove_last_entry rewinds by the first entry's length"),
    ("c13-plus", "C13", "mingus/containers/bar.py", "            return self.place_notes(note_container, self.meter[1])", "            return self.place_notes(note_container, self.meter[0] if self.meter[0] == 6 else self.meter[1])",
     "'+' uses the count instead of the unit in 6/x meters"),
    # ---- C14
    ("c14-inherit", "C14", "mingus/containers/track.py", "            self.bars.append(Bar(last_bar.key, last_bar.meter))", "            self.bars.append(Bar(last_bar.key, last_bar.meter if last_bar.meter[1] != 8 else (4, 4)))",
     "a new bar does not inherit x/8 meters"),
    ("c14-selected", "C14", "mingus/containers/composition.py", "        self.selected_tracks = [len(self.tracks) - 1]", "        self.selected_tracks = [len(self.tracks) - 1] if len(self.tracks) < 3 else self.selected_tracks",
     "the third track added is not selected"),
    ("c14-split", "C14", "mingus/containers/track.py", "                    self.add_notes(chord, value.subtract(duration, dur))", "                    self.add_notes(chord, value.subtract(duration, dur) if chord is not None else duration)",
     "a split rest gets its full length again"),
    # ---- C15
    ("c15-key-cache", "C15", "mingus/core/keys.py", "    if key in _key_cache:\n        return list(_key_cache[key])", "    if key in _key_cache:\n        return _key_cache[key]", "warm key lookups hand out the cache"),
    ("c15-track-default", "C15", "mingus/containers/track.py", "    def __init__(self, instrument=None):\n        self.bars = []", "    def __init__(self, instrument=None, bars=[]):\n        self.bars = bars",
     "mutable default argument shared by all tracks"),
    ("c15-chords-memo", "C15", "mingus/core/chords.py", "    return [list(x) for x in _sevenths_cache[key]]", "    return list(_sevenths_cache[key])", "sevenths: outer list copied, chords shared"),
    # ---- C16
    ("c16-noteoff-channel", "C16", "mingus/midi/midi_track.py", "        self.track_data += self.note_off(channel, int(note) + 12, velocity)", "        self.track_data += self.note_off(channel & 7, int(note) + 12, velocity)",
     "note-off on the wrong channel for channels 8-15"),
    ("c16-tick-round", "C16", "mingus/midi/midi_track.py", "            tick = int(round((1.0 / x[1]) * 288))", "            tick = int((1.0 / x[1]) * 288)", "tick lengths truncated instead of rounded"),
    ("c16-minor-flag", "C16", "mingus/midi/midi_track.py", "            val = minor_keys.index(key) - 7\n            mode = b\"\\x01\"", "            val = minor_keys.index(key) - 7\n            mode = b\"\\x00\"",
     "minor keys written with the major flag"),
    ("c16-vlq", "C16", "mingus/midi/midi_track.py", "        length = int(log(max(value, 1), 0x80)) + 1", "        length = int(log(max(value, 1), 0x80) + 1e-9) + 1 if value != 16384 else 2",
     "VLQ of exactly 16384 is one byte short"),
    # ---- C17
    ("c17-velocity", "C17", "mingus/midi/midi_file_in.py", "                    n.velocity = event[\"param2\"]", "                    n.velocity = min(event[\"param2\"], 126)", "velocity 127 read back as 126"),
    ("c17-format", "C17", "mingus/midi/midi_file_in.py", "            if format_type not in [0, 1, 2]:", "            if format_type not in [0, 1, 2, 3]:", "format 3 accepted"),
    ("c17-track-tag", "C17", "mingus/midi/midi_file_in.py", "        if h != b\"MTrk\":", "        if h[:3] != b\"MTr\":", "only three bytes of the track tag are checked"),
    # ---- C18
    ("c18-stop-channel", "C18", "mingus/midi/sequencer.py", "        if hasattr(note, \"channel\"):\n            channel = note.channel\n        self.stop_event(int(note) + 12, int(channel))",
     "        self.stop_event(int(note) + 12, int(channel))", "stop events ignore the note's own channel"),
    ("c18-cc-bound", "C18", "mingus/midi/sequencer.py", "        if value < 0 or value > 128:\n            return False", "        if value < 0 or value > 129:\n            return False", "control value 129 accepted"),
    ("c18-equal-path", "C18", "mingus/midi/sequencer.py", "                duration = 1.0 / length - 1.0 / shortest\n                if duration >= 0.00001:", "                duration = 1.0 / length - 1.0 / shortest\n                if duration >= 0.00001 or (n == 3 and cur[n] == 1):",
     "equal-rhythm path: the second entry of the fourth track is never stopped"),
    # ---- C19
    ("c19-ly-octave", "C19", "mingus/extra/lilypond.py", "        elif oct < 3:\n            while oct < 3:", "        elif oct < 2:\n            while oct < 3:", "octave 2 printed without comma"),
    ("c19-xml-alter", "C19", "mingus/extra/musicxml.py", "            if i == \"b\":\n                count -= 1", "            if i == \"b\" and count > -1:\n                count -= 1", "double flats exported as single flats"),
    ("c19-ly-key", "C19", "mingus/extra/lilypond.py", "        if lastkey != bar.key:\n            showkey = True", "        if lastkey.key.lower() != bar.key.key.lower():\n            showkey = True",
     "a change between a major key and the minor key on the same tonic is not shown"),
    # ---- C20
    ("c20-frets", "C20", "mingus/extra/tunings.py", "            if 0 <= diff <= maxfret:\n                result.append(diff)", "            if 0 <= diff < maxfret or diff == 24:\n                result.append(diff)",
     "the last fret is unreachable unless maxfret is 24"),
    ("c20-span", "C20", "mingus/extra/tunings.py", "            if 0 <= max - min < max_distance or min == 1000 or max == -1:", "            if 0 <= max - min <= max_distance or min == 1000 or max == -1:",
     "fingerings spanning exactly the maximum distance are returned"),
    ("c20-tab-align", "C20", "mingus/extra/tablature.py", "                    result[i] += (\"%\" + str(maxlen) + \"s\") % d[i] + \"-\" * dur", "                    result[i] += (\"%-\" + str(maxlen) + \"s\") % d[i] + \"-\" * dur if maxlen < 2 else d[i] + \"-\" * (dur + maxlen - len(d[i]))",
     "(layout change, left-aligned frets with dashes) must still decode - negative control"),
    # ---- replacements for mutants the repository's own tests already kill
    ("c06-slash-root", "C06", "mingus/core/chords.py", "                if notes.is_valid_note(slash):\n                    res = [slash] + res", "                if notes.is_valid_note(slash):\n                    res = [slash] + res if slash != res[0] else res",
     "a slash bass equal to the root is not repeated"),
    ("c06-nc", "C06", "mingus/core/chords.py", "    if shorthand_string in [\"NC\", \"N.C.\"]:", "    if shorthand_string in [\"NC\", \"N.C\"]:", "'N.C.' is no longer the empty chord"),
    ("c06-root-scan", "C06", "mingus/core/chords.py", "    for n in shorthand_string[1:]:\n        if n == \"#\":\n            name += n", "    for n in shorthand_string[1:3]:\n        if n == \"#\":\n            name += n",
     "roots with more than two accidentals are cut short"),
    ("c07-11", "C07", "mingus/core/chords.py", "                if intval5 == \"perfect fourth\":\n                    add_result(\"11\")", "                if intval5 == \"perfect fourth\":\n                    add_result(\"m11\")",
     "six-note recogniser names a dominant eleventh m11"),
    ("c07-m6", "C07", "mingus/core/chords.py", "                elif intval3 == \"major sixth\":\n                    add_result(\"m6\")", "                elif intval3 == \"major sixth\":\n                    add_result(\"M6\")",
     "seventh recogniser names a minor sixth chord M6"),
    ("c09-dotted-band", "C09", "mingus/core/value.py", "    elif scaled >= 31 / 48.0:", "    elif scaled >= 0.662:", "values 1% below a dotted value fall into the quintuplet band"),
    ("c09-asym", "C09", "mingus/core/meter.py", "    return is_valid(meter) and meter[0] % 2 == 1", "    return is_valid(meter) and meter[0] % 2 == 1 and meter[0] > 1", "1/4 is no longer asymmetrical"),
    ("c13-space", "C13", "mingus/containers/bar.py", "        return self.length - self.current_beat", "        return max(0.05, self.length - self.current_beat) if self.length else 0.0", "space_left never reports less than 0.05"),
    ("c15-midifile-default", "C15", "mingus/midi/midi_file_out.py", "    def __init__(self, tracks=None):\n        if tracks is None:\n            tracks = []", "    def __init__(self, tracks=[]):\n        if tracks is None:\n            tracks = []",
     "mutable default argument shared by all MIDI files"),
    ("c15-substitute", "C15", "mingus/core/progressions.py", "            new_progr = list(progression)", "            new_progr = progression", "substitute rewrites the caller's progression again"),
    ("c17-format3", "C17", "mingus/midi/midi_file_in.py", "            if format_type not in [0, 1, 2]:", "            if format_type > 3:", "format 3 accepted"),
    ("c19-ly-dots", "C19", "mingus/extra/lilypond.py", "        for i in range(parsed_value[1]):\n            result += \".\"", "        for i in range(min(2, parsed_value[1])):\n            result += \".\"", "triple dots printed as double dots"),
    ("c20-course-note", "C20", "mingus/extra/tunings.py", "                if isinstance(s, list):\n                    s = s[0]\n                n = Note(int(s) + fret)", "                if isinstance(s, list):\n                    s = s[-1]\n                n = Note(int(s) + fret)",
     "get_Note uses the last string of a course"),
    ("c20-fingers", "C20", "mingus/extra/tunings.py", "        s = [a for a in s if fingers_needed(a) <= max_fingers]", "        s = [a for a in s if fingers_needed(a) <= max_fingers + 1]", "chord fingerings may need one finger too many"),

]

# edits that preserve the stated behaviour: every check must stay at exit 0
NEGATIVE = set(["c20-tab-align"])
EXTRA_NEGATIVE = [
    ("neg-keys-copy-twice", "C15", "mingus/core/keys.py", "    return list(result)", "    return list(list(result))", "double copy"),
    ("neg-midi-meta-order", "C16", "mingus/midi/midi_track.py", "        self.set_meter(bar.meter)\n        self.set_deltatime(0)\n        self.set_key(bar.key)",
     "        self.set_key(bar.key)\n        self.set_deltatime(0)\n        self.set_meter(bar.meter)", "key signature before time signature"),
    ("neg-ly-whitespace", "C19", "mingus/extra/lilypond.py", "        return \"{ \\\\time %d/%d %s}\" % (bar.meter[0], bar.meter[1], result)", "        return \"{  \\\\time  %d/%d  %s }\" % (bar.meter[0], bar.meter[1], result)",
     "extra whitespace in LilyPond output"),
    ("neg-measure-refactor", "C02", "mingus/core/intervals.py", "    res = notes.note_to_int(note2) - notes.note_to_int(note1)\n    if res < 0:\n        return 12 - res * -1\n    else:\n        return res",
     "    return (notes.note_to_int(note2) - notes.note_to_int(note1)) % 12", "measure refactored"),
    ("neg-note-to-int-sum", "C01", "mingus/core/notes.py", "    # Check for '#' and 'b' postfixes\n    for post in note[1:]:\n        if post == \"b\":\n            val -= 1\n        elif post == \"#\":\n            val += 1\n    return val % 12",
     "    return (val + note.count(\"#\", 1) - note.count(\"b\", 1)) % 12", "note_to_int counts accidentals instead of looping"),
    ("neg-keys-no-cache", "C04", "mingus/core/keys.py", "    if key in _key_cache:\n        return list(_key_cache[key])\n", "", "key notes recomputed on every call (no memo)"),
    ("neg-xml-compact", "C19", "mingus/extra/musicxml.py", "def from_Composition(comp):\n    return _composition2musicxml(comp).toprettyxml()", "def from_Composition(comp):\n    return _composition2musicxml(comp).toxml()",
     "MusicXML written without pretty-printing"),
    ("neg-seq-stop-order", "C18", "mingus/midi/sequencer.py", "        for note in nc:\n            if not self.stop_Note(note, channel):\n                return False\n        return True", "        for note in reversed(list(nc)):\n            if not self.stop_Note(note, channel):\n                return False\n        return True",
     "notes of a container are stopped in reverse order"),
    ("neg-bar-beat-recompute", "C13", "mingus/containers/bar.py", "        self.current_beat -= 1.0 / self.bar[-1][1]\n        self.bar = self.bar[:-1]", "        self.bar = self.bar[:-1]\n        self.current_beat = sum([1.0 / e[1] for e in self.bar], 0.0)",
     "remove_last_entry recomputes the beat from the remaining entries"),
    ("neg-midi-delta-cache", "C16", "mingus/midi/midi_track.py", "        if isinstance(delta_time, int):\n            delta_time = self.int_to_varbyte(delta_time)", "        if isinstance(delta_time, int):\n            delta_time = b\"\\x00\" if delta_time == 0 else self.int_to_varbyte(delta_time)",
     "zero delta times short-circuited"),
    ("neg-tunings-frets", "C20", "mingus/extra/tunings.py", "            diff = base.measure(note)\n            if 0 <= diff <= maxfret:", "            diff = int(note) - int(base)\n            if 0 <= diff <= maxfret:", "fret distance by integer subtraction"),
    ("neg-nc-sort-key", "C12", "mingus/containers/note_container.py", "            self.notes.append(note)\n            self.notes.sort()", "            self.notes.append(note)\n            self.notes.sort(key=int)",
     "sort by explicit key"),
]
