"""Confirm a seeded change produced by an independent sub-agent and file it under /verif/seeded/<id>/.

  python3 rv/selftest/keep_seed.py /tmp/seed/C07 A [--id C07-A] [--also C15] [--tier quick]

Runs rv/selftest/evaluate.py (scratch copy of /repo, repository tests, demonstration with and without
the change, the property's check) and keeps the change only when the repository's tests pass with it
and the demonstration fails with it and passes without it. Writes patch.diff, demo.py, meta.json.
"""
import argparse
import json
import os
import shutil
import subprocess
import sys

HERE = os.path.dirname(os.path.abspath(__file__))
ROOT = os.path.dirname(os.path.dirname(HERE))


def main():
    ap = argparse.ArgumentParser()
    ap.add_argument("dir")
    ap.add_argument("variant")
    ap.add_argument("--id")
    ap.add_argument("--also", default="")
    ap.add_argument("--tier", default="quick")
    ap.add_argument("--round", default="1")
    a = ap.parse_args()
    prop = os.path.basename(a.dir.rstrip("/"))[:3]
    sid = a.id or "%s-%s" % (prop, a.variant)
    patch = os.path.join(a.dir, "patch%s.diff" % a.variant)
    demo = os.path.join(a.dir, "demo%s.py" % a.variant)
    cmd = [sys.executable, os.path.join(HERE, "evaluate.py"), "--patch", patch, "--prop", prop, "--demo", demo, "--tier", a.tier]
    if a.also:
        cmd += ["--also", a.also]
    out = subprocess.run(cmd, stdout=subprocess.PIPE, text=True).stdout
    r = json.loads(out)
    ok = r.get("applied") and r.get("repo_tests_pass_with_change") and r.get("demo_exit_without_change") == 0 and r.get("demo_exit_with_change") not in (0, None)
    if not ok:
        print("NOT KEPT %s: %s" % (sid, {k: r.get(k) for k in ("applied", "repo_tests_pass_with_change", "demo_exit_without_change", "demo_exit_with_change")}))
        return 1
    agent_meta = {}
    try:
        agent_meta = json.load(open(os.path.join(a.dir, "meta.json"))).get(a.variant, {})
    except Exception:
        pass
    dst = os.path.join(ROOT, "seeded", sid)
    os.makedirs(dst, exist_ok=True)
    shutil.copy(patch, os.path.join(dst, "patch.diff"))
    shutil.copy(demo, os.path.join(dst, "demo.py"))
    meta = {
        "id": sid,
        "property": prop,
        "origin": "independent sub-agent (round %s) given only the property text and a scratch worktree of /repo" % a.round,
        "summary": agent_meta.get("summary"),
        "needs_to_manifest": agent_meta.get("needs_to_manifest") or agent_meta.get("needs"),
        "files": agent_meta.get("files"),
        "confirmed": {
            "how": "rv/selftest/evaluate.py on a scratch copy of /repo (HEAD %s): patch applied with git apply; repository test suite; "
                   "demo.py with and without the change; ./check with VERIF_REPO pointing at the copy" %
                   subprocess.run(["git", "-C", "/repo", "rev-parse", "--short", "HEAD"], stdout=subprocess.PIPE, text=True).stdout.strip(),
            "repo_tests_pass_with_change": r["repo_tests_pass_with_change"],
            "repo_tests_summary": r.get("repo_tests_summary"),
            "demo_exit_without_change": r["demo_exit_without_change"],
            "demo_exit_with_change": r["demo_exit_with_change"],
        },
        "checks": dict((p, {"tier": a.tier, "exit": c["exit"], "wall_s": c["wall_s"],
                            "first_lines": [l.strip() for l in c["lines"] if "violated clause" in l][:3]}) for p, c in r["check"].items()),
        "detected_by": r["detected_by"],
    }
    json.dump(meta, open(os.path.join(dst, "meta.json"), "w"), indent=1)
    print("KEPT %s detected_by=%s" % (sid, r["detected_by"]))
    return 0


if __name__ == "__main__":
    sys.exit(main())
