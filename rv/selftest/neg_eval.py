"""Run behaviour-preserving changes (negative controls) through the checks: every check anchored in a file the patch edits
must stay silent (exit 0).

  python3 rv/selftest/neg_eval.py --dir /tmp/neg [--only C04] [--jobs 3] [--tier quick]   # <dir>/Cxx/patch[ABC].diff, demo.py
  python3 rv/selftest/neg_eval.py --kept [--only C04]                                      # negative/<id>/patch.diff

Prints one line per patch and a JSON summary at the end (also written to --out when given).
"""
import argparse
import concurrent.futures
import glob
import json
import os
import re
import subprocess
import sys

HERE = os.path.dirname(os.path.abspath(__file__))
ROOT = os.path.dirname(os.path.dirname(HERE))
sys.path.insert(0, ROOT)


def anchors():
    out = {}
    for i in range(1, 21):
        src = open(os.path.join(ROOT, "rv", "props", "c%02d.py" % i)).read()
        block = re.search(r"^ANCHOR_FILES = \[(.*?)\]", src, re.M | re.S).group(1)
        out["C%02d" % i] = set(re.findall(r'"([^"]+)"', block))
    return out


def files_of(patch):
    return set(re.findall(r"^\+\+\+ b/(\S+)", open(patch).read(), re.M))


def one(job):
    pid, patch, demo, tier, also = job
    cmd = [sys.executable, os.path.join(HERE, "evaluate.py"), "--patch", patch, "--prop", pid, "--tier", tier]
    if demo and os.path.exists(demo):
        cmd += ["--demo", demo]
    if also:
        cmd += ["--also", ",".join(also)]
    out = subprocess.run(cmd, stdout=subprocess.PIPE, text=True).stdout
    try:
        r = json.loads(out)
    except ValueError:
        r = {"applied": False, "apply_error": out[-300:]}
    r["id"] = patch
    return r


def main():
    ap = argparse.ArgumentParser()
    ap.add_argument("--dir")
    ap.add_argument("--kept", action="store_true")
    ap.add_argument("--only")
    ap.add_argument("--jobs", type=int, default=3)
    ap.add_argument("--tier", default="quick")
    ap.add_argument("--out")
    ap.add_argument("--write", action="store_true", help="with --kept: record the outcome in each meta.json")
    a = ap.parse_args()
    anc = anchors()
    jobs = []
    if a.kept:
        pats = sorted(glob.glob(os.path.join(ROOT, "negative", "*", "patch.diff")))
    else:
        pats = sorted(glob.glob(os.path.join(a.dir, "C??", "patch?.diff")))
    for p in pats:
        d = os.path.dirname(p)
        pid = json.load(open(os.path.join(d, "meta.json")))["property"] if a.kept else os.path.basename(d)
        if a.only and a.only not in p:
            continue
        fs = files_of(p)
        also = sorted(q for q, af in anc.items() if q != pid and af & fs)
        if "C15" not in also and pid != "C15":
            also.append("C15")
        jobs.append((pid, p, os.path.join(d, "demo.py"), a.tier, also))
    res = []
    with concurrent.futures.ThreadPoolExecutor(max_workers=a.jobs) as ex:
        for r in ex.map(one, jobs):
            res.append(r)
            if not r.get("applied"):
                print("%-28s DOES NOT APPLY" % r["id"][-28:])
            else:
                ch = r.get("check", {})
                alarms = [p for p, c in ch.items() if c["exit"] != 0]
                print("%-28s tests=%s demo=%s/%s checks=%s %s" % (
                    r["id"][-28:], r.get("repo_tests_pass_with_change"), r.get("demo_exit_without_change"), r.get("demo_exit_with_change"),
                    ",".join(sorted(ch)), ("ALARM " + ",".join("%s(exit %s)" % (p, ch[p]["exit"]) for p in alarms)) if alarms else "silent"))
                for p in alarms:
                    for l in ch[p]["lines"][:6]:
                        print("       " + l[:260])
            sys.stdout.flush()
            if a.kept and a.write:
                mp = os.path.join(os.path.dirname(r["id"]), "meta.json")
                m = json.load(open(mp))
                head = subprocess.run(["git", "-C", "/repo", "rev-parse", "--short", "HEAD"], stdout=subprocess.PIPE, text=True).stdout.strip()
                m["evaluated"] = {"repo_head": head, "applies": bool(r.get("applied")), "repo_tests_pass_with_change": r.get("repo_tests_pass_with_change"),
                                  "demo_exit_without_change": r.get("demo_exit_without_change"), "demo_exit_with_change": r.get("demo_exit_with_change"),
                                  "checks": dict((p, {"tier": a.tier, "exit": c["exit"], "first_lines": [l.strip() for l in c["lines"] if "violated clause" in l or "INCONCLUSIVE" in l][:3]})
                                                 for p, c in r.get("check", {}).items())}
                json.dump(m, open(mp, "w"), indent=1)
    if a.out:
        json.dump(res, open(a.out, "w"), indent=1)


if __name__ == "__main__":
    main()
