"""Rewrite the table of seeded changes in DESIGN.md (between the SEEDED-TABLE markers) from seeded/*/meta.json."""
import glob
import json
import os

ROOT = os.path.dirname(os.path.dirname(os.path.dirname(os.path.abspath(__file__))))


def main():
    rows = ["| seeded change | what it does — what it needs to manifest | caught by (quick tier): first violated clause |", "|---|---|---|"]
    n = miss = 0
    for d in sorted(glob.glob(os.path.join(ROOT, "seeded", "*", "meta.json"))):
        m = json.load(open(d))
        first = ""
        for p in m["detected_by"]:
            fl = m["checks"][p]["first_lines"]
            if fl:
                first = fl[0].replace("violated clause: ", "").split(" | mechanism")[0]
                break
        s = (m.get("summary") or "").replace("|", "/").replace("\n", " ")
        need = (m.get("needs_to_manifest") or "").replace("|", "/").replace("\n", " ")
        n += 1
        if not m["detected_by"]:
            miss += 1
        rows.append("| %s | %s — *needs:* %s | %s%s |" % (m["id"], s[:260], need[:220], ", ".join(m["detected_by"]) or "**not detected** (see text)",
                                                         (": " + first[:120]) if first else ""))
    text = "\n".join(rows) + "\n\n%d seeded changes kept, %d not detected by any quick check.\n" % (n, miss)
    p = os.path.join(ROOT, "DESIGN.md")
    s = open(p).read()
    a, b = "<!-- SEEDED-TABLE-BEGIN -->\n", "<!-- SEEDED-TABLE-END -->"
    i, j = s.index(a) + len(a), s.index(b)
    open(p, "w").write(s[:i] + text + s[j:])
    print(n, miss)


if __name__ == "__main__":
    main()
