"""Rewrite the table of seeded changes in DESIGN.md (between the SEEDED-TABLE markers) from seeded/*/meta.json."""
import glob
import json
import os

ROOT = os.path.dirname(os.path.dirname(os.path.dirname(os.path.abspath(__file__))))


def main():
    rows = ["| seeded change | what it does — what it needs to manifest | caught by (quick tier): first violated clause |", "|---|---|---|"]
    n = miss = 0
    for d in sorted(glob.glob(os.path.join(ROOT, "seeded", "*", "meta.json"))):
        m = json.load(open(d))
        first = ""
        for p in m["detected_by"]:
            fl = m["checks"][p]["first_lines"]
            if fl:
                first = fl[0].replace("violated clause: ", "").split(" | mechanism")[0]
                break
        s = (m.get("summary") or "").replace("|", "/").replace("\n", " ")
        need = (m.get("needs_to_manifest") or "").replace("|", "/").replace("\n", " ")
        n += 1
        det = list(m["detected_by"])
        how = ""
        ed = m.get("evaluated_differentially")
        if m.get("stale") and ed:
            det = sorted(p for p, r in ed["results"].items() if r["added"])
            how = " (on %s, the newest commit it applies to; what it adds to that tree's violations)" % ed["on_commit"]
            if det:
                first = ed["results"][det[0]]["added"][0][0]
        if not det:
            miss += 1
        note = (" — " + m["note"][:200]) if m.get("note") and not det else ""
        rows.append("| %s | %s — *needs:* %s | %s%s%s%s |" % (m["id"], s[:260], need[:220], ", ".join(det) or "**not detected**", how,
                                                             (": " + first[:120]) if first and det else "", note))
    text = "\n".join(rows) + "\n\n%d seeded changes kept, %d not detected by any quick check.\n" % (n, miss)
    p = os.path.join(ROOT, "DESIGN.md")
    s = open(p).read()
    a, b = "<!-- SEEDED-TABLE-BEGIN -->\n", "<!-- SEEDED-TABLE-END -->"
    i, j = s.index(a) + len(a), s.index(b)
    open(p, "w").write(s[:i] + text + s[j:])
    print(n, miss)


if __name__ == "__main__":
    main()
