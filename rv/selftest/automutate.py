"""Automatic mutation campaign: small syntactic edits of the anchored files, generated mechanically (no judgement about which
clause they should break), kept only when the repository's own tests still pass, then run against every check anchored in the
edited file. Survivors are listed for reading: equivalent edits, edits outside every statement, or gaps.

  python3 rv/selftest/automutate.py [--per-file 25] [--seed 1] [--jobs 5] [--only mingus/core/chords.py] [--out selftest/AUTOMUTANTS.json]

Operators (applied at one place inside a function body): comparison flipped or relaxed (< <= > >= == != in/not in),
+ and - swapped, small integer constant +-1, '#' and 'b' swapped in string constants, `and`/`or` swapped, `not` dropped,
True/False swapped, an `if` condition negated, a `return x` of a call argument order swap is NOT attempted.
"""
import argparse
import ast
import concurrent.futures
import json
import os
import random
import shutil
import subprocess
import sys
import tempfile
import time

HERE = os.path.dirname(os.path.abspath(__file__))
ROOT = os.path.dirname(os.path.dirname(HERE))
sys.path.insert(0, HERE)
import neg_eval  # noqa: E402

PY = "/venv/bin/python"
REPO = "/repo"

CMP = {ast.Lt: ["<=", ">"], ast.LtE: ["<", ">="], ast.Gt: [">=", "<"], ast.GtE: [">", "<="], ast.Eq: ["!="], ast.NotEq: ["=="],
       ast.In: ["not in"], ast.NotIn: ["in"]}
CMP_TXT = {ast.Lt: "<", ast.LtE: "<=", ast.Gt: ">", ast.GtE: ">=", ast.Eq: "==", ast.NotEq: "!=", ast.In: "in", ast.NotIn: "not in"}


def sites(src):
    """-> list of (lineno, col, end_col, replacement text, what) for single-line edits inside function bodies"""
    tree = ast.parse(src)
    lines = src.split("\n")
    out = []

    class V(ast.NodeVisitor):
        depth = 0

        def visit_FunctionDef(self, node):
            self.depth += 1
            body = node.body
            if body and isinstance(body[0], ast.Expr) and isinstance(getattr(body[0], "value", None), ast.Constant) and isinstance(body[0].value.value, str):
                body = body[1:]         # not the docstring
            for b in body:
                self.visit(b)
            self.depth -= 1
        visit_AsyncFunctionDef = visit_FunctionDef

        def generic_visit(self, node):
            if self.depth and getattr(node, "lineno", None) and node.lineno == getattr(node, "end_lineno", None):
                self.consider(node)
            super().generic_visit(node)

        def consider(self, node):
            ln = node.lineno
            line = lines[ln - 1]
            seg = line[node.col_offset:node.end_col_offset]
            if isinstance(node, ast.Compare) and len(node.ops) == 1:
                op = type(node.ops[0])
                if op in CMP:
                    left_end = node.left.end_col_offset
                    right_start = node.comparators[0].col_offset
                    if node.left.end_lineno == ln and node.comparators[0].lineno == ln:
                        mid = line[left_end:right_start]
                        if CMP_TXT[op] in mid:
                            for new in CMP[op]:
                                out.append((ln, left_end, right_start, mid.replace(CMP_TXT[op], new, 1), "%s -> %s" % (CMP_TXT[op], new)))
            elif isinstance(node, ast.BinOp) and isinstance(node.op, (ast.Add, ast.Sub)) and node.left.end_lineno == ln and node.right.lineno == ln:
                left_end, right_start = node.left.end_col_offset, node.right.col_offset
                mid = line[left_end:right_start]
                a, b = ("+", "-") if isinstance(node.op, ast.Add) else ("-", "+")
                if mid.strip() == a:
                    out.append((ln, left_end, right_start, mid.replace(a, b, 1), "%s -> %s" % (a, b)))
            elif isinstance(node, ast.Constant):
                v = node.value
                if isinstance(v, bool):
                    out.append((ln, node.col_offset, node.end_col_offset, str(not v), "%s -> %s" % (v, not v)))
                elif isinstance(v, int) and -2 <= v <= 300 and seg.isdigit():
                    for d in (1, -1):
                        if v + d >= 0:
                            out.append((ln, node.col_offset, node.end_col_offset, str(v + d), "%d -> %d" % (v, v + d)))
                elif isinstance(v, str) and v in ("#", "b") and seg[:1] in "\"'":
                    out.append((ln, node.col_offset, node.end_col_offset, seg.replace(v, "b" if v == "#" else "#"), "%r -> %r" % (v, "b" if v == "#" else "#")))
            elif isinstance(node, ast.BoolOp) and len(node.values) == 2 and node.values[0].end_lineno == ln and node.values[1].lineno == ln:
                left_end, right_start = node.values[0].end_col_offset, node.values[1].col_offset
                mid = line[left_end:right_start]
                a, b = (" and ", " or ") if isinstance(node.op, ast.And) else (" or ", " and ")
                if a in mid:
                    out.append((ln, left_end, right_start, mid.replace(a, b, 1), "%s->%s" % (a.strip(), b.strip())))
            elif isinstance(node, ast.UnaryOp) and isinstance(node.op, ast.Not) and seg.startswith("not "):
                out.append((ln, node.col_offset, node.col_offset + 4, "", "not dropped"))
            elif isinstance(node, ast.If) or isinstance(node, ast.While):
                pass

    V().visit(tree)
    # an `if` / `elif` / `while` test negated (single-line tests only)
    for node in ast.walk(tree):
        if isinstance(node, (ast.If, ast.While)) and node.test.lineno == node.test.end_lineno:
            ln = node.test.lineno
            line = lines[ln - 1]
            seg = line[node.test.col_offset:node.test.end_col_offset]
            out.append((ln, node.test.col_offset, node.test.end_col_offset, "not (%s)" % seg, "condition negated"))
    # only inside functions: drop the module-level ones the second loop may have added
    func_lines = set()
    for node in ast.walk(tree):
        if isinstance(node, (ast.FunctionDef, ast.AsyncFunctionDef)):
            func_lines.update(range(node.lineno + 1, node.end_lineno + 1))
    return [s for s in out if s[0] in func_lines]


def reached_functions():
    import glob
    out = set()
    for f in glob.glob(os.path.join(ROOT, "evidence", "C*.json")):
        e = json.load(open(f))
        out.update(k for k, v in e["coverage"].get("reach", {}).items() if v > 0)
    return out


def deletion_sites(src):
    """single-line simple statements inside functions (assignments, augmented assignments, bare calls) replaced by `pass`"""
    tree = ast.parse(src)
    lines = src.split("\n")
    out = []
    for fn in ast.walk(tree):
        if not isinstance(fn, (ast.FunctionDef, ast.AsyncFunctionDef)):
            continue
        for node in ast.walk(fn):
            if isinstance(node, (ast.Assign, ast.AugAssign)) or (isinstance(node, ast.Expr) and isinstance(node.value, ast.Call)):
                if node.lineno != node.end_lineno:
                    continue
                line = lines[node.lineno - 1]
                if line.strip().startswith(("self.notify_listeners", "print(")):
                    continue
                out.append((node.lineno, node.col_offset, node.end_col_offset, "pass", "statement deleted"))
    return sorted(set(out))


def mutate(src, site):
    ln, c0, c1, new, what = site
    lines = src.split("\n")
    line = lines[ln - 1]
    lines[ln - 1] = line[:c0] + new + line[c1:]
    return "\n".join(lines)


def diff_text(rel, old, new):
    import difflib
    return "".join(difflib.unified_diff(old.splitlines(True), new.splitlines(True), "a/" + rel, "b/" + rel))


def run_one(job):
    rel, site, patch_text, props, idx = job
    d = tempfile.mkdtemp(prefix="rv-auto-", dir="/tmp")
    try:
        pf = os.path.join(d, "m.diff")
        open(pf, "w").write(patch_text)
        cmd = [sys.executable, os.path.join(HERE, "evaluate.py"), "--patch", pf, "--prop", props[0]]
        # tests first, cheaply: evaluate.py runs the checks even when tests fail, so do the tests here
        copy = os.path.join(d, "repo")
        shutil.copytree(REPO, copy, ignore=shutil.ignore_patterns(".git", "__pycache__", "*.pyc", ".pytest_cache"))
        rc = subprocess.run(["git", "apply", "--unsafe-paths", "--directory", copy, pf], cwd="/", stdout=subprocess.PIPE, stderr=subprocess.STDOUT).returncode
        if rc != 0:
            return {"file": rel, "line": site[0], "what": site[4], "status": "patch failed"}
        env = dict(os.environ, PYTHONPATH=copy, PYTHONDONTWRITEBYTECODE="1")
        try:
            p = subprocess.run([PY, "-m", "pytest", "-q", "-p", "no:cacheprovider", "--continue-on-collection-errors", "tests"], cwd=copy, env=env,
                               stdout=subprocess.PIPE, stderr=subprocess.STDOUT, text=True, timeout=300)
            last = p.stdout.strip().splitlines()[-1] if p.stdout.strip() else ""
            tests_ok = "190 passed" in last and "failed" not in last
        except subprocess.TimeoutExpired:
            tests_ok, last = False, "timeout"
        r = {"file": rel, "line": site[0], "what": site[4], "text": patch_text.split("\n")[-3:-1] if False else None}
        if not tests_ok:
            r["status"] = "killed by the repository's tests"
            return r
        det = []
        for prop in props:
            env = dict(os.environ, VERIF_REPO=copy, VERIF_SEED="0", VERIF_JOBS="6")
            try:
                q = subprocess.run([os.path.join(ROOT, "check"), prop, "--no-evidence"], cwd=ROOT, env=env, stdout=subprocess.PIPE, stderr=subprocess.STDOUT,
                                   text=True, timeout=1000)
                rcq, outq = q.returncode, q.stdout
            except subprocess.TimeoutExpired:
                rcq, outq = 2, "INCONCLUSIVE timeout"
            if rcq == 1:
                first = next((l.strip() for l in outq.splitlines() if "violated clause" in l), "")
                det.append((prop, first[:200]))
                break
            if rcq == 2:
                why = next((l for l in outq.splitlines() if l.startswith("INCONCLUSIVE")), "")[:160]
                det.append((prop, "inconclusive: " + why))
                if "timeout" in why:
                    break       # the edit makes a call endless: every further check would only wait for its watchdog too
                continue        # another check anchored in the file may still decide
        hit = [x for x in det if not x[1].startswith("inconclusive")]
        r["status"] = "detected" if hit else ("inconclusive" if det else "SURVIVED")
        r["by"] = det
        r["checks"] = props
        return r
    finally:
        shutil.rmtree(d, ignore_errors=True)


def main():
    ap = argparse.ArgumentParser()
    ap.add_argument("--per-file", type=int, default=25)
    ap.add_argument("--seed", type=int, default=1)
    ap.add_argument("--jobs", type=int, default=5)
    ap.add_argument("--only")
    ap.add_argument("--ops", default="edit", choices=["edit", "delete"])
    ap.add_argument("--out", default=os.path.join(HERE, "AUTOMUTANTS.json"))
    a = ap.parse_args()
    anc = neg_eval.anchors()
    files = sorted(set(f for fs in anc.values() for f in fs))
    rng = random.Random(a.seed)
    jobs = []
    reached = reached_functions()
    sys.path.insert(0, ROOT)
    from rv import lines as L
    for rel in files:
        if a.only and a.only not in rel:
            continue
        src = open(os.path.join(REPO, rel)).read()
        fl = L.function_lines(os.path.join(REPO, rel))
        mod = rel.split("mingus/", 1)[-1][:-3].replace("/", ".")
        # only inside functions some check enters (an edit in code no workload reaches survives trivially and says nothing)
        ss = [x for x in (deletion_sites(src) if a.ops == "delete" else sites(src)) if (mod + "." + fl.get(x[0], "?")) in reached]
        rng.shuffle(ss)
        taken, seen_lines = 0, {}
        for s in ss:
            if taken >= a.per_file:
                break
            if seen_lines.get(s[0], 0) >= 2:
                continue
            new = mutate(src, s)
            try:
                compile(new, rel, "exec")
            except SyntaxError:
                continue
            props = sorted(p for p, fs in anc.items() if rel in fs and p != "C15")
            if "C15" in [p for p, fs in anc.items() if rel in fs]:
                props.append("C15")
            if not props:
                continue
            jobs.append((rel, s, diff_text(rel, src, new), props, len(jobs)))
            seen_lines[s[0]] = seen_lines.get(s[0], 0) + 1
            taken += 1
    print("%d mutants over %d files" % (len(jobs), len(set(j[0] for j in jobs))))
    sys.stdout.flush()
    t0 = time.time()
    rows = []
    with concurrent.futures.ThreadPoolExecutor(max_workers=a.jobs) as ex:
        for job, r in zip(jobs, ex.map(run_one, jobs)):
            src_line = open(os.path.join(REPO, job[0])).read().split("\n")[job[1][0] - 1].strip()
            r["source_line"] = src_line[:160]
            rows.append(r)
            print("%-34s:%-4d %-18s %-34s %s" % (r["file"][-34:], r["line"], r["what"][:18], r["status"], (r.get("by") or [["", ""]])[0][1][:90] if r.get("by") else ""))
            sys.stdout.flush()
    tally = {}
    for r in rows:
        tally[r["status"]] = tally.get(r["status"], 0) + 1
    print("tally:", tally, "in %.0fs" % (time.time() - t0))
    json.dump({"seed": a.seed, "per_file": a.per_file, "tally": tally, "mutants": rows}, open(a.out, "w"), indent=1)


if __name__ == "__main__":
    main()
