"""Differential evaluation of kept patches that no longer apply to /repo HEAD (a later repair rewrote lines they edit).

Such a patch is evaluated on the newest commit of /repo it still applies to: every check anchored in a file it edits is run on
that tree without the patch and with it, and only what the patch *adds* counts: new (violated clause, mechanism) pairs, or more witnesses of a pair
(the old tree may itself fail today's checks for defects repaired since).

  python3 rv/selftest/diff_eval.py [--dir negative|seeded] [--only C09] [--jobs 3] [--write]

negative/: expected no added violation.   seeded/: expected at least one.
"""
import argparse
import concurrent.futures
import glob
import json
import os
import re
import shutil
import subprocess
import sys
import tempfile

HERE = os.path.dirname(os.path.abspath(__file__))
ROOT = os.path.dirname(os.path.dirname(HERE))
sys.path.insert(0, HERE)
import neg_eval  # noqa: E402


def sh(*cmd, cwd=None, env=None):
    p = subprocess.run(cmd, cwd=cwd, env=env, stdout=subprocess.PIPE, stderr=subprocess.STDOUT, text=True)
    return p.returncode, p.stdout


def base_commit(patch):
    rc, out = sh("git", "-C", "/repo", "rev-list", "HEAD", "-n", "60")
    tmp = tempfile.mkdtemp(prefix="rv-base-", dir="/tmp")
    os.rmdir(tmp)
    sh("git", "-C", "/repo", "worktree", "add", "--detach", "-q", tmp, "HEAD")
    try:
        for c in out.split():
            sh("git", "checkout", "-q", "--detach", c, cwd=tmp)
            rc, _ = sh("git", "apply", "--check", patch, cwd=tmp)
            if rc == 0:
                return c
    finally:
        sh("git", "-C", "/repo", "worktree", "remove", "--force", tmp)
        sh("git", "-C", "/repo", "worktree", "prune")
    return None


def violations(tree, prop):
    env = dict(os.environ, VERIF_REPO=tree, VERIF_SEED="0")
    rc, out = sh(os.path.join(ROOT, "check"), prop, "--no-evidence", cwd=ROOT, env=env)
    vs = {}
    for l in out.splitlines():
        m = re.match(r"\s+violated clause: (.*?) \| mechanism: (.*?) \| x(\d+)", l)
        if m:
            vs[(m.group(1), m.group(2))] = int(m.group(3))
    inconclusive = [l for l in out.splitlines() if l.startswith("INCONCLUSIVE")]
    return rc, vs, inconclusive


def one(job):
    patch, props = job
    c = base_commit(patch)
    if c is None:
        return patch, None, {}
    d = tempfile.mkdtemp(prefix="rv-diff-", dir="/tmp")
    try:
        a, b = os.path.join(d, "a"), os.path.join(d, "b")
        for t in (a, b):
            os.makedirs(t)
            sh("bash", "-c", "git -C /repo archive %s | tar -x -C %s" % (c, t))
        rc, out = sh("git", "apply", "--unsafe-paths", "--directory", b, os.path.abspath(patch), cwd="/")
        if rc != 0:
            rc, out = sh("patch", "-p1", "-d", b, "-i", os.path.abspath(patch))
        res = {}
        for p in props:
            r0, v0, i0 = violations(a, p)
            r1, v1, i1 = violations(b, p)
            res[p] = {"base_exit": r0, "patched_exit": r1, "added": sorted(k for k in v1 if v1[k] > v0.get(k, 0)), "inconclusive_added": len(i1) > len(i0)}
        return patch, c[:7], res
    finally:
        shutil.rmtree(d, ignore_errors=True)


def main():
    ap = argparse.ArgumentParser()
    ap.add_argument("--dir", default="negative")
    ap.add_argument("--only")
    ap.add_argument("--jobs", type=int, default=3)
    ap.add_argument("--write", action="store_true")
    a = ap.parse_args()
    anc = neg_eval.anchors()
    tmp = tempfile.mkdtemp(prefix="rv-head-", dir="/tmp")
    os.rmdir(tmp)
    sh("git", "-C", "/repo", "worktree", "add", "--detach", "-q", tmp, "HEAD")
    jobs = []
    try:
        for p in sorted(glob.glob(os.path.join(ROOT, a.dir, "*", "patch.diff"))):
            if a.only and a.only not in p:
                continue
            rc, _ = sh("git", "apply", "--check", p, cwd=tmp)
            if rc == 0:
                continue
            m = json.load(open(os.path.join(os.path.dirname(p), "meta.json")))
            pid = m["property"]
            fs = neg_eval.files_of(p)
            props = [pid] + sorted(q for q, af in anc.items() if q != pid and af & fs)
            if a.dir == "seeded":
                props = [pid] + [q for q in m.get("detected_by", []) if q != pid]
            jobs.append((p, props))
    finally:
        sh("git", "-C", "/repo", "worktree", "remove", "--force", tmp)
        sh("git", "-C", "/repo", "worktree", "prune")
    with concurrent.futures.ThreadPoolExecutor(max_workers=a.jobs) as ex:
        for patch, c, res in ex.map(one, jobs):
            sid = os.path.basename(os.path.dirname(patch))
            if c is None:
                print("%-10s applies to none of the last 60 commits" % sid)
                continue
            added = dict((p, r["added"]) for p, r in res.items() if r["added"] or r["inconclusive_added"])
            print("%-10s on %s: %s" % (sid, c, ("adds " + "; ".join("%s: %s" % (p, [x[1] for x in v][:3]) for p, v in added.items())) if added
                                       else "adds nothing (checks: %s)" % ",".join(res)))
            sys.stdout.flush()
            if a.write:
                mp = os.path.join(os.path.dirname(patch), "meta.json")
                m = json.load(open(mp))
                m["evaluated_differentially"] = {"on_commit": c, "why": "no longer applies to /repo HEAD; evaluated on the newest commit it applies to, "
                                                 "counting only what the patch adds to the violations of that tree", "results": res}
                json.dump(m, open(mp, "w"), indent=1)


if __name__ == "__main__":
    main()
