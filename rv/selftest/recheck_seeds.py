"""Re-run every kept seeded change (seeded/<id>/patch.diff + demo.py) against the current /repo and checks and
update the `confirmed` / `checks` / `detected_by` fields of its meta.json.

  python3 rv/selftest/recheck_seeds.py [--only C07] [--jobs 4] [--tier quick]
"""
import argparse
import concurrent.futures
import glob
import json
import os
import subprocess
import sys

HERE = os.path.dirname(os.path.abspath(__file__))
ROOT = os.path.dirname(os.path.dirname(HERE))


def one(d, tier):
    meta_p = os.path.join(d, "meta.json")
    m = json.load(open(meta_p))
    prop = m["property"]
    also = sorted(set(p for p in m.get("detected_by", []) if p != prop))
    cmd = [sys.executable, os.path.join(HERE, "evaluate.py"), "--patch", os.path.join(d, "patch.diff"), "--prop", prop,
           "--demo", os.path.join(d, "demo.py"), "--tier", tier]
    if also:
        cmd += ["--also", ",".join(also)]
    out = subprocess.run(cmd, stdout=subprocess.PIPE, text=True).stdout
    try:
        r = json.loads(out)
    except ValueError:
        return m["id"], "evaluate failed", []
    head = subprocess.run(["git", "-C", "/repo", "rev-parse", "--short", "HEAD"], stdout=subprocess.PIPE, text=True).stdout.strip()
    if not r.get("applied"):
        m["stale"] = "patch does not apply to /repo HEAD %s any more (the code it edits was repaired since)" % head
        json.dump(m, open(meta_p, "w"), indent=1)
        return m["id"], "STALE (does not apply)", m.get("detected_by", [])
    m.pop("stale", None)
    m["confirmed"].update({"rechecked_at_repo_head": head, "repo_tests_pass_with_change": r.get("repo_tests_pass_with_change"),
                           "demo_exit_without_change": r.get("demo_exit_without_change"), "demo_exit_with_change": r.get("demo_exit_with_change")})
    m["checks"] = dict((p, {"tier": tier, "exit": c["exit"], "wall_s": c["wall_s"],
                            "first_lines": [l.strip() for l in c["lines"] if "violated clause" in l][:3]}) for p, c in r["check"].items())
    m["detected_by"] = r["detected_by"]
    json.dump(m, open(meta_p, "w"), indent=1)
    ok = r.get("repo_tests_pass_with_change") and r.get("demo_exit_without_change") == 0 and r.get("demo_exit_with_change") not in (0, None)
    return m["id"], ("ok" if ok else "DEMO/TESTS CHANGED"), r["detected_by"]


def main():
    ap = argparse.ArgumentParser()
    ap.add_argument("--only")
    ap.add_argument("--jobs", type=int, default=4)
    ap.add_argument("--tier", default="quick")
    a = ap.parse_args()
    dirs = sorted(glob.glob(os.path.join(ROOT, "seeded", "*")))
    dirs = [d for d in dirs if os.path.exists(os.path.join(d, "meta.json")) and (not a.only or a.only in os.path.basename(d))]
    miss = 0
    with concurrent.futures.ThreadPoolExecutor(max_workers=a.jobs) as ex:
        for (sid, status, det) in ex.map(lambda d: one(d, a.tier), dirs):
            print("%-8s %-28s detected_by=%s" % (sid, status, det))
            sys.stdout.flush()
            if not det:
                miss += 1
    print("%d seeded changes, %d not detected" % (len(dirs), miss))


if __name__ == "__main__":
    main()
