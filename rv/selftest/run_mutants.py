"""Run the self-test mutants and negative controls.

  python3 rv/selftest/run_mutants.py [--only C07|<mutant id>] [--tier quick] [--jobs 4] [--write]

For each mutant: copy /repo to a scratch directory, apply the substitution, confirm the repository's own
tests still pass (otherwise the mutant is not 'realistic' and is reported as discarded), run the
property's check with VERIF_REPO pointing at the copy (no evidence written), delete the copy.
Expected: exit 1 for mutants, exit 0 for negative controls. --write stores rv/selftest/RESULTS.md.
"""
import argparse
import concurrent.futures
import os
import shutil
import sys
import time

HERE = os.path.dirname(os.path.abspath(__file__))
sys.path.insert(0, HERE)
import evaluate  # noqa: E402
import mutants  # noqa: E402


def run_one(m, tier, negative):
    mid, prop, path, old, new, what = m
    d, copy = evaluate.make_copy()
    try:
        f = os.path.join(copy, path)
        s = open(f).read()
        if s.count(old) != 1:
            return (mid, prop, "stale", "pattern found %d times" % s.count(old), 0, what)
        open(f, "w").write(s.replace(old, new))
        ok, last = evaluate.run_tests(copy)
        if not ok:
            return (mid, prop, "discarded", "repository tests fail: " + last, 0, what)
        r = evaluate.run_check(copy, prop, tier, 0)
        want = 0 if negative else 1
        status = ("ok" if r["exit"] == want else ("MISSED" if not negative else "FALSE-ALARM"))
        if r["exit"] == 2 and not negative:
            status = "inconclusive"
        first = next((l for l in r["lines"] if "violated clause" in l), "")
        return (mid, prop, status, first.strip()[:160], r["wall_s"], what)
    finally:
        shutil.rmtree(d, ignore_errors=True)


def main():
    ap = argparse.ArgumentParser()
    ap.add_argument("--only")
    ap.add_argument("--tier", default="quick")
    ap.add_argument("--jobs", type=int, default=3)
    ap.add_argument("--write", action="store_true")
    a = ap.parse_args()
    todo = []
    for m in mutants.M:
        todo.append((m, m[0] in mutants.NEGATIVE))
    for m in mutants.EXTRA_NEGATIVE:
        todo.append((m, True))
    if a.only:
        todo = [(m, n) for (m, n) in todo if a.only in (m[0], m[1])]
    t0 = time.time()
    rows = []
    with concurrent.futures.ThreadPoolExecutor(max_workers=a.jobs) as ex:
        futs = [ex.submit(run_one, m, a.tier, n) for (m, n) in todo]
        for (m, n), f in zip(todo, futs):
            r = f.result()
            rows.append((r, n))
            print("%-24s %-4s %-12s %5.1fs  %s" % (r[0], r[1], r[2] + (" (neg)" if n else ""), r[4], r[3][:110]))
            sys.stdout.flush()
    bad = [r for (r, n) in rows if r[2] not in ("ok",)]
    print("%d mutants/controls, %d not as expected, %.0fs" % (len(rows), len(bad), time.time() - t0))
    if a.write:
        with open(os.path.join(HERE, "RESULTS.md"), "w") as f:
            f.write("# Self-test mutants (tier %s)\n\n" % a.tier)
            f.write("Each row: a small edit of the library applied to a scratch copy; the repository's own tests still pass; the check of the\n"
                    "property is run against the copy. Expected: VIOLATION (exit 1) for mutants, exit 0 for negative controls.\n\n")
            f.write("| mutant | property | kind | result | what the edit does | first violated clause |\n|---|---|---|---|---|---|\n")
            for (r, n) in rows:
                f.write("| %s | %s | %s | %s | %s | %s |\n" % (r[0], r[1], "negative control" if n else "mutant", r[2], r[5], r[3].replace("|", "/")[:140]))
    return 1 if bad else 0


if __name__ == "__main__":
    sys.exit(main())
