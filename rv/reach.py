"""sys.monitoring based observers.

* Reach map (M-reach): PY_START counter per function of the anchored source files, so the evidence
  shows which mechanisms a workload actually drove, and a run whose anchored mechanism was never
  entered is inconclusive instead of 'held'.
* Step watchdog (M-steps): LINE events counted inside selected functions; exceeding the budget raises
  StepBudgetExceeded inside the observed code. The verdict is on logical steps, not wall-clock time.
"""
import functools
import sys

from rv import contracts

M = sys.monitoring
REACH_TOOL = M.COVERAGE_ID
STEP_TOOL = M.PROFILER_ID

_reach = {}
_reach_files = ()


def start_reach(file_suffixes):
    """Count entries of every function defined in files whose path ends with one of the suffixes."""
    global _reach_files
    _reach_files = tuple(file_suffixes)
    try:
        M.use_tool_id(REACH_TOOL, "rv-reach")
    except ValueError:
        pass

    def on_start(code, offset):
        fn = code.co_filename
        if not fn.endswith(_reach_files):
            return M.DISABLE
        key = fn.rsplit("mingus/", 1)[-1][:-3].replace("/", ".") + "." + code.co_qualname
        _reach[key] = _reach.get(key, 0) + 1
        return None

    M.register_callback(REACH_TOOL, M.events.PY_START, on_start)
    M.set_events(REACH_TOOL, M.events.PY_START)


def stop_reach():
    try:
        M.set_events(REACH_TOOL, 0)
        M.register_callback(REACH_TOOL, M.events.PY_START, None)
        M.free_tool_id(REACH_TOOL)
    except ValueError:
        pass
    return dict(_reach)


# ---------------------------------------------------------------------------------------- steps
class StepBudgetExceeded(contracts.MonitorViolation):
    pass


_steps = {"n": 0, "budget": 200000, "active": 0, "installed": False, "max": 0, "codes": []}


def _on_line(code, line):
    if not _steps["active"]:
        return None
    _steps["n"] += 1
    if _steps["n"] > _steps["budget"]:
        _steps["active"] = 0
        raise StepBudgetExceeded("more than %d line events in %s" % (_steps["budget"], code.co_qualname))
    return None


def install_steps(budget=200000):
    if not _steps["installed"]:
        try:
            M.use_tool_id(STEP_TOOL, "rv-steps")
        except ValueError:
            pass
        M.register_callback(STEP_TOOL, M.events.LINE, _on_line)
        _steps["installed"] = True
    _steps["budget"] = budget


def watch_code(func):
    """Enable LINE events for a function's code object (and keep them enabled)."""
    f = func
    while hasattr(f, "__wrapped__"):
        f = f.__wrapped__
    code = f.__code__
    if code not in _steps["codes"]:
        M.set_local_events(STEP_TOOL, code, M.events.LINE)
        _steps["codes"].append(code)


def bounded(orig, clause, describe):
    """Wrap `orig` so that every outermost call runs under the step budget."""
    @functools.wraps(orig)
    def wrapper(*a, **kw):
        if _steps["active"]:
            return orig(*a, **kw)
        _steps["n"] = 0
        _steps["active"] = 1
        try:
            return orig(*a, **kw)
        except StepBudgetExceeded:
            ctx = contracts.CTX
            if ctx is not None:
                ctx.violation(clause, {"call": describe, "args": [repr(x) for x in a],
                                       "kwargs": dict((k, repr(v)) for k, v in kw.items()),
                                       "line_events": _steps["n"]},
                              expected="returns within %d line events" % _steps["budget"],
                              observed="budget exceeded", mechanism="no-termination:" + describe)
            raise
        finally:
            _steps["active"] = 0
            if _steps["n"] > _steps["max"]:
                _steps["max"] = _steps["n"]
            ctx = contracts.CTX
            if ctx is not None:
                ctx.counters[clause] = ctx.counters.get(clause, 0) + 1
    return wrapper


def guard_steps(module, names, clause="M-steps bounded progress", budget=200000):
    """Put module.<name> (functions) under the step watchdog, rebinding every reference."""
    install_steps(budget)
    for name in names:
        orig = getattr(module, name, None)
        if orig is None:
            if contracts.CTX is not None:
                contracts.CTX.unsure("cannot watch %s.%s: missing" % (module.__name__, name))
            continue
        watch_code(orig)
        w = bounded(orig, clause, "%s.%s" % (module.__name__.split(".")[-1], name))
        if isinstance(module, type):
            setattr(module, name, w)
        else:
            contracts.rebind(orig, w)
    contracts.ATTACHED.append("M-steps on %s.{%s}, budget %d line events" %
                              (getattr(module, "__name__", module), ",".join(names), budget))


def max_steps_seen():
    return _steps["max"]
