"""C15 No hidden shared state: results, arguments, caches and instances are independent."""
import copy
import gc
import importlib
import os
import pickle
import sys
import traceback

from rv import contracts, reach
from rv.ctx import Ctx
from rv.models import theory as T

ID = "C15"
ANCHOR_FILES = ["mingus/core/keys.py", "mingus/core/chords.py", "mingus/core/progressions.py", "mingus/core/intervals.py",
                "mingus/containers/suite.py", "mingus/containers/composition.py", "mingus/containers/note.py",
                "mingus/containers/note_container.py", "mingus/containers/bar.py", "mingus/containers/track.py",
                "mingus/midi/midi_file_out.py", "mingus/midi/midi_track.py", "mingus/extra/fft.py"]
REQUIRED_REACH = ["core.keys.get_notes", "core.chords.triads", "core.chords.sevenths", "core.progressions.to_chords",
                  "core.progressions.substitute", "extra.fft._find_log_index", "containers.suite.Suite.add_composition",
                  "containers.note_container.NoteContainer.add_notes", "midi.midi_track.MidiTrack.play_Note"]
REQUIRED_CLAUSES = ["history:", "poison:", "siblings:", "copies:", "lookup:", "M-args"]
RULE = ("(a) random call histories over the public theory API, each started from a cold (forked) interpreter state, "
        "followed by a fixed battery of queries whose answers are compared with a cold interpreter's; (b) one poison "
        "trial per (function, arguments): every list/dict of the result is mutated in place in its own forked "
        "interpreter, then the battery is asked again; (c) sibling instances of every public class under operation "
        "scripts; copies; constructor arguments; (d) frequency-table lookups after random lookup histories; "
        "non-trivial = every case; distinct by history / trial / script / lookup sequence")


# ------------------------------------------------------------------------------- the query battery
def _mods():
    from mingus.core import notes, intervals, keys, chords, progressions, scales, value, meter
    return {"notes": notes, "intervals": intervals, "keys": keys, "chords": chords, "progressions": progressions,
            "scales": scales, "value": value, "meter": meter}


def battery(rng=None, size=None):
    """List of query specs {m, f, a[, then, ta]}. With rng: a random selection with other arguments
    (used for histories); without: the fixed battery Q."""
    names = ["C", "F#", "Bb", "E", "Abb", "G##"] if rng is None else [rng.choice(list(T.pure_names(2))) for _ in range(6)]
    keys30 = [k[0] for k in T.KEYS]
    Q = []

    def q(m, f, *a, **kw):
        spec = {"m": m, "f": f, "a": list(a)}
        spec.update(kw)
        Q.append(spec)
    for n in names:
        q("notes", "note_to_int", n), q("notes", "reduce_accidentals", n), q("notes", "remove_redundant_accidentals", n)
        q("notes", "augment", n), q("notes", "diminish", n), q("notes", "is_enharmonic", n, "C")
        for c in T.CONSTRUCTORS:
            q("intervals", c, n)
        q("intervals", "measure", n, "D"), q("intervals", "determine", n, "G"), q("intervals", "determine", n, "G", True)
        q("intervals", "from_shorthand", n, "b3"), q("intervals", "from_shorthand", n, "#4", False)
        q("intervals", "is_consonant", n, "E"), q("intervals", "is_dissonant", n, "F", True)
        for b in ("major_triad", "minor_seventh", "dominant_ninth", "diminished_seventh", "hendrix_chord", "eleventh"):
            q("chords", b, n)
        for sh in ("m7", "dim7", "13", "sus4b9", "6/9", "/G", "m|C"):
            q("chords", "from_shorthand", n + sh)
    # pairs of calls whose arguments read the same when run together ('Cb' + 'b' / 'C' + 'bb', 'Cb' + '3' / 'C' + 'b3'):
    # one of each pair is asked in the battery, the other one only ever turns up in the histories before it
    for (m, f, first, second) in [
            ("chords", "triad", ("C", "bb"), ("Cb", "b")), ("chords", "seventh", ("C", "bb"), ("Cb", "b")),
            ("chords", "triad", ("Fb", "b"), ("F", "bb")), ("chords", "seventh", ("Bbb", "b"), ("Bb", "bb")),
            ("intervals", "third", ("E", "bb"), ("Eb", "b")), ("intervals", "fifth", ("Gb", "b"), ("G", "bb")),
            ("intervals", "seventh", ("A", "bb"), ("Ab", "b")), ("intervals", "second", ("Db", "b"), ("D", "bb")),
            ("intervals", "from_shorthand", ("C", "b3"), ("Cb", "3")), ("intervals", "from_shorthand", ("F##", "4"), ("F#", "#4")),
            ("intervals", "from_shorthand", ("Gb", "b7"), ("Gbb", "7")), ("intervals", "from_shorthand", ("A", "##2"), ("A##", "2"))]:
        q(m, f, *(first if rng is None else second))
        if rng is not None and f == "from_shorthand":
            q(m, f, *(second + (False,)))
    for i in range(12):
        q("notes", "int_to_note", i), q("notes", "int_to_note", i, "b")
    q("intervals", "invert", ["C", "E", "G"])
    for k in keys30:
        q("keys", "get_notes", k), q("keys", "get_key_signature", k), q("keys", "get_key_signature_accidentals", k)
        q("keys", "Key", k)
        q("chords", "triads", k), q("chords", "sevenths", k)
        for fn in ("tonic", "dominant7", "subtonic", "II", "vi7", "VII7"):
            q("chords", fn, k)
        q("intervals", "third", "E", k), q("intervals", "seventh", "B", k), q("intervals", "interval", k, "D", 4)
        q("progressions", "to_chords", ["I", "IV", "V7", "bIIm7"], k), q("progressions", "to_chords", "vi", k)
        q("chords", "triad", "E", k), q("chords", "seventh", "G", k)
    for k in T.MAJOR_KEYS:
        q("keys", "relative_minor", k)
        kn = T.notes_of_key(k)
        q("progressions", "determine", [kn[1], kn[3], kn[5]], k, True), q("progressions", "determine", [kn[4], kn[6], kn[1], kn[3]], k)
    for k in T.MINOR_KEYS:
        q("keys", "relative_major", k)
    for s in range(-7, 8):
        q("keys", "get_key", s)
    for ch in (["C", "E", "G"], ["E", "G", "C"], ["C", "E", "G", "B"], ["A", "C", "E", "G", "B"], ["C", "E", "G", "Bb", "D", "A"],
               ["C", "D"], ["F"], []):
        q("chords", "determine", ch), q("chords", "determine", ch, True)
    q("chords", "from_shorthand", ["C", "Am", "NC"])
    # the second parameter ("only used for a recursive call") is still a list handed to a library call
    q("chords", "from_shorthand", "Am", ["C", "E"]), q("chords", "from_shorthand", "Am/G", ["C", "E"]), q("chords", "from_shorthand", "Dm7", "F")
    for p in (["I", "IV", "V", "I"], ["IIm7", "V7", "I"], ["VIIdim7"], ["bVIm"]):
        for i in range(len(p)):
            q("progressions", "substitute", p, i), q("progressions", "substitute", p, i, 1)
            q("progressions", "substitute_harmonic", p, i), q("progressions", "substitute_minor_for_major", p, i, True)
            q("progressions", "substitute_major_for_minor", p, i), q("progressions", "substitute_diminished_for_diminished", p, i)
            q("progressions", "substitute_diminished_for_dominant", p, i)
    for s in ("bIM7", "##V7", "iv", "VIIdim7"):
        q("progressions", "parse_string", s)
    q("progressions", "tuple_to_string", ["V", -2, "m7"]), q("progressions", "skip", "VI", 3), q("progressions", "interval_diff", "II", "VI", 9)
    for cls, ton in (("Major", "Eb"), ("NaturalMinor", "F#"), ("HarmonicMinor", "A"), ("MelodicMinor", "C"), ("Bachian", "D"),
                     ("MinorNeapolitan", "E"), ("HarmonicMajor", "G"), ("Dorian", "D"), ("Locrian", "B"), ("WholeTone", "C"),
                     ("Octatonic", "F"), ("Chromatic", "f")):
        q("scales", cls, ton, then="ascending"), q("scales", cls, ton, 2, then="descending"), q("scales", cls, ton, then="degree", ta=[3])
    q("scales", "Diatonic", "C", [3, 7], then="ascending")
    for ns in (["C", "D", "E"], ["A", "Bb", "C"], ["F#", "G#", "A"], []):
        q("scales", "determine", ns)
    for v in (4, 12, 14, 2.6666666666666665, 1.5, 0.99 * 8, 96):
        q("value", "determine", v)
    q("value", "add", 8, 4), q("value", "subtract", 4, 8), q("value", "dots", 8, 2), q("value", "triplet", 16), q("value", "septuplet", 8, False)
    for m in ((4, 4), (6, 8), (5, 4), (3, 3), (0, 4), (12, 16)):
        for f in ("is_valid", "is_compound", "is_simple", "is_asymmetrical"):
            q("meter", f, list(m))
    # object-level queries with default arguments (answered by fresh objects every time)
    for p in (0, 33, 57, 60, 69, 100, 127):
        q("obj", "note_to_hertz", p), q("obj", "note_to_shorthand", p)
    for hz in (27.5, 261.63, 440.0, 880.0, 4186.0):
        q("obj", "note_from_hertz", hz)
    for ch in ("Am7", "C", "F#dim7"):
        q("obj", "nc_from_chord", ch), q("obj", "nc_determine", ch)
    if rng is not None:
        rng.shuffle(Q)
        Q = Q[:size or len(Q)]
    return Q


def _obj_query(name, a):
    from mingus.containers import Note, NoteContainer
    if name == "note_to_hertz":
        return Note(a[0]).to_hertz()
    if name == "note_to_shorthand":
        return Note(a[0]).to_shorthand()
    if name == "note_from_hertz":
        return repr(Note().from_hertz(a[0]))
    if name == "nc_from_chord":
        return repr(NoteContainer().from_chord(a[0]))
    return NoteContainer().from_chord(a[0]).determine(True)


def evaluate(spec, mods):
    if spec["m"] == "obj":
        return _obj_query(spec["f"], spec["a"]), list(spec["a"])
    f = getattr(mods[spec["m"]], spec["f"])
    args = copy.deepcopy(spec["a"])
    if spec["m"] == "meter":
        args = [tuple(args[0])]
    if spec["f"] == "Diatonic":
        args[1] = tuple(args[1])
    if spec["f"] == "tuple_to_string":
        args = [tuple(args[0])]
    r = f(*args)
    if spec.get("then"):
        r = getattr(r, spec["then"])(*spec.get("ta", []))
    elif spec["f"] == "Key":
        r = (r.key, r.mode, r.name, r.signature)
    return r, args


def canon(x):
    if isinstance(x, (list, tuple)):
        return [canon(e) for e in x]
    if isinstance(x, dict):
        return dict((str(k), canon(v)) for k, v in sorted(x.items(), key=lambda kv: str(kv[0])))
    if isinstance(x, float):
        return repr(x)
    if isinstance(x, (int, str, bool)) or x is None:
        return x
    return repr(x)


def ask(Q, mods):
    out = []
    for spec in Q:
        try:
            r, _args = evaluate(spec, mods)
            out.append(canon(r))
        except contracts.MonitorViolation as e:
            out.append("MONITOR:" + str(e))
        except Exception as e:
            out.append("EXC:" + type(e).__name__)
    return out


def label(spec):
    return "%s.%s%s(%s)" % (spec["m"], spec["f"], "." + spec["then"] if spec.get("then") else "", ", ".join(repr(a) for a in spec["a"]))


# ------------------------------------------------------------------------------- fork helper
def forked(ctx, fn, *args):
    """Run fn(subctx, *args) in a forked child (a copy of this interpreter's current state) and merge
    what its Ctx recorded into ctx. Returns fn's return value (must be picklable) or None."""
    rfd, wfd = os.pipe()
    base_reach = dict(reach._reach)
    pid = os.fork()
    if pid == 0:
        code = 0
        try:
            os.close(rfd)
            sub = Ctx(ctx.prop, ctx.shard, ctx.tier, ctx.seed)
            contracts.set_ctx(sub, contracts.MODE)
            try:
                ret = fn(sub, *args)
                err = None
            except BaseException:
                ret, err = None, traceback.format_exc()[-1500:]
            res = sub.result()
            res["ret"] = ret
            res["err"] = err
            res["reach"] = dict((k, v - base_reach.get(k, 0)) for k, v in reach._reach.items() if v != base_reach.get(k, 0))
            with os.fdopen(wfd, "wb") as f:
                pickle.dump(res, f)
        except BaseException:
            code = 3
        finally:
            os._exit(code)
    os.close(wfd)
    with os.fdopen(rfd, "rb") as f:
        data = f.read()
    os.waitpid(pid, 0)
    if not data:
        ctx.unsure("forked child produced no result")
        return None
    res = pickle.loads(data)
    if res.get("err"):
        ctx.unsure("forked child failed: " + res["err"])
    ctx.evaluations += res["evaluations"]
    ctx.hashes.update(res["hashes"])
    ctx.states.update(res["states"])
    for k, v in res["counters"].items():
        ctx.counters[k] = ctx.counters.get(k, 0) + v
    for v in res["violations"]:
        key = (v["clause"], v.get("mechanism"))
        ctx.vio_total += v.get("count", 1)
        if key in ctx.vio_index:
            ctx.vio_index[key]["count"] += v.get("count", 1)
        elif len(ctx.violations) < ctx.MAX_VIOLATIONS:
            ctx.vio_index[key] = v
            ctx.violations.append(v)
    for s in res["samples"]:
        ctx.sample(s)
    for r in res["inconclusive"]:
        ctx.unsure(r)
    for k, v in res["reach"].items():
        reach._reach[k] = reach._reach.get(k, 0) + v
    return res["ret"]


# ------------------------------------------------------------------------------- shards
def shards(tier, seed):
    out = []
    K = 60 if tier == "quick" else 600
    parts = 10 if tier == "quick" else 16
    for i in range(parts):
        out.append({"name": "histories-%d" % i, "kind": "hist", "cold": True, "k": K // parts, "calls": [200, 600] if tier == "quick" else [200, 2000],
                    "weight": 8})
    parts = 8 if tier == "quick" else 16
    for i in range(parts):
        out.append({"name": "poison-%d" % i, "kind": "poison", "part": i, "parts": parts, "limit": 150 if tier == "quick" else None,
                    "bare": True, "weight": 8})
    out.append({"name": "siblings", "kind": "siblings", "weight": 3})
    out.append({"name": "copies-and-constructor-arguments", "kind": "copies", "weight": 2})
    n = 2000 if tier == "quick" else 100000
    for i in range(2 if tier == "quick" else 8):
        out.append({"name": "lookups-%d" % i, "kind": "lookup", "n": n // (2 if tier == "quick" else 8), "weight": 4})
    return out


def diff_answers(ref, got, Q, limit=4):
    bad = [i for i in range(len(Q)) if ref[i] != got[i]]
    return bad, [{"query": label(Q[i]), "cold": ref[i], "now": got[i]} for i in bad[:limit]]


def mech_of(spec_label_list):
    """mechanism key: the functions whose answers changed (not the values)"""
    fs = sorted(set(x["query"].split("(")[0] for x in spec_label_list))
    return ",".join(fs[:3])


def poison(x, skip, depth=0):
    """Mutate in place every list/dict reachable from x (through lists, tuples, dicts)."""
    n = 0
    if depth > 6 or id(x) in skip:
        return 0
    if isinstance(x, list):
        for e in list(x):
            n += poison(e, skip, depth + 1)
        if len(x) > 0:
            x[0] = "POISON0"
        x.append("POISON")
        n += 1
    elif isinstance(x, dict):
        for e in list(x.values()):
            n += poison(e, skip, depth + 1)
        x["POISON"] = 1
        n += 1
    elif isinstance(x, tuple):
        for e in x:
            n += poison(e, skip, depth + 1)
    return n


def ids_of(x, acc):
    acc.add(id(x))
    if isinstance(x, (list, tuple)):
        for e in x:
            ids_of(e, acc)
    elif isinstance(x, dict):
        for e in x.values():
            ids_of(e, acc)
    return acc


def run(shard, ctx):
    kind = shard["kind"]
    mods = _mods()
    if kind in ("hist", "poison"):
        Q = battery()
        ref = forked(ctx, lambda sub: ask(Q, mods))
        if ref is None:
            ctx.unsure("no cold reference")
            return
        nexc = sum(1 for a in ref if isinstance(a, str) and a.startswith(("EXC:", "MONITOR:")))
        ctx.extra["battery_size"] = len(Q)
        ctx.extra["battery_queries_raising_in_cold_interpreter"] = nexc
    if kind == "hist":
        def one_history(sub, h):
            rng = sub.rng("history-%d" % h)
            ncalls = rng.randint(*shard["calls"])
            H = battery(rng, 400)
            done = 0
            trace = []
            while done < ncalls:
                spec = rng.choice(H)
                try:
                    evaluate(spec, mods)
                except contracts.MonitorViolation:
                    pass
                except Exception:
                    pass
                if len(trace) < 40:
                    trace.append(label(spec))
                done += 1
                if done % 97 == 0:
                    gc.collect()
            from rv import history
            history.stir(sub)        # helpers called directly, object methods with non-default arguments
            got = ask(Q, mods)
            bad, ex = diff_answers(ref, got, Q)
            sub.check("history: every battery answer after a random call history equals the cold interpreter's answer", not bad,
                      {"history_seed": "%s:history-%d" % (sub.seed, h), "calls": ncalls, "first_calls": trace[:12], "changed": len(bad)},
                      None, ex, mechanism="history:" + mech_of(ex))
            # ask again: the battery itself is a history
            got2 = ask(Q, mods)
            bad2, ex2 = diff_answers(ref, got2, Q)
            sub.check("history: asking the battery twice gives the same answers", not bad2, {"changed": len(bad2)}, None, ex2,
                      mechanism="history-repeat:" + mech_of(ex2))
            sub.case(("history", h, ncalls))
            sub.state(tuple(trace[:40]))
            if h == 0:
                sub.sample({"history": trace[:10], "calls": ncalls, "battery": len(Q), "answers_equal_to_cold": not bad})
            return None
        base = int(shard["name"].split("-")[1]) * 1000
        for h in range(shard["k"]):
            forked(ctx, one_history, base + h)
        # one history in this process too, so that the reach map and the argument monitor of this shard see it
        one_history(ctx, base + 999)
    elif kind == "poison":
        # trials = battery entries whose cold answer contains a list or dict
        cand = [i for i, a in enumerate(ref) if isinstance(a, (list, dict))]
        rng = ctx.rng("poison-order")
        order = list(cand)
        rng.shuffle(order)
        if shard.get("limit"):
            # keep one trial per function first, then fill up
            seen, first, restl = set(), [], []
            for i in order:
                key = (Q[i]["m"], Q[i]["f"], Q[i].get("then"), tuple(type(a).__name__ for a in Q[i]["a"]))
                (restl if key in seen else first).append(i)
                seen.add(key)
            order = (first + restl)[:shard["limit"]]
        mine = order[shard["part"]::shard["parts"]]

        def trial(sub, i):
            spec = Q[i]
            try:
                r1, args = evaluate(spec, mods)
            except Exception as e:
                sub.unsure("poison trial could not evaluate %s: %r" % (label(spec), e))
                return
            snap = canon(r1)
            sub.check("poison: no library call modifies the lists or dictionaries passed to it", canon(args) == canon(spec["a"]),
                      {"call": label(spec)}, canon(spec["a"]), canon(args), mechanism="arg:" + spec["f"])
            skip = ids_of(args, set())
            n = poison(r1, skip)
            got = ask(Q, mods)
            bad, ex = diff_answers(ref, got, Q)
            sub.check("poison: modifying a returned list never changes what any later call returns", not bad,
                      {"poisoned_result_of": label(spec), "result_was": snap, "containers_mutated": n, "answers_changed": len(bad)},
                      None, ex, mechanism="poisoned:%s.%s" % (spec["m"], spec["f"]))
            # the same call again (now answered from warm memo tables): poison that result as well
            try:
                r2, args2 = evaluate(spec, mods)
                n2 = poison(r2, ids_of(args2, set()))
                got = ask(Q, mods)
                bad2, ex2 = diff_answers(ref, got, Q)
                sub.check("poison: modifying a returned list never changes what any later call returns", not bad2 or bool(bad),
                          {"poisoned_second_result_of": label(spec), "containers_mutated": n2, "answers_changed": len(bad2)},
                          None, ex2, mechanism="poisoned-warm:%s.%s" % (spec["m"], spec["f"]))
            except Exception:
                pass
            sub.case(("poison", label(spec)))
            if i == mine[0]:
                sub.sample({"poisoned_result_of": label(spec), "result_was": snap, "containers_mutated": n, "answers_changed": len(bad)})
        for i in mine:
            forked(ctx, trial, i)
        ctx.note_exhaustive("poison trials in part %d/%d of the battery entries returning containers" % (shard["part"], shard["parts"]), len(mine))
    elif kind == "siblings":
        run_siblings(ctx)
    elif kind == "copies":
        run_copies(ctx)
    else:
        run_lookups(ctx, shard)


# ------------------------------------------------------------------------------- siblings
def deep_state(obj, depth=0, seen=None):
    """Structural snapshot of an object's attributes (values, not identities)."""
    seen = seen if seen is not None else set()
    if isinstance(obj, (int, float, str, bytes, bool)) or obj is None:
        return obj if not isinstance(obj, float) else repr(obj)
    if id(obj) in seen or depth > 8:
        return "<cycle>"
    seen = seen | {id(obj)}
    if isinstance(obj, (list, tuple)):
        return [deep_state(x, depth + 1, seen) for x in obj]
    if isinstance(obj, dict):
        return dict((str(k), deep_state(v, depth + 1, seen)) for k, v in obj.items())
    if hasattr(obj, "__dict__"):
        return {"<%s>" % type(obj).__name__: dict((k, deep_state(v, depth + 1, seen)) for k, v in sorted(vars(obj).items()))}
    return repr(obj)


def class_mutables(cls):
    out = {}
    for c in cls.__mro__:
        if c is object:
            continue
        for k, v in vars(c).items():
            if isinstance(v, (list, dict, set)) and not k.startswith("__"):
                out["%s.%s" % (c.__name__, k)] = deep_state(v)
    return out


def run_siblings(ctx):
    from mingus.containers import Note, NoteContainer, Bar, Track, Composition, Suite
    from mingus.containers.instrument import Instrument, Piano, Guitar, MidiInstrument
    from mingus.core import keys, scales
    from mingus.midi import midi_file_out, midi_file_in
    from mingus.midi.midi_track import MidiTrack
    from mingus.midi.sequencer import Sequencer
    from mingus.midi.sequencer_observer import SequencerObserver
    from mingus.extra import tunings

    def bar_with(*vals):
        b = Bar("G", (4, 4))
        for v in vals:
            b.place_notes("C", v)
        return b

    def track_with():
        t = Track()
        t.add_bar(bar_with(4, 4, 2))
        return t

    def comp_with():
        c = Composition()
        c.add_track(track_with())
        return c

    scripts = [
        ("Note", lambda: Note("C", 4), lambda a: (a.set_note("F#", 2), a.transpose("b3"), a.set_velocity(3), a.set_channel(9), a.augment(),
                                                  a.change_octave(2), a.from_int(77), a.from_hertz(300), a.from_shorthand("d''"))),
        ("NoteContainer", lambda: NoteContainer(), lambda a: (a.add_notes(["C", "E", "G"]), a + "B", a.remove_note("E"), a.add_note(Note("D", 6)),
                                                            a.from_chord_shorthand("Am7"), a.transpose("3"), a.augment(), a.sort())),
        ("Bar", lambda: Bar("C", (4, 4)), lambda a: (a.place_notes("C", 4), a.place_rest(8), a + "E", a.set_meter((3, 4)), a.remove_last_entry(),
                                                     a.transpose("2"), a.__setitem__(0, "G"))),
        ("Track", lambda: Track(), lambda a: (a.add_notes("C", 4), a.add_bar(bar_with(2, 2)), a + "E", a.from_chords(["C", ["Am", "G7"]], 1),
                                              a.transpose("5"), a.set_tuning(tunings.get_tuning("Guitar", "Standard")))),
        ("Composition", lambda: Composition(), lambda a: (a.add_track(track_with()), a.add_note("C"), a + track_with(), a.set_title("T", "S"),
                                                          a.set_author("A", "e"))),
        ("Suite", lambda: Suite(), lambda a: (a.add_composition(comp_with()), a + comp_with(), a.set_title("x", "y"), a.set_author("a"))),
        ("Instrument", lambda: Instrument(), lambda a: (a.set_range([Note("C", 2), Note("C", 5)]), setattr(a, "name", "x"), setattr(a, "tuning", 1))),
        ("Piano", lambda: Piano(), lambda a: (a.set_range([Note("C", 2), Note("C", 5)]),)),
        ("Guitar", lambda: Guitar(), lambda a: (a.set_range([Note("C", 2), Note("C", 5)]),)),
        ("MidiInstrument", lambda: MidiInstrument(), lambda a: (a.set_range([Note("C", 2), Note("C", 5)]), setattr(a, "instrument_nr", 40),
                                                                setattr(a, "name", "Violin"))),
        ("midi_file_out.MidiFile", lambda: midi_file_out.MidiFile(), lambda a: (a.tracks.append(_mtrack(MidiTrack)), a.get_midi_data(), a.reset())),
        ("MidiTrack", lambda: MidiTrack(120), lambda a: (a.play_Note(Note("C", 4)), a.set_deltatime(5), a.stop_Note(Note("C", 4)), a.play_Bar(bar_with(4, 4)),
                                                        a.play_Track(track_with()), a.set_tempo(90), a.get_midi_data())),
        ("midi_file_in.MidiFile", lambda: midi_file_in.MidiFile(), lambda a: _read_some_midi(a, midi_file_out, comp_with())),
        ("Sequencer", lambda: Sequencer(), lambda a: (a.attach(SequencerObserver()), a.play_Note(Note("C", 4)), a.play_Bar(bar_with(4, 8)),
                                                     a.stop_Note(Note("C", 4)), a.control_change(1, 7, 100), a.set_instrument(1, 5))),
        ("SequencerObserver", lambda: SequencerObserver(), lambda a: (a.notify(Sequencer.MSG_PLAY_INT, {"note": 60, "channel": 1, "velocity": 9}),
                                                                     a.notify(Sequencer.MSG_SLEEP, {"s": 1.0}))),
        ("StringTuning", lambda: tunings.StringTuning("Guitar", "mine", ["E-3", "A-3", "D-4", "G-4", "B-4", "E-5"]),
         lambda a: (a.find_frets(Note("C", 4)), a.find_fingering(["E-4", "B-4"]), a.get_Note(0, 3), a.frets_to_NoteContainer([0, 2, 2, 1, 0, 0]),
                    a.tuning.append(Note("E", 6)), setattr(a, "description", "changed"))),
        ("Key", lambda: keys.Key("Eb"), lambda a: (setattr(a, "key", "C"), setattr(a, "signature", 0))),
        ("scales.Major", lambda: scales.Major("C", 1), lambda a: (a.ascending().append("X"), a.descending().reverse(), setattr(a, "tonic", "D"),
                                                                setattr(a, "octaves", 3))),
        ("scales.Chromatic", lambda: scales.Chromatic("C"), lambda a: (a.ascending().append("X"), setattr(a, "key", "F"), a.descending())),
    ]
    for (name, factory, script) in scripts:
        w = {"class": name}
        try:
            A, B = factory(), factory()
        except Exception as e:
            ctx.unsure("cannot build %s: %r" % (name, e))
            continue
        before_B, before_cls = deep_state(B), class_mutables(type(B))
        st, r = ctx.call(script, A)
        if st != "ok":
            ctx.unsure("operation script on %s failed: %r" % (name, r))
            continue
        ctx.check("siblings: operating on one object leaves a separately created object unchanged", deep_state(B) == before_B, w,
                  before_B, deep_state(B), mechanism="sibling:" + name)
        ctx.check("siblings: operating on one object leaves the class defaults unchanged", class_mutables(type(B)) == before_cls, w,
                  before_cls, class_mutables(type(B)), mechanism="class-default:" + name)
        C = factory()
        ctx.check("siblings: an object created afterwards starts from the same state", deep_state(C) == before_B, w, before_B,
                  deep_state(C), mechanism="fresh:" + name)
        ctx.case(("sibling", name))
    ctx.sample({"classes": [s[0] for s in scripts]})

    # writer objects driven through different scripts one after the other: what each produces equals what a cold interpreter
    # produces for the same script (nothing a MidiTrack / MidiFile wrote before shows in what another one writes)
    def w1():
        t = MidiTrack(120)
        t.set_deltatime(72), t.set_key("G"), t.set_deltatime(33), t.set_meter((3, 4)), t.set_deltatime(5), t.set_tempo(90)
        t.set_deltatime(9), t.set_track_name("late"), t.set_deltatime(0), t.play_Note(Note("C", 4)), t.set_deltatime(72), t.stop_Note(Note("C", 4))
        return bytes(t.get_midi_data())

    def w2():
        t = MidiTrack(120)
        t.set_key("G"), t.set_meter((3, 4)), t.set_tempo(90), t.set_track_name("late"), t.play_Bar(bar_with(4, 4, 2)), t.play_Bar(bar_with(2, 2))
        return bytes(t.get_midi_data())

    def w3():
        t = MidiTrack(60)
        t.set_deltatime(7), t.set_instrument(3, 40, 2), t.set_deltatime(200), t.set_key("eb"), t.set_meter((6, 8)), t.play_Track(track_with())
        m = midi_file_out.MidiFile([t])
        return bytes(m.get_midi_data())

    def w4():
        t1, t2 = MidiTrack(100), MidiTrack(100)
        t1.play_Track(track_with()), t2.set_key("eb"), t2.set_meter((6, 8)), t2.play_Bar(bar_with(8, 8, 4))
        m = midi_file_out.MidiFile()
        m.tracks = [t1, t2]
        return bytes(m.get_midi_data())
    scripts_w = [("low-level events after non-zero delta times", w1), ("the same events at delta zero, then bars", w2),
                 ("instrument, key and meter after delta times; MidiFile([track])", w3), ("two tracks in one MidiFile", w4)]
    cold = [forked(ctx, lambda sub, f=f: f()) for (_n, f) in scripts_w]
    order = [1, 0, 2, 3, 0, 1, 3, 2]
    for k in order:
        name, f = scripts_w[k]
        st, r = ctx.call(f)
        ctx.check("siblings: what a writer object produces does not depend on what other writer objects did before", st == "ok" and
                  cold[k] is not None and r == cold[k], {"script": name, "ran_before": [scripts_w[j][0] for j in order[:order.index(k)]]},
                  None if cold[k] is None else cold[k].hex()[:160], r.hex()[:160] if st == "ok" else repr(r), mechanism="writer-script:%d" % k)
        ctx.case(("writer-script", k))

    # the same for objects that come out of a constructor path *with content*: two results of the same call with equal
    # arguments, one of them then changed in place as deeply as its public attributes reach
    def churn(obj):
        for b in getattr(obj, "bars", [obj] if hasattr(obj, "bar") else []):
            for e in b.bar:
                if e[2] is not None:
                    churn(e[2])
            b.transpose("2")
        if hasattr(obj, "notes") and not hasattr(obj, "bars"):
            obj.transpose("3"), obj.augment(), obj.add_note("B", 7), obj.remove_note(obj.notes[0])
            for n in obj.notes:
                n.set_velocity(1), n.set_channel(2)
                n.name, n.octave = "F#", 1
        for t in getattr(obj, "tracks", []):
            churn(t)

    def twice(name, factory):
        w = {"built_by": name}
        try:
            A, B = factory(), factory()
            before = deep_state(B)
            churn(A)
        except Exception as e:
            ctx.unsure("cannot build / change %s: %r" % (name, e))
            return
        ctx.check("siblings: operating on one object leaves a separately created object unchanged", deep_state(B) == before, w,
                  before, deep_state(B), mechanism="built-sibling:" + name)
        C = factory()
        ctx.check("siblings: an object created afterwards starts from the same state", deep_state(C) == before, w, before,
                  deep_state(C), mechanism="built-fresh:" + name)
        ctx.case(("built-sibling", name))

    # a chord that from_chords has to split across a bar line: the two pieces live in two bars and are two objects
    for (meter, pre, chords_, d) in (((3, 4), [], ["C"], 1), ((4, 4), [2], ["Am"], 1), ((4, 4), [4, 4, 4], [["F", "G7"]], 1), ((6, 8), [8], ["Dm7", "G"], 2)):
        t = Track()
        t.add_bar(Bar("C", meter))
        for v in pre:
            t.add_notes("E", v)
        st, r = ctx.call(t.from_chords, chords_, d)
        w = {"meter": meter, "track_already_holds": pre, "chords": chords_, "duration": d}
        if st != "ok":
            ctx.unsure("from_chords failed: %r" % (r,))
            continue
        conts = [e[2] for b in t.bars for e in b.bar if e[2] is not None]
        ctx.check("siblings: operating on one object leaves a separately created object unchanged", len(set(id(x) for x in conts)) == len(conts), w,
                  "one container object per entry", "%d entries, %d objects" % (len(conts), len(set(id(x) for x in conts))),
                  mechanism="from_chords:split-shares-container")
        if len(t.bars) >= 2:
            before = deep_state(t.bars[1])
            t.bars[0].transpose("3"), t.bars[0].augment()
            for e in t.bars[0].bar:
                if e[2] is not None:
                    e[2].add_note("B", 7)
            ctx.check("siblings: operating on one object leaves a separately created object unchanged", deep_state(t.bars[1]) == before, w,
                      before, deep_state(t.bars[1]), mechanism="from_chords:bar-follows-its-neighbour")
        ctx.case(("from-chords-split", meter, repr(chords_)))

    def comp_from_chords():
        c = Composition()
        c.add_track(Track().from_chords(["F", "Dm7"], 1))
        c.add_track(Track().from_chords(["F", "Dm7"], 1))
        return c
    twice("Track.from_chords", lambda: Track().from_chords(["C", "Am", ["G7", "C"], "Am"], 1))
    twice("Track.from_chords(twice the same shorthand)", lambda: Track().from_chords(["E7", "E7", "E7", "E7"], 2))
    twice("Composition of from_chords tracks", comp_from_chords)
    twice("NoteContainer.from_chord_shorthand", lambda: NoteContainer().from_chord_shorthand("Am7"))
    twice("NoteContainer.from_chord", lambda: NoteContainer().from_chord("Gsus4"))
    twice("NoteContainer.from_progression_shorthand", lambda: NoteContainer().from_progression_shorthand("VI7", "C"))
    twice("NoteContainer.from_interval_shorthand", lambda: NoteContainer().from_interval_shorthand("C", "b7"))
    twice("NoteContainer(list of names)", lambda: NoteContainer(["C", "E", "G"]))
    twice("NoteContainer(name)", lambda: NoteContainer("A"))
    twice("Bar.place_notes(list)", lambda: bar_with(4, 4))
    twice("Track.add_notes(names)", lambda: _track_names(Track))


def _track_names(Track):
    t = Track()
    t.add_notes(["C", "E"], 4)
    t.add_notes("G", 2)
    return t


def _mtrack(MidiTrack):
    from mingus.containers import Note
    t = MidiTrack(100)
    t.play_Note(Note("C", 4))
    t.set_deltatime(72)
    t.stop_Note(Note("C", 4))
    return t


def _read_some_midi(reader, midi_file_out, comp):
    import tempfile
    d = tempfile.mkdtemp(prefix="rv-c15-")
    try:
        p = os.path.join(d, "x.mid")
        midi_file_out.write_Composition(p, comp, 120)
        reader.MIDI_to_Composition(p)
    finally:
        import shutil
        shutil.rmtree(d, ignore_errors=True)


def run_copies(ctx):
    from mingus.containers import Note, NoteContainer, Bar
    from mingus.extra import tunings
    # container copies
    for names in (["C", "E", "G"], ["A-3", "C#-4"], ["Bb-2"]):
        src = NoteContainer([Note(n) for n in names])
        before = [(n.name, n.octave, n.velocity, n.channel) for n in src.notes]
        st, cp = ctx.call(NoteContainer, src)
        ok = st == "ok" and cp is not src and cp.notes is not src.notes
        ctx.check("copies: a container built from another is a distinct object", ok, {"source": names}, None, repr(cp), mechanism="copy:nc-object")
        if st != "ok":
            continue
        cp.transpose("3"), cp.augment()
        for n in cp.notes:
            n.set_velocity(1)
        cp.add_note("D", 7), cp.remove_note(cp.notes[0])
        now = [(n.name, n.octave, n.velocity, n.channel) for n in src.notes]
        ctx.check("copies: changing a container built from another leaves the original's notes unchanged", now == before,
                  {"source": names, "operations": "transpose, augment, set_velocity, add, remove on the copy"}, before, now,
                  mechanism="copy:nc-shares-notes")
        # and the other direction
        cp2 = NoteContainer(src)
        b2 = [(n.name, n.octave, n.velocity) for n in cp2.notes]
        src.transpose("2"), src.diminish()
        ctx.check("copies: changing the original leaves the copy unchanged", [(n.name, n.octave, n.velocity) for n in cp2.notes] == b2,
                  {"source": names}, b2, [(n.name, n.octave, n.velocity) for n in cp2.notes], mechanism="copy:nc-follows-original")
        # via add_notes / +
        dst = NoteContainer()
        dst.add_notes(NoteContainer([Note(n) for n in names]))
        ctx.case(("copy-nc", tuple(names)))
    # note copies (also decided by C10)
    a = Note("F#", 3)
    a.set_velocity(33)
    b = Note(a)
    b.transpose("5"), b.set_velocity(2)
    ctx.check("copies: changing a note built from another leaves the original unchanged", (a.name, a.octave, a.velocity) == ("F#", 3, 33), {},
              ("F#", 3, 33), (a.name, a.octave, a.velocity), mechanism="copy:note")
    ctx.case(("copy-note",))
    # constructor / method arguments
    for (d, kw) in (({"velocity": 10}, {"velocity": 99}), ({"channel": 3}, {"channel": 5}), ({}, {"velocity": 1, "channel": 2}),
                    ({"velocity": 5, "channel": 6}, {})):
        arg = dict(d)
        st, n = ctx.call(Note, "C", 4, arg, kw.get("velocity"), kw.get("channel"))
        ctx.check("copies: a dictionary passed to a constructor is not modified", st == "ok" and arg == d, {"dynamics": d, "keywords": kw}, d, arg,
                  mechanism="arg:Note-dynamics")
        arg = dict(d)
        st, n = ctx.call(Note().set_note, "D", 3, arg, kw.get("velocity"), kw.get("channel"))
        ctx.check("copies: a dictionary passed to set_note is not modified", st == "ok" and arg == d, {"dynamics": d, "keywords": kw}, d, arg,
                  mechanism="arg:set_note-dynamics")
        ctx.case(("arg-note", repr(d), repr(kw)))
    lst = [["C", 5, {"velocity": 20}], ["E", 6]]
    arg = copy.deepcopy(lst)
    NoteContainer(arg)
    ctx.check("copies: a list passed to NoteContainer is not modified", arg == lst, {"list": lst}, lst, arg, mechanism="arg:NoteContainer")
    arg = copy.deepcopy(lst)
    nc = NoteContainer()
    nc.add_notes(arg), nc.remove_notes(["C"])
    ctx.check("copies: a list passed to add_notes is not modified", arg == lst, {"list": lst}, lst, arg, mechanism="arg:add_notes")
    tun = ["E-3", "A-3", ["D-4", "D-5"], "G-4"]
    arg = copy.deepcopy(tun)
    s = tunings.StringTuning("X", "y", arg)
    s.find_frets(Note("E", 4))
    s.tuning.append(Note("C", 1))
    ctx.check("copies: the tuning list passed to StringTuning is not modified", arg == tun, {"tuning": tun}, tun, arg, mechanism="arg:StringTuning")
    ml = [3, 4]
    b1, b2 = Bar("C", ml), Bar("G", ml)
    ml[0] = 6
    ml.append(9)
    ctx.check("copies: a list passed as a meter is neither kept nor modified", tuple(b1.meter) == (3, 4) and tuple(b2.meter) == (3, 4) and b1.length == 0.75,
              {"meter_list": [3, 4]}, [(3, 4), 0.75], [b1.meter, b2.meter, b1.length], mechanism="arg:Bar-meter")
    b3 = Bar("C", (4, 4))
    ml2 = [2, 4]
    b3.set_meter(ml2)
    ml2[0] = 5
    ctx.check("copies: a list passed to set_meter is neither kept nor modified", tuple(b3.meter) == (2, 4) and ml2 == [5, 4], {"meter_list": [2, 4]},
              (2, 4), b3.meter, mechanism="arg:set_meter")
    names = ["C", "E", "G"]
    arg = list(names)
    b = Bar()
    b.place_notes(arg, 4)
    b[0] = arg
    ctx.check("copies: a list passed to Bar.place_notes / bar[i] = is not modified", arg == names, {"list": names}, names, arg, mechanism="arg:Bar")
    from mingus.containers.instrument import Instrument, Piano, MidiInstrument
    for cls in (Instrument, Piano, MidiInstrument):
        for given in (["C-3", "C-5"], ["E-2", "G-6"]):
            arg = list(given)
            st, r = ctx.call(cls().set_range, arg)
            ctx.check("copies: a list passed to Instrument.set_range is not modified", st == "ok" and len(arg) == 2 and all(type(x) is str for x in arg) and list(map(str, arg)) == given,
                      {"class": cls.__name__, "list": given}, given, [type(x).__name__ for x in arg] if st == "ok" else repr(r), mechanism="arg:set_range")
            ins = cls()
            ins.set_range(list(given))
            ctx.check("copies: a list passed to Instrument.set_range is not modified", ins.note_in_range(given[0]) and ins.note_in_range(given[1])
                      and not ins.note_in_range("C-9"), {"class": cls.__name__, "list": given, "what": "the range is in force"}, None, None,
                      mechanism="arg:set_range-works")
    ctx.case(("arg-containers",))
    ctx.sample({"copy script": "NoteContainer(src); transpose/augment/set_velocity/add/remove on the copy; compare src"})
    _random_copies(ctx)


def _random_copies(ctx):
    """The same questions on drawn objects: a copy and its source are changed by drawn operations in a drawn order, and
    the arguments of constructors are drawn lists, nested lists and dictionaries."""
    from mingus.containers import Note, NoteContainer, Bar, Track
    rng = ctx.rng("copies")
    names = list(T.pure_names(2))

    def state(nc):
        return [(n.name, n.octave, n.velocity, n.channel) for n in nc.notes]

    def note_state(n):
        return (n.name, n.octave, n.velocity, n.channel)

    nc_ops = [("transpose 3", lambda c: c.transpose("3")), ("transpose b7 down", lambda c: c.transpose("b7", False)),
              ("augment", lambda c: c.augment()), ("diminish", lambda c: c.diminish()),
              ("velocities", lambda c: [n.set_velocity(1) for n in c.notes]), ("channels", lambda c: [n.set_channel(9) for n in c.notes]),
              ("add", lambda c: c.add_note("D", 7)), ("remove first", lambda c: c.notes and c.remove_note(c.notes[0])),
              ("empty", lambda c: c.empty()), ("octave_up", lambda c: [n.octave_up() for n in c.notes]),
              ("rename", lambda c: [n.set_note("A", 1) for n in c.notes[:1]]), ("+", lambda c: c + "F#-2"), ("- first", lambda c: c.notes and c - c.notes[0]),
              ("sort", lambda c: c.sort()), ("remove duplicates", lambda c: c.remove_duplicate_notes())]
    for i in range(60):
        src = NoteContainer()
        for _ in range(rng.randint(1, 5)):
            n = Note(rng.choice(names), rng.randint(1, 7))
            n.velocity, n.channel = rng.randint(1, 127), rng.randint(1, 15)
            src.add_note(n)
        before = state(src)
        route = rng.choice(["NoteContainer(src)", "NoteContainer(src.notes)", "add_notes(src)", "+ src", "add_notes(list)"])
        if route == "NoteContainer(src)":
            st, cp = ctx.call(NoteContainer, src)
        elif route == "NoteContainer(src.notes)":
            st, cp = ctx.call(NoteContainer, list(src.notes))
        elif route == "add_notes(src)":
            cp = NoteContainer()
            st, _ = ctx.call(cp.add_notes, src)
        elif route == "+ src":
            cp = NoteContainer()
            st, _ = ctx.call(cp.__add__, src)
        else:
            cp = NoteContainer()
            st, _ = ctx.call(cp.add_notes, list(src.notes))
        if st != "ok":
            ctx.check("copies: a container built from another is a distinct object", False, {"source": before, "route": route}, "a container", "refused",
                      mechanism="copy:route-refused")
            continue
        ctx.check("copies: a container built from another is a distinct object", cp is not src and cp.notes is not src.notes and state(cp) == before,
                  {"source": before, "route": route}, before, state(cp), mechanism="copy:nc-object")
        ops = [rng.choice(nc_ops) for _ in range(rng.randint(1, 4))]
        # note objects handed over as such are the caller's own (the statement speaks of a container built from another):
        # only the two routes that take a container are held to independence of the notes themselves
        deep = route in ("NoteContainer(src)", "add_notes(src)", "+ src")
        which = rng.choice(["copy", "source"])
        tgt, other = (cp, src) if which == "copy" else (src, cp)
        ob = state(other)
        structural = ("add", "remove first", "empty", "+", "- first", "sort", "remove duplicates")
        for (lab, op) in ops:
            if not deep and lab not in structural:
                continue
            try:
                op(tgt)
            except Exception as e:
                pass
        ctx.check("copies: changing a container built from another leaves the original's notes unchanged" if which == "copy"
                  else "copies: changing the original leaves the copy unchanged", state(other) == ob,
                  {"source": before, "route": route, "changed": which, "operations": [l for l, _ in ops]}, ob, state(other),
                  mechanism="copy:nc-%s-%s" % (which, "notes" if deep else "list"))
        ctx.case(("copy-random", route, which, tuple(l for l, _ in ops)))
    # notes from notes, every route
    for i in range(60):
        a = Note(rng.choice(names), rng.randint(0, 8))
        a.velocity, a.channel = rng.randint(1, 127), rng.randint(1, 15)
        before = note_state(a)
        route = rng.choice(["Note(a)", "set_note(a)", "Note(str(a))"])
        if route == "Note(a)":
            st, b = ctx.call(Note, a)
        elif route == "set_note(a)":
            b = Note("C", 4)
            st, _ = ctx.call(b.set_note, a)
        else:
            st, b = ctx.call(Note, "%s-%d" % (a.name, a.octave))
        if st != "ok":
            continue
        which = rng.choice(["copy", "source"])
        tgt, other = (b, a) if which == "copy" else (a, b)
        ob = note_state(other)
        for _ in range(rng.randint(1, 3)):
            k = rng.randrange(7)
            if k == 0:
                tgt.transpose(rng.choice(["2", "b3", "5", "#4", "7"]), rng.random() < 0.5)
            elif k == 1:
                tgt.augment() if rng.random() < 0.5 else tgt.diminish()
            elif k == 2:
                tgt.set_velocity(rng.randint(1, 127))
            elif k == 3:
                tgt.set_channel(rng.randint(1, 15))
            elif k == 4:
                tgt.octave_up() if rng.random() < 0.5 else tgt.octave_down()
            elif k == 5:
                tgt.from_int(rng.randint(0, 100))
            else:
                tgt.change_octave(rng.randint(-2, 2))
        ctx.check("copies: changing a note built from another leaves the original unchanged", note_state(other) == ob,
                  {"note": before, "route": route, "changed": which}, ob, note_state(other), mechanism="copy:note-%s" % which)
        ctx.case(("copy-note-random", route, which))
    # drawn arguments: flat and nested lists, with and without dynamics
    for i in range(40):
        lst = []
        for _ in range(rng.randint(1, 4)):
            k = rng.randrange(4)
            nm, o = rng.choice(names), rng.randint(1, 7)
            lst.append(nm if k == 0 else "%s-%d" % (nm, o) if k == 1 else [nm, o] if k == 2 else [nm, o, {"velocity": rng.randint(1, 127)}])
        for (lab, use) in (("NoteContainer", lambda x: NoteContainer(x)), ("add_notes", lambda x: NoteContainer().add_notes(x)),
                           ("remove_notes", lambda x: NoteContainer(["C", "E"]).remove_notes([y for y in x if isinstance(y, str)])),
                           ("Bar.place_notes", lambda x: Bar().place_notes([y for y in x if isinstance(y, str)], 4)),
                           ("Track.add_notes", lambda x: Track().add_notes([y for y in x if isinstance(y, str)], 4)),
                           ("Bar + list", lambda x: Bar() + [y for y in x if isinstance(y, str)])):
            arg = copy.deepcopy(lst)
            if lab in ("remove_notes", "Bar.place_notes", "Track.add_notes", "Bar + list"):
                arg = [y for y in arg if isinstance(y, str)]
                given = list(arg)
                holder = {"a": arg}
                try:
                    {"remove_notes": lambda: NoteContainer(["C", "E"]).remove_notes(holder["a"]),
                     "Bar.place_notes": lambda: Bar().place_notes(holder["a"], 4),
                     "Track.add_notes": lambda: Track().add_notes(holder["a"], 4),
                     "Bar + list": lambda: Bar() + holder["a"]}[lab]()
                except Exception:
                    pass
                ctx.check("copies: a list passed to a library call is not modified", arg == given, {"call": lab, "list": given}, given, arg,
                          mechanism="arg:" + lab)
            else:
                given = copy.deepcopy(arg)
                try:
                    use(arg)
                except Exception:
                    pass
                ctx.check("copies: a list passed to %s is not modified" % lab, arg == given, {"list": given}, given, arg, mechanism="arg:" + lab)
        ctx.case(("arg-random", len(lst)))
    # a list as the second argument of chords.from_shorthand, with every kind of first argument (plain, slash, polychord, list)
    from mingus.core import chords as _chords
    for i in range(60):
        root = rng.choice(names)
        sh = root + rng.choice(["", "m", "7", "m7", "dim7", "sus4", "6/9", "13"])
        k = rng.randrange(5)
        first = sh if k == 0 else sh + "/" + rng.choice(names) if k == 1 else sh + "|" + rng.choice(names) + "m" if k == 2 \
            else rng.choice(names) + "|" + sh + "/" + rng.choice(names) if k == 3 else [sh, rng.choice(names) + "m"]
        given = [rng.choice(names) for _ in range(rng.randint(1, 4))]
        arg = list(given)
        try:
            _chords.from_shorthand(first, arg)
        except Exception:
            pass
        ctx.check("copies: a list passed to a library call is not modified", arg == given, {"call": "chords.from_shorthand(%r, list)" % (first,), "list": given},
                  given, arg, mechanism="arg:from_shorthand-second")
        ctx.case(("from_shorthand-second", k))
    # one name (or list of names) added through a composition to several selected tracks: each track gets content of its own
    from mingus.containers import Composition
    for i in range(40):
        comp = Composition()
        trs = [Track() for _ in range(rng.randint(2, 4))]
        for t_ in trs:
            comp.add_track(t_)
        comp.selected_tracks = sorted(rng.sample(range(len(trs)), rng.randint(2, len(trs))))
        item = rng.choice(["C", "F#-3", "Bb", "A-2", "E-5"])     # (names: an object handed over as such is the caller's own)
        via = rng.choice(["add_note", "+"])
        try:
            comp.add_note(item) if via == "add_note" else comp + item
        except Exception as e:
            ctx.check("siblings: operating on one object leaves a separately created object unchanged", False,
                      {"composition": "%s(%r) with tracks %s selected" % (via, item, comp.selected_tracks)}, "accepted", repr(e), mechanism="composition-fan-out:raise")
            continue
        sel = [trs[k] for k in comp.selected_tracks]

        def tstate(t_):
            return [[(e[0], e[1], None if e[2] is None else [(n.name, n.octave, n.velocity) for n in e[2].notes]) for e in b] for b in t_]
        victim = rng.choice(sel)
        others = [t_ for t_ in sel if t_ is not victim]
        before = [tstate(t_) for t_ in others]
        op = rng.choice(["transpose", "augment", "add to the entry", "velocity", "empty the entry"])
        if op == "transpose":
            victim.transpose("3")
        elif op == "augment":
            victim.augment()
        elif op == "add to the entry":
            victim[0][0][2].add_note("D", 7)
        elif op == "velocity":
            [n.set_velocity(1) for n in victim[0][0][2].notes]
        else:
            victim[0][0][2].empty()
        after = [tstate(t_) for t_ in others]
        ctx.check("siblings: operating on one object leaves a separately created object unchanged", after == before,
                  {"composition": "%s(%r) with tracks %s selected" % (via, item, comp.selected_tracks), "then": op + " on one of the tracks"},
                  before[0], after[0], mechanism="composition-fan-out:" + op)
        ctx.case(("composition-fan-out", repr(item), via, op))
    # meters given as lists
    for i in range(30):
        m = [rng.randint(1, 12), rng.choice([1, 2, 4, 8, 16, 32])]
        ml = list(m)
        b1 = Bar("C", ml)
        b2 = Bar("F", (4, 4))
        b2.set_meter(ml)
        ml[0] += 1
        ml.append(3)
        ok = tuple(b1.meter) == tuple(m) and tuple(b2.meter) == tuple(m) and abs(b1.length - m[0] / m[1]) < 1e-12 and abs(b2.length - m[0] / m[1]) < 1e-12
        ctx.check("copies: a list passed as a meter is neither kept nor modified", ok, {"meter_list": m}, [tuple(m), m[0] / m[1]],
                  [b1.meter, b2.meter, b1.length, b2.length], mechanism="arg:meter-random")
        ctx.case(("meter-random", tuple(m)))


# ------------------------------------------------------------------------------- lookups
def run_lookups(ctx, shard):
    try:
        fft = importlib.import_module("mingus.extra.fft")
    except Exception as e:
        ctx.unsure("mingus.extra.fft cannot be imported: %r" % e)
        return
    if not hasattr(fft, "_find_log_index"):
        ctx.unsure("fft._find_log_index (the lookup with position memory) is missing")
        return
    from mingus.containers import Note
    # the table of the 129 note frequencies, and how to forget the position memory: by the names the module uses today,
    # or - when an implementation keeps its memory elsewhere or has none - from the public Note API and by re-executing
    # the module (which resets whatever module-level memory there is)
    has_names = hasattr(fft, "_last_asked") and hasattr(fft, "_log_cache")
    table = list(fft._log_cache) if has_names else [Note().from_int(x).to_hertz() for x in range(129)]
    rng = ctx.rng("lookup")
    ctx.extra["lookup_cold_state_by"] = "resetting fft._last_asked" if has_names else "re-executing mingus.extra.fft"

    class _Memory(object):
        """fft._last_asked, or a stand-in whose assignment re-executes the module"""
        def __setattr__(self, name, value):
            if has_names:
                setattr(sys.modules["mingus.extra.fft"], name, value)
            elif value is None:
                importlib.reload(sys.modules["mingus.extra.fft"])

        def __getattr__(self, name):
            if name == "_find_log_index":
                return sys.modules["mingus.extra.fft"]._find_log_index
            return getattr(sys.modules["mingus.extra.fft"], name) if has_names else None
    fft = _Memory()

    def model_index(f):
        # nearest-above index in the frequency table; 128 beyond the table or for non-positive input
        if f > table[127] or f <= 0:
            return 128
        for i, c in enumerate(table):
            if f <= c:
                return i
        return 128

    def cold(f):
        saved = fft._last_asked
        fft._last_asked = None
        try:
            try:
                return fft._find_log_index(f)
            except Exception as e:
                return "RAISE " + type(e).__name__
        finally:
            fft._last_asked = saved

    def pick():
        r = rng.random()
        c = rng.choice(table)
        if rng.random() < 0.3:      # the top of the table, where the search window and the range check meet
            return rng.choice([table[127], table[127] * 0.999, rng.uniform(table[127], table[128]), table[128],
                               table[128] * 1.001, rng.uniform(table[128], 40000), table[126], rng.uniform(table[125], table[127])])
        if r < 0.3:
            return rng.uniform(1, 30000)
        if r < 0.5:
            return c
        if r < 0.65:
            return c * 1.0000001
        if r < 0.8:
            return c * 0.9999999
        if r < 0.9:
            return rng.uniform(table[126] * 0.9, table[128] * 1.3)
        return rng.choice([0.0, -5.0, 1e-9, 8.0, 8.1757989156, 1e6])
    for h in range(shard["n"]):
        fft._last_asked = None
        hist = [pick() for _ in range(rng.randint(1, 7))]
        warm = []
        for f in hist:
            try:
                warm.append(fft._find_log_index(f))
            except Exception as e:
                warm.append("RAISE " + type(e).__name__)
        cd = [cold(f) for f in hist]
        ok = warm == cd
        shape = None
        if not ok:
            i = [k for k in range(len(hist)) if warm[k] != cd[k]][0]
            shape = {"kind": "lookup-history", "warm": warm[i], "cold": cd[i],
                     "previous_above_table_127": i > 0 and hist[i - 1] > table[126], "f_above_table_128": hist[i] > table[128]}
        ctx.check("lookup: the index for a frequency is the same whatever was looked up before", ok, {"lookups": hist}, cd, warm,
                  mechanism="lookup-history" + (":raise" if not ok and any(isinstance(x, str) for x in warm) else ""), shape=shape)
        okm = all(c == model_index(f) for f, c in zip(hist, cd))
        ctx.check("lookup: cold answers agree with a linear scan of the table", okm, {"lookups": hist}, [model_index(f) for f in hist], cd,
                  mechanism="lookup-model")
        ctx.case(("lookup", tuple(hist)))
        ctx.state(tuple(warm))
    # the notes handed out with a lookup result belong to the caller: changing them changes no later result
    realfft = sys.modules["mingus.extra.fft"]
    table_in = [(440.0, 1.0), (261.63, 0.5), (30000.0, 0.1), (table[60], 2.0), (55.0, 0.25)]
    for given in (list(table_in), sorted(table_in), sorted(table_in, reverse=True), [(880.0, 1.0), (110.0, 3.0)]):
        arg = list(given)
        st, _r = ctx.call(realfft.find_notes, arg)
        ctx.check("copies: a list passed to a library call is not modified", st == "ok" and arg == given, {"call": "fft.find_notes", "table": given}, given,
                  arg, mechanism="arg:find_notes")
        arg = list(given)
        st, _r = ctx.call(realfft.find_notes, arg, 60)
        ctx.check("copies: a list passed to a library call is not modified", st == "ok" and arg == given, {"call": "fft.find_notes(maxNote=60)",
                  "table": given}, given, arg, mechanism="arg:find_notes")
    st, first = ctx.call(realfft.find_notes, list(table_in))
    if st == "ok":
        snap = [(None if n is None else (n.name, n.octave), a) for (n, a) in first]
        for (n, _a) in first:
            if n is not None:
                n.transpose("3"), n.octave_up(), n.set_velocity(1)
        first.reverse()
        st, again = ctx.call(realfft.find_notes, list(table_in))
        got = [(None if n is None else (n.name, n.octave), a) for (n, a) in again] if st == "ok" else repr(again)
        ctx.check("lookup: the index for a frequency is the same whatever was looked up before", got == snap, {"call": "find_notes twice, the first "
                  "result's notes changed in between"}, snap[55:62], got[55:62] if isinstance(got, list) else got, mechanism="find_notes-aliases-cache")
        st, third = ctx.call(realfft.find_notes, list(table_in), 50)
        ctx.case(("find_notes-twice",))
    # cross-check the in-process notion of 'cold' against truly cold (forked) interpreters
    probes = [pick() for _ in range(40)]

    def coldchild(sub, f):
        try:
            return fft._find_log_index(f)
        except Exception as e:
            return "RAISE " + type(e).__name__
    fft._last_asked = None
    for f in probes[:12]:
        a = forked(ctx, coldchild, f)
        ctx.check("lookup: resetting the position memory reproduces a cold interpreter", a == cold(f), {"f": f}, a, cold(f),
                  mechanism="cold-definition")
    ctx.sample({"lookups": [table[127], 26000.0, 27000.0], "cold": [cold(table[127]), cold(26000.0), cold(27000.0)]})
