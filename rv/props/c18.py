"""C18 Sequencer playback emits a balanced, ordered, correctly timed event stream."""
from fractions import Fraction

from mingus.containers import Note, NoteContainer, Bar, Track, Composition
from mingus.containers.instrument import MidiInstrument, Instrument
from mingus.midi.sequencer import Sequencer
from mingus.midi.sequencer_observer import SequencerObserver

from rv.models import midimodel as MM
from rv.models import music as MU
from rv.models import theory as T

ID = "C18"
ANCHOR_FILES = ["mingus/midi/sequencer.py", "mingus/midi/sequencer_observer.py"]
REQUIRED_REACH = ["midi.sequencer.Sequencer.play_Note", "midi.sequencer.Sequencer.stop_Note", "midi.sequencer.Sequencer.play_NoteContainer",
                  "midi.sequencer.Sequencer.play_Bar", "midi.sequencer.Sequencer.play_Bars", "midi.sequencer.Sequencer.play_Track",
                  "midi.sequencer.Sequencer.play_Tracks", "midi.sequencer.Sequencer.play_Composition",
                  "midi.sequencer.Sequencer.control_change", "midi.sequencer.Sequencer.attach", "midi.sequencer.Sequencer.detach",
                  "midi.sequencer_observer.SequencerObserver.notify"]
REQUIRED_CLAUSES = ["events:", "time:", "observer:", "instrument:", "control:"]
RULE = ("playbacks of notes, containers, bars, tracks, parallel bars / tracks / compositions (1-4 tracks, equal and unequal "
        "rhythms, tuplets, rests, tempo-carrying containers, channels, velocities) through a recording Sequencer subclass and "
        "a recording observer; the recorded hook events are checked offline against a per-voice interval model in virtual "
        "time (running sum of sleep arguments); non-trivial = every playback; distinct by the music specification; distinct "
        "states = distinct recorded event streams")


class Rec(Sequencer):
    def init(self):
        self.log = []

    def play_event(self, note, channel, velocity):
        self.log.append(("play", note, channel, velocity))

    def stop_event(self, note, channel):
        self.log.append(("stop", note, channel))

    def sleep(self, seconds):
        self.log.append(("sleep", seconds))

    def instr_event(self, channel, instr, bank):
        self.log.append(("instr", channel, instr, bank))

    def cc_event(self, channel, control, value):
        self.log.append(("cc", channel, control, value))


class Obs(SequencerObserver):
    def __init__(self):
        self.log = []

    def play_int_note_event(self, int_note, channel, velocity):
        self.log.append(("play", int_note, channel, velocity))

    def stop_int_note_event(self, int_note, channel):
        self.log.append(("stop", int_note, channel))

    def sleep(self, seconds):
        self.log.append(("sleep", seconds))

    def instr_event(self, channel, instr, bank):
        self.log.append(("instr", channel, instr, bank))

    def cc_event(self, channel, control, value):
        self.log.append(("cc", channel, control, value))


def shards(tier, seed):
    out = []
    n = 6400 if tier == "quick" else 80000
    parts = 8 if tier == "quick" else 16
    for i in range(parts):
        out.append({"name": "playbacks-%d" % i, "kind": "play", "n": n // parts, "weight": 8})
    out.append({"name": "controls-and-observers", "kind": "control", "weight": 2})
    out.append({"name": "regression-inputs-of-fixed-findings", "kind": "witness", "weight": 1})
    out.append({"name": "bars-of-unequal-length", "kind": "unequal", "n": 150 if tier == "quick" else 3000, "weight": 1})
    return out


# ------------------------------------------------------------------------------------- specs
RHYTHM_VALUES = None


def rhythm_values():
    global RHYTHM_VALUES
    if RHYTHM_VALUES is None:
        RHYTHM_VALUES = MU.vocabulary(bases=(1, 2, 4, 8, 16), dots=(0, 1), tuplets=((3, 2), (5, 4)))
    return RHYTHM_VALUES


def random_rhythm(rng, L, values):
    """list of Val that exactly fills length L"""
    for _attempt in range(50):
        out, rem = [], L
        while rem > 0:
            fits = [v for v in values if v.length <= rem]
            if not fits:
                break
            v = rng.choice(fits)
            out.append(v)
            rem -= v.length
        if rem == 0:
            return out
    v = MU.Val(4)
    return [v] * int(L / v.length)


def make_entry(rng, v, channel, rest_p, bpm_p=0.0, lo=20, hi=90):
    if rng.random() < rest_p:
        e = {"v": [v.base, v.dots, v.r1, v.r2], "notes": None if rng.random() < 0.75 else []}
        if e["notes"] == [] and rng.random() < 2 * bpm_p:
            e["bpm"] = rng.choice([60, 90, 120, 133, 200, 47])      # a tempo change on a silent beat (an empty container carries it)
        return e
    notes = MM.random_notes(rng, size=rng.choice([1, 1, 2, 3]), lo=lo, hi=hi, channel=channel)
    e = {"v": [v.base, v.dots, v.r1, v.r2], "notes": notes}
    if rng.random() < bpm_p:
        e["bpm"] = rng.choice([60, 90, 120, 133, 200, 47])
    return e


def build_bar(bspec):
    b = Bar(bspec["key"], tuple(bspec["meter"]))
    for e in bspec["entries"]:
        v = MM.val_of(e["v"])
        nc = None
        if e["notes"] is not None:
            nc = MM.build_notes(e["notes"])
            if "bpm" in e:
                nc.bpm = e["bpm"]
        if not b.place_notes(nc, v.value):
            raise RuntimeError("bar refuses %r" % (e,))
    return b


def build_track(tspec):
    ins = None
    if tspec.get("instrument"):
        if tspec["instrument"]["kind"] == "midi":
            ins = MidiInstrument()
            if tspec["instrument"].get("name_index") is not None:
                ins.name = MidiInstrument.names[tspec["instrument"]["name_index"]]
            elif tspec["instrument"].get("name"):
                ins.name = tspec["instrument"]["name"]
        else:
            ins = Instrument()
    t = Track(ins)
    for b in tspec["bars"]:
        t.add_bar(build_bar(b))
    return t


# ------------------------------------------------------------------------------------- model
def drifts(entries, meter):
    """the float sum of the entry lengths falls short of the bar length although the exact sum equals it"""
    if not meter[1]:
        return False    # a bar without a meter has no length to fall short of
    L = Fraction(*meter)
    fsum = 0.0          # plain left-to-right float accumulation (builtin sum() compensates since 3.12)
    exact = Fraction(0)
    for e in entries:
        v = MM.val_of(e["v"])
        fsum += 1.0 / v.value
        exact += v.length
    return bool(entries) and exact == L and fsum < float(L)


def model_parallel(tracks, bpm, replay_last_in_drift_bars=False):
    """tracks: list of track specs whose bar k are played together. Returns (intervals, total_seconds,
    final_bpm) with intervals = sorted [(key, channel, velocity, start_s, end_s)].
    With replay_last_in_drift_bars the model describes the listed finding 'tick drift' instead: in a bar
    whose float sum falls short, the last entry of every track is played once more."""
    # positions in whole notes
    raw = []            # (start, end, note)
    changes = []        # (position, track index, bpm)
    pos0 = Fraction(0)
    nb = len(tracks[0]["bars"])
    for k in range(nb):
        m0 = tracks[0]["bars"][k]["meter"]
        L = Fraction(m0[0], m0[1]) if m0[1] else Fraction(0)       # (a bar without a meter lasts as long as what it holds)
        longest = L
        for ti, t in enumerate(tracks):
            p = pos0
            entries = list(t["bars"][k]["entries"])
            if replay_last_in_drift_bars and drifts(tracks[0]["bars"][k]["entries"], tracks[0]["bars"][k]["meter"]):
                entries = entries + entries[-1:]
            for e in entries:
                ln = MM.val_of(e["v"]).length
                if e["notes"]:
                    for n in e["notes"]:
                        raw.append((p, p + ln, n))
                if e["notes"] is not None and "bpm" in e:
                    changes.append((p, ti, e["bpm"]))       # (an empty container can carry a tempo change too)
                p += ln
            longest = max(longest, p - pos0)
        pos0 += longest
    changes.sort(key=lambda c: (c[0], c[1]))
    points = [(Fraction(0), bpm)]
    for (p, _ti, b) in changes:
        if points[-1][0] == p:
            points[-1] = (p, b)
        else:
            points.append((p, b))

    def seconds(x):
        s = 0.0
        for i, (p, b) in enumerate(points):
            nxt = points[i + 1][0] if i + 1 < len(points) else None
            if x <= p:
                break
            seg_end = x if nxt is None or x < nxt else nxt
            s += float(seg_end - p) * 240.0 / b
        return s
    iv = sorted((MM.pitch_of(n) + 12, n[2], n[3], round(seconds(a), 6), round(seconds(b), 6)) for (a, b, n) in raw)
    return iv, seconds(pos0), points[-1][1]


def decode(log):
    """hook log -> (intervals, total seconds, problems)"""
    T_ = 0.0
    on = {}
    iv = []
    problems = []
    for e in log:
        if e[0] == "sleep":
            T_ += e[1]
        elif e[0] == "play":
            k = (e[1], e[2])
            if k in on:
                problems.append(("re-triggered while sounding", k, round(T_, 6)))
            on[k] = (T_, e[3])
        elif e[0] == "stop":
            k = (e[1], e[2])
            if k not in on:
                problems.append(("stopped but not started", k, round(T_, 6)))
            else:
                t0, v = on.pop(k)
                iv.append((k[0], k[1], v, round(t0, 6), round(T_, 6)))
    for k in on:
        problems.append(("left sounding", k, None))
    return sorted(iv), T_, problems


def close_iv(a, b):
    if len(a) != len(b):
        return False
    for x, y in zip(a, b):
        if x[:3] != y[:3] or abs(x[3] - y[3]) > 2e-6 or abs(x[4] - y[4]) > 2e-6:
            return False
    return True


def shape_of(tracks, parallel):
    """input-shape features used to attribute a violation to a listed known finding"""
    differ = False
    short = False
    if parallel:
        nb = len(tracks[0]["bars"])
        for k in range(nb):
            sets = []
            for t in tracks:
                p, s = Fraction(0), set()
                for e in t["bars"][k]["entries"]:
                    s.add(p)
                    p += MM.val_of(e["v"]).length
                sets.append(s)
                if drifts(t["bars"][k]["entries"], t["bars"][k]["meter"]):
                    short = True
            if any(s != sets[0] for s in sets):
                differ = True
    return {"parallel": parallel, "boundaries_differ": differ, "float_sum_short": short}


def canonical_witnesses():
    """The inputs of the two repaired play_Bars findings (half notes against quarters; six quarter
    triplets in 4/4), replayed in every run so that the violation is reported again if it returns."""
    def bar(vals, ch, pitch0):
        return {"key": "C", "meter": [4, 4], "entries": [{"v": v, "notes": [[T.LETTERS[(pitch0 + i) % 7], 4, ch, 80]]} for i, v in enumerate(vals)]}
    halves, quarters = [[2, 0, 1, 1]] * 2, [[4, 0, 1, 1]] * 4
    triplets = [[4, 0, 3, 2]] * 6
    return [("tracks", 120, [{"name": "a", "instrument": None, "bars": [bar(halves, 1, 0)]},
                             {"name": "b", "instrument": None, "bars": [bar(quarters, 2, 2)]}]),
            ("bars", 120, [{"name": "a", "instrument": None, "bars": [bar(triplets, 1, 0)]},
                           {"name": "b", "instrument": None, "bars": [bar(triplets, 2, 3)]}])]


def run_unequal(ctx, shard):
    """Bars of different total length played together (2/4 against 4/4 ...). How long the longer ones sound is not something the
    statement settles; that every started note is stopped exactly once, and nothing else, is."""
    rng = ctx.rng("unequal")
    values = [v for v in rhythm_values() if v.r1 == 1]
    for i in range(shard["n"]):
        ntr = rng.randint(2, 4)
        meters = [rng.choice([(2, 4), (4, 4), (3, 4), (6, 8), (5, 4)]) for _ in range(ntr)]
        bars = []
        for ti, m in enumerate(meters):
            bars.append({"key": "C", "meter": list(m), "entries": [make_entry(rng, v, ti + 1, 0.15) for v in random_rhythm(rng, Fraction(*m), values)]})
        seq = Rec()
        w = {"meters": meters, "bars": bars}
        st, r = ctx.call(seq.play_Bars, [build_bar(b) for b in bars], list(range(1, ntr + 1)), 120)
        ctx.case(("unequal", repr(bars)))
        if st != "ok":
            ctx.check("events: playback returns normally", False, w, None, repr(r), mechanism="raise:unequal-bars")
            continue
        sounding = {}
        ok, why = True, None
        for e in seq.log:
            if e[0] == "play":
                k = (e[1], e[2])
                if sounding.get(k):
                    ok, why = False, {"started twice": k}
                    break
                sounding[k] = True
            elif e[0] == "stop":
                k = (e[1], e[2])
                if not sounding.get(k):
                    ok, why = False, {"stopped but not sounding": k}
                    break
                sounding[k] = False
        if ok and any(sounding.values()):
            ok, why = False, {"left sounding": sorted(k for k, v in sounding.items() if v)}
        ctx.check("events: every play has exactly one later stop on its channel; nothing left sounding, nothing stopped unstarted", ok, w,
                  None, why, mechanism="voices:unequal-bars")
    ctx.sample({"unequal": "2-4 bars in different meters through play_Bars; balance of play / stop events only"})


def run(shard, ctx):
    if shard["kind"] == "control":
        return run_control(ctx)
    if shard["kind"] == "unequal":
        return run_unequal(ctx, shard)
    rng = ctx.rng("play")
    values = rhythm_values()
    dyadic = [v for v in values if v.r1 == 1]
    fixed = canonical_witnesses() if shard["kind"] == "witness" else None
    for i in range(len(fixed) if fixed else shard["n"]):
        kind = rng.choice(["note", "container", "bar", "bar", "track", "track", "bars", "tracks", "tracks", "tracks", "composition"])
        bpm = rng.choice([120, 60, 90, 133, 200])
        if fixed:
            kind, bpm = fixed[i][0], fixed[i][1]
        if i and not fixed and rng.random() < 0.4:
            # the sequencer and its observer of the previous playback are used again (nothing is sounding any more)
            seq.log, obs.log = [], []
            reused = True
        else:
            seq, obs = Rec(), Obs()
            seq.attach(obs)
            reused = False
        w = {"kind": kind, "bpm": bpm, "sequencer_used_before": reused}
        if kind in ("note", "container"):
            notes = MM.random_notes(rng, size=1 if kind == "note" else None, lo=0, hi=110, same_channel=rng.random() < 0.5)
            nc = MM.build_notes(notes)
            w["notes"] = notes
            if kind == "note":
                st, r = ctx.call(lambda: (seq.play_Note(nc[0]), seq.stop_Note(nc[0])))
            else:
                st, r = ctx.call(lambda: (seq.play_NoteContainer(nc), seq.stop_NoteContainer(nc)))
            exp = [("play", MM.pitch_of(n) + 12, n[2], n[3]) for n in sorted(notes, key=MM.pitch_of)] + \
                  [("stop", MM.pitch_of(n) + 12, n[2]) for n in sorted(notes, key=MM.pitch_of)]
            k = len(notes)
            # plays come first, one per note in the container's order; then one stop per note (their order among
            # themselves is not stated by the property)
            okp = st == "ok" and r == (True, True) and len(seq.log) == 2 * k and seq.log[:k] == exp[:k] and \
                sorted(seq.log[k:]) == sorted(exp[k:])
            ctx.check("events: a note or container produces one play event per note (pitch + 12, own channel and velocity) and one stop",
                      okp, w, exp, seq.log if st == "ok" else repr(r), mechanism="primitive")
            ctx.check("observer: attached observers receive exactly the sequencer's own event sequence", obs.log == seq.log, w, seq.log[:6],
                      obs.log[:6], mechanism="observer")
            ctx.case(("prim", repr(notes)))
            continue
        ntr = 1 if kind in ("bar", "track") else rng.randint(1, 4)
        nb = 1 if kind in ("bar", "bars") else rng.randint(1, 3)
        equal = rng.random() < 0.6
        pool = values if rng.random() < 0.6 else dyadic
        rest_p = rng.choice([0.0, 0.25, 0.5])
        bpm_p = rng.choice([0.0, 0.0, 0.15])
        meter = rng.choice([(4, 4), (3, 4), (6, 8), (2, 4), (5, 4)])
        L = Fraction(*meter)
        if rng.random() < 0.12:
            # bars without a meter: (0, 0) holds whatever is put into it (every track's bar holds the same total here)
            meter, L = (0, 0), Fraction(rng.randint(1, 9), rng.choice([4, 8]))
        shared = [random_rhythm(rng, L, pool) for _ in range(nb)]
        tracks = []
        for ti in range(ntr):
            bars = []
            for k in range(nb):
                rh = shared[k] if (equal or ntr == 1) else random_rhythm(rng, L, pool)
                bars.append({"key": "C", "meter": list(meter), "entries": [make_entry(rng, v, ti + 1, rest_p, bpm_p) for v in rh]})
            r_ = rng.random()
            ins = None
            if kind in ("tracks", "composition"):
                if r_ < 0.4:
                    ins = {"kind": "midi", "name_index": rng.randrange(len(MidiInstrument.names))}
                elif r_ < 0.5:
                    ins = {"kind": "midi", "name": "no such instrument"}
                elif r_ < 0.6:
                    ins = {"kind": "plain"}
            tracks.append({"name": "t%d" % ti, "instrument": ins, "bars": bars})
        if ntr >= 2 and kind in ("bars", "tracks", "composition") and rng.random() < 0.2 and meter != (0, 0):
            # one track's bar is only partly filled (its last entry is left out); the others keep sounding to the bar line
            ti = rng.randrange(ntr)
            k = rng.randrange(nb)
            if len(tracks[ti]["bars"][k]["entries"]) >= 2:
                tracks[ti]["bars"][k]["entries"] = tracks[ti]["bars"][k]["entries"][:-1]
                w["partly_filled"] = [ti, k]
        if fixed:
            tracks = fixed[i][2]
            ntr, nb = len(tracks), 1
        w["tracks"] = tracks
        channels = [ti + 1 for ti in range(ntr)]
        try:
            objs = [build_track(t) for t in tracks]
        except RuntimeError as e:
            ctx.unsure("workload: %s" % e)
            continue
        if kind == "bar":
            st, r = ctx.call(seq.play_Bar, objs[0].bars[0], 1, bpm)
        elif kind == "track":
            st, r = ctx.call(seq.play_Track, objs[0], 1, bpm)
        elif kind == "bars":
            st, r = ctx.call(seq.play_Bars, [o.bars[0] for o in objs], channels, bpm)
        elif kind == "tracks":
            st, r = ctx.call(seq.play_Tracks, objs, channels, bpm)
        else:
            c = Composition()
            for o in objs:
                c.add_track(o)
            st, r = ctx.call(seq.play_Composition, c, None, bpm)
        parallel = kind in ("bars", "tracks", "composition")
        shape = shape_of(tracks, parallel)
        w["shape"] = shape
        ctx.case(("playback", kind, bpm, repr(tracks)))
        if st != "ok":
            ctx.check("events: playback returns normally", False, w, "{'bpm': ...}", repr(r), mechanism="raise:" + kind, shape=shape)
            continue
        log = list(seq.log)
        # instrument announcements come first
        n_instr = 0
        if kind in ("tracks", "composition"):
            exp_instr = []
            for ti, t in enumerate(tracks):
                prog = 1
                if t["instrument"] and t["instrument"]["kind"] == "midi" and t["instrument"].get("name_index") is not None:
                    prog = MidiInstrument.names.index(MidiInstrument.names[t["instrument"]["name_index"]])
                exp_instr.append(("instr", channels[ti], prog))
            got_instr = [e[:3] for e in log[:len(exp_instr)]]        # the bank is not part of the statement
            # (one announcement per track, before anything else; in which order the tracks are announced is not stated)
            ctx.check("instrument: playing tracks first announces one instrument change per track on its channel",
                      sorted(got_instr) == sorted(exp_instr), w, exp_instr, got_instr, mechanism="instr")
            n_instr = len(exp_instr)
        body = log[n_instr:]
        ctx.check("instrument: no instrument change after the announcements", not any(e[0] == "instr" for e in body), w, None,
                  [e for e in body if e[0] == "instr"][:3], mechanism="instr-late")
        iv, total, problems = decode(body)
        exp_iv, exp_total, final_bpm = model_parallel(tracks, bpm)
        ok_iv = close_iv(iv, exp_iv) and not problems
        ok_t = abs(total - exp_total) <= 1e-6 * max(1.0, exp_total)
        sh = dict(shape)
        if not (ok_iv and ok_t) and shape["float_sum_short"] and not shape["boundaries_differ"]:
            alt_iv, alt_total, alt_bpm = model_parallel(tracks, bpm, replay_last_in_drift_bars=True)
            sh["extra_is_last_entry_replay"] = bool(close_iv(iv, alt_iv) and not problems and
                                                    abs(total - alt_total) <= 1e-6 * max(1.0, alt_total))
        detail = None
        if not ok_iv:
            detail = {"problems": problems[:4], "model_intervals": len(exp_iv), "observed_intervals": len(iv),
                      "first_difference": next(((a, b) for a, b in zip(exp_iv, iv) if a != b), None)}
        ctx.check("events: every sounding note gets exactly one play and, after its duration, one stop; nothing hangs, nothing is "
                  "stopped unstarted", ok_iv, w, None, detail, mechanism="voices:" + ("parallel" if parallel else "sequential"), shape=sh)
        ctx.check("time: total time slept equals 240/bpm seconds per whole note, following tempo changes", ok_t, w, exp_total, total,
                  mechanism="total-time:" + ("parallel" if parallel else "sequential"), shape=sh)
        ctx.check("time: the return value reports the final tempo", isinstance(r, dict) and r.get("bpm") == final_bpm, w,
                  {"bpm": final_bpm}, repr(r), mechanism="return-bpm", shape=sh)
        ctx.check("observer: attached observers receive exactly the sequencer's own event sequence", obs.log == seq.log, w,
                  len(seq.log), len(obs.log), mechanism="observer")
        ctx.state(tuple(body[:200]))
        if i < 2:
            ctx.sample({"kind": kind, "bpm": bpm, "tracks": ntr, "bars": nb, "events": len(log), "first_events": log[:6], "shape": shape})


def run_control(ctx):
    for control in list(range(-3, 4)) + list(range(125, 132)) + [64, 255, -128]:
        for value in list(range(-2, 3)) + list(range(126, 131)) + [64, 1000]:
            seq, obs = Rec(), Obs()
            seq.attach(obs)
            st, r = ctx.call(seq.control_change, 3, control, value)
            legal = 0 <= control <= 128 and 0 <= value <= 128
            if legal:
                ok = st == "ok" and r is True and seq.log == [("cc", 3, control, value)] and obs.log == seq.log
            else:
                ok = st == "ok" and r is False and seq.log == [] and obs.log == []
            ctx.check("control: control changes with number or value below 0 or above 128 are refused and emit nothing; others are sent",
                      ok, {"control": control, "value": value}, "sent" if legal else "refused", [repr(r), seq.log, obs.log],
                      mechanism="control_change:" + ("legal" if legal else "illegal"))
            ctx.case(("cc", control, value))
    for (fn, num) in (("modulation", 1), ("main_volume", 7), ("pan", 10)):
        for value in (-1, 0, 64, 128, 129):
            seq = Rec()
            st, r = ctx.call(getattr(seq, fn), 2, value)
            legal = 0 <= value <= 128
            ok = st == "ok" and bool(r) == legal and seq.log == ([("cc", 2, num, value)] if legal else [])
            ctx.check("control: modulation / main volume / pan are control changes 1 / 7 / 10", ok, {"function": fn, "value": value},
                      None, [repr(r), seq.log], mechanism="control-wrapper")
            ctx.case(("ccw", fn, value))
    # attach twice, detach
    seq, obs = Rec(), Obs()
    seq.attach(obs), seq.attach(obs)
    n = Note("C", 4)
    seq.play_Note(n), seq.stop_Note(n)
    ctx.check("observer: attaching twice does not duplicate delivery", obs.log == seq.log and len(obs.log) == 2, {}, seq.log, obs.log,
              mechanism="attach-twice")
    seq.detach(obs)
    before = list(obs.log)
    seq.play_Note(n), seq.stop_Note(n), seq.control_change(1, 7, 9)
    ctx.check("observer: a detached observer receives nothing", obs.log == before, {}, before, obs.log, mechanism="detach")
    seq.detach(obs)
    o1, o2 = Obs(), Obs()
    seq2 = Rec()
    seq2.attach(o1), seq2.attach(o2)
    b = Bar()
    b + "C", b + "E"
    r = seq2.play_Bar(b, 1, 100)
    ctx.check("observer: every attached observer receives the full sequence", o1.log == seq2.log and o2.log == seq2.log, {}, len(seq2.log),
              [len(o1.log), len(o2.log)], mechanism="two-observers")
    ctx.check("time: the return value reports the final tempo", r == {"bpm": 100}, {}, {"bpm": 100}, repr(r))
    # the same instrument object renamed between two playbacks
    ins = MidiInstrument()
    ins.name = MidiInstrument.names[40]
    tr = Track(ins)
    bq = Bar()
    bq + "C", bq + "E", bq + "G", bq + "C"
    tr.add_bar(bq)
    for newname, prog in ((MidiInstrument.names[40], 40), (MidiInstrument.names[73], 73), ("not a GM name", 1), (MidiInstrument.names[0], 0)):
        ins.name = newname
        seqr = Rec()
        seqr.play_Tracks([tr], [5], 120)
        ctx.check("instrument: playing tracks first announces one instrument change per track on its channel",
                  bool(seqr.log) and seqr.log[0][:3] == ("instr", 5, MidiInstrument.names.index(newname) if newname in MidiInstrument.names else 1),
                  {"instrument_name": newname, "same_object_renamed": True}, ("instr", 5, prog), seqr.log[:1], mechanism="instr-renamed")
    # observers the caller keeps no reference to of its own (they write into a log they were given), on two sequencers at once
    import gc

    class Scribe(Obs):
        def __init__(self, log):
            self.log = log
    la, lb = [], []
    sa, sb = Rec(), Rec()
    sa.attach(Scribe(la)), sb.attach(Scribe(lb))
    gc.collect()
    bq2 = Bar()
    bq2 + "D", bq2 + "F"
    sa.play_Bar(bq, 1, 120), sb.play_Bar(bq2, 2, 90), sa.control_change(1, 7, 100), gc.collect(), sa.play_Note(Note("A", 3)), sa.stop_Note(Note("A", 3))
    ctx.check("observer: attached observers receive exactly the sequencer's own event sequence", la == sa.log and lb == sb.log and len(la) > 8, {"observers":
              "attached without another reference to them, one per sequencer, two sequencers alive"}, [len(sa.log), len(sb.log)], [len(la), len(lb)],
              mechanism="observer-kept-only-by-the-sequencer")
    seq3 = Rec()
    seq3.set_instrument(4, 17, 2)
    ctx.check("instrument: set_instrument emits the instrument event", seq3.log == [("instr", 4, 17, 2)], {}, [("instr", 4, 17, 2)], seq3.log)
    ctx.case(("observers",))
    ctx.sample({"control_change(3, 129, 0)": Rec().control_change(3, 129, 0)})
    # drawn histories of attaching, detaching and playing on two sequencers at once: every observer holds exactly the events
    # its sequencers emitted while it was attached to them, each once
    rng = ctx.rng("observer-walk")
    for w in range(40 if ctx.tier == "quick" else 400):
        seqs = [Rec(), Rec()]
        obs = [Obs() for _ in range(rng.randint(1, 4))]
        attached = [set(), set()]
        expect = [[] for _ in obs]
        trail = []
        for step in range(rng.randint(4, 16)):
            si = rng.randrange(2)
            s = seqs[si]
            k = rng.random()
            if k < 0.3:
                oi = rng.randrange(len(obs))
                s.attach(obs[oi])
                attached[si].add(oi)
                trail.append("attach %d to %d" % (oi, si))
                continue
            if k < 0.45:
                oi = rng.randrange(len(obs))
                s.detach(obs[oi])
                attached[si].discard(oi)
                trail.append("detach %d from %d" % (oi, si))
                continue
            mark = len(s.log)
            a = rng.randrange(6)
            if a == 0:
                n = Note(rng.choice(["C", "F#", "Bb"]), rng.randint(1, 6))
                n.channel = rng.randint(1, 15)
                s.play_Note(n), s.stop_Note(n)
                trail.append("note on %d" % si)
            elif a == 1:
                b = Bar()
                for nm in rng.sample(["C", "E", "G", "A"], rng.randint(1, 4)):
                    b.place_notes(nm, rng.choice([4, 8]))
                s.play_Bar(b, rng.randint(1, 15), rng.choice([60, 120, 200]))
                trail.append("bar on %d" % si)
            elif a == 2:
                s.control_change(rng.randint(0, 15), rng.randint(0, 128), rng.randint(0, 128))
                trail.append("cc on %d" % si)
            elif a == 3:
                s.set_instrument(rng.randint(0, 15), rng.randint(0, 127), rng.randint(0, 3))
                trail.append("instrument on %d" % si)
            elif a == 4:
                s.play_NoteContainer(NoteContainer(["C", "E"]), rng.randint(1, 15)), s.stop_NoteContainer(NoteContainer(["C", "E"]), 1)
                trail.append("container on %d" % si)
            else:
                s.stop_everything()
                trail.append("stop everything on %d" % si)
            for oi in attached[si]:
                expect[oi].extend(s.log[mark:])
        for oi, o in enumerate(obs):
            ctx.check("observer: attached observers receive exactly the sequencer's own event sequence", o.log == expect[oi],
                      {"history": trail, "observer": oi}, [len(expect[oi]), expect[oi][:4]], [len(o.log), o.log[:4]], mechanism="observer-walk")
        ctx.case(("observer-walk", tuple(trail)))
