"""C07 Chord recognition inverts construction in every inversion and output form."""
import itertools

from mingus.core import chords, intervals

from rv.models import theory as T
from rv.models import chordtab as CT

ID = "C07"
ANCHOR_FILES = ["mingus/core/chords.py", "mingus/core/intervals.py"]
REQUIRED_REACH = ["core.chords.determine", "core.chords.determine_triad", "core.chords.determine_seventh",
                  "core.chords.determine_extended_chord5", "core.chords.determine_extended_chord6",
                  "core.chords.determine_polychords", "core.chords.int_desc", "core.chords.from_shorthand"]
REQUIRED_CLAUSES = ["inverse:", "forms:", "names:", "triples:", "trivial:"]
RULE = ("(shorthand with >= 3 notes, root, rotation) in shorthand and long form; all 21^3 three-note inputs; "
        "0/1/2-note inputs; structured 4-7 note inputs (stacked thirds in every key, shorthand chord + extension, "
        "rotations) and 8-14 note polychord inputs for the no-raise / same-length / constructible-name clauses; "
        "non-trivial = rotation > 0 or root with accidental; distinct by the note list given")

ORDINAL = ["", ", first inversion", ", second inversion", ", third inversion", ", fourth inversion",
           ", fifth inversion", ", sixth inversion"]
N21 = [l + a for l in T.LETTERS for a in ("", "#", "b")]


def shards(tier, seed):
    out = []
    for L in T.LETTERS:
        out.append({"name": "inverse-" + L, "kind": "inverse", "letter": L, "weight": 8, "after_history": L in "C", "before_history": L in "D",
                    "acc": [0, 1, -1] if tier == "quick" else [0, 1, -1, 2, -2]})
    for L in T.LETTERS:
        out.append({"name": "triples-" + L, "kind": "triples", "letter": L, "weight": 5})
    out.append({"name": "trivial", "kind": "trivial", "weight": 1})
    n = 3000 if tier == "quick" else 60000
    parts = 8 if tier == "quick" else 16
    for i in range(parts):
        out.append({"name": "structured-%d" % i, "kind": "structured", "n": n // parts, "weight": 7,
                    "big": 0 if tier == "quick" else 5000 // parts})
    return out


def halves(name):
    return name.split("|")


def check_names_constructible(ctx, names, w):
    for nm in names:
        # the name as returned, and each half of a polychord name on its own
        parts = ([nm] if "|" in nm else []) + halves(nm) if isinstance(nm, str) else [nm]
        for h in parts:
            st, c = ctx.call(chords.from_shorthand, h)
            ctx.check("names: every returned shorthand (each half of a polychord) is accepted by construction",
                      st == "ok" and isinstance(c, list) and len(c) > 0, dict(w, returned=nm), "constructible", repr(c),
                      mechanism="unconstructible:" + _suffix(h))


def _suffix(name):
    i = 1
    while i < len(name) and name[i] in "#b":
        i += 1
    return name[i:]


def both_forms(ctx, notes, w, **flags):
    """Call both output forms; check no-raise and same length. Returns (short, long) or None."""
    a1, a2 = list(notes), list(notes)
    st1, short = ctx.call(chords.determine, a1, True, **flags)
    st2, long_ = ctx.call(chords.determine, a2, False, **flags)
    ok1 = st1 == "ok" and isinstance(short, list)
    ok2 = st2 == "ok" and isinstance(long_, list)
    ctx.check("forms: shorthand form does not raise", ok1, w, "list", repr(short), mechanism="raise-short:%d" % len(notes))
    ctx.check("forms: long form does not raise", ok2, w, "list", repr(long_),
              mechanism="raise-long:%s" % type(long_).__name__ if not ok2 else None)
    if not (ok1 and ok2):
        return None
    ctx.check("forms: long and shorthand answers have the same length", len(short) == len(long_), w, len(short), len(long_))
    ctx.check("forms: argument list unchanged", a1 == list(notes) and a2 == list(notes), w, list(notes), [a1, a2])
    return short, long_


def run(shard, ctx):
    kind = shard["kind"]
    if kind == "inverse":
        keys_ = sorted(k for k in chords.chord_shorthand if k in CT.FORMULA and len(CT.FORMULA[k]) >= 2)
        i = T.LETTERS.index(shard["letter"])
        roots = [T.spell(i, n) for n in shard["acc"]]
        cnt = 0
        for sh in keys_:
            for r in roots:
                st, chord = ctx.call(chords.from_shorthand, r + sh)
                if st != "ok" or not CT.matches(r, sh, chord):
                    ctx.check("inverse: chord can be built", False, {"shorthand": r + sh}, None, repr(chord))
                    continue
                for k in range(len(chord)):
                    rot = chord[k:] + chord[:k]
                    w = {"built_from": r + sh, "rotation": k, "notes": rot}
                    if (k + len(r) + len(sh)) % 2:
                        # sometimes the flagged calls come first (answers must not depend on which call came first)
                        both_forms(ctx, rot, dict(w, flags={"no_inversions": True}), no_inversions=True)
                    res = both_forms(ctx, rot, w)
                    ctx.case(("inv", tuple(rot)), nontrivial=(k > 0 or len(r) > 1))
                    cnt += 1
                    if res is None:
                        continue
                    short, long_ = res
                    found = [j for j, nm in enumerate(short) if isinstance(nm, str) and "|" not in nm
                             and ctx.call(chords.from_shorthand, nm) == ("ok", chord)]
                    ctx.check("inverse: shorthand answer contains a name that rebuilds the root-position chord",
                              bool(found), w, "a name rebuilding %s" % chord, short, mechanism="unrecognised:" + sh)
                    if found and len(short) == len(long_):
                        okl = False
                        for j in found:
                            nm = short[j]
                            rootname = nm[:len(nm) - len(_suffix(nm))]
                            meaning = chords.chord_shorthand_meaning.get(_suffix(nm))
                            if meaning is not None and long_[j] == rootname + meaning + ORDINAL[k]:
                                okl = True
                        ctx.check("inverse: long answer at the same position names the chord with the right inversion ordinal",
                                  okl, w, "%s<meaning>%s" % (r, ORDINAL[k]), [long_[j] for j in found],
                                  mechanism="ordinal:%d" % k)
                    check_names_constructible(ctx, short, w)
                    for flags in ({"no_inversions": True}, {"no_polychords": True},
                                  {"no_inversions": True, "no_polychords": True}):
                        rf = both_forms(ctx, rot, dict(w, flags=flags), **flags)
                        if rf is not None and flags == {"no_polychords": True}:
                            # leaving polychord names out does not stop the chord itself from being recognised
                            okf = any(isinstance(nm, str) and "|" not in nm and ctx.call(chords.from_shorthand, nm) == ("ok", chord) for nm in rf[0])
                            ctx.check("inverse: shorthand answer contains a name that rebuilds the root-position chord", okf,
                                      dict(w, flags=flags), "a name rebuilding %s" % chord, rf[0], mechanism="unrecognised-no_polychords:" + sh)
                            ctx.check("forms: without polychords no polychord name is returned", not any("|" in nm for nm in rf[0] if isinstance(nm, str)),
                                      dict(w, flags=flags), None, rf[0], mechanism="polychord-despite-flag")
        ctx.note_exhaustive("shorthands (>= 3 notes) x roots %s%s x every rotation x both forms" % (shard["letter"], shard["acc"]), cnt)
        ctx.sample({"notes": ["E", "G", "C"], "short": chords.determine(["E", "G", "C"], True),
                    "long": chords.determine(["E", "G", "C"])})
    elif kind == "triples":
        a = shard["letter"]
        cnt = 0
        for first in (a, a + "#", a + "b"):
            for b in N21:
                for c in N21:
                    t = [first, b, c]
                    w = {"notes": t}
                    res = both_forms(ctx, t, w)
                    ctx.case(("triple", first, b, c), nontrivial=len(set(t)) == 3)
                    cnt += 1
                    if res is None:
                        continue
                    short, _long = res
                    for nm in short:
                        st, ch = ctx.call(chords.from_shorthand, nm)
                        ok = st == "ok" and isinstance(ch, list) and set(t) <= set(ch)
                        ctx.check("triples: every returned name denotes a chord containing all given notes", ok,
                                  dict(w, returned=nm), "superset of %s" % t, repr(ch), mechanism="triple:" + _suffix(nm))
        ctx.note_exhaustive("three-note inputs starting on %s, %s#, %sb over 21 names" % (a, a, a), cnt)
        ctx.sample({"notes": [a, "C", "E"], "determine": chords.determine([a, "C", "E"], True)})
    elif kind == "trivial":
        st, v = ctx.call(chords.determine, [])
        ctx.check("trivial: no notes give the empty answer", st == "ok" and v == [], {"notes": []}, [], repr(v))
        st, v = ctx.call(chords.determine, [], True)
        ctx.check("trivial: no notes give the empty answer", st == "ok" and v == [], {"notes": []}, [], repr(v))
        ctx.case(("trivial", 0))
        names = list(T.pure_names(2))
        for n in names:
            for sh in (False, True):
                st, v = ctx.call(chords.determine, [n], sh)
                ctx.check("trivial: one note is returned as given", st == "ok" and v == [n], {"notes": [n]}, [n], repr(v))
            ctx.case(("trivial", n))
        for a in names:
            for b in names:
                d = T.letter_distance(a, b)
                if not 0 <= d <= 11:
                    continue
                long_name, _sh = T.interval_name(a, b)
                st, v = ctx.call(chords.determine, [a, b])
                ctx.check("trivial: two notes give the interval name", st == "ok" and v == [long_name], {"notes": [a, b]},
                          [long_name], repr(v))
                ctx.case(("trivial", a, b))
        ctx.sample({"determine(['C','G'])": chords.determine(["C", "G"])})
    else:
        rng = ctx.rng("structured")
        ks = sorted(k for k in chords.chord_shorthand if k in CT.FORMULA)
        roots = list(T.pure_names(1))
        lens = {}
        for i in range(shard["n"] + shard["big"]):
            r = rng.random()
            if i >= shard["n"]:
                # 8-14 notes: two or three chords glued together
                notes = []
                while len(notes) < 8:
                    notes += chords.from_shorthand(rng.choice(roots) + rng.choice(ks))
                notes = notes[:rng.randint(8, 14)]
            elif r < 0.35:
                kname = rng.choice(T.KEYS)[0]
                kn = T.notes_of_key(kname)
                deg = rng.randrange(7)
                n = rng.randint(4, 7)
                notes = [kn[(deg + 2 * j) % 7] for j in range(n)]
            elif r < 0.75:
                notes = list(chords.from_shorthand(rng.choice(roots) + rng.choice(ks)))
                ext = rng.choice(["2", "b2", "#2", "4", "#4", "6", "b6", "7", "b7", "b3", "3", "5", "b5", "#5"])
                notes.append(intervals.from_shorthand(notes[0], ext))
                if rng.random() < 0.3:
                    notes.append(intervals.from_shorthand(notes[0], rng.choice(["6", "4", "2"])))
                notes = notes[:7]
            else:
                notes = [rng.choice(N21) for _ in range(rng.randint(4, 7))]
            if len(notes) < 3:
                continue
            k = rng.randrange(len(notes))
            notes = notes[k:] + notes[:k]
            w = {"notes": notes}
            flags = rng.choice([{}, {}, {"no_inversions": True}, {"no_polychords": True},
                                {"no_inversions": True, "no_polychords": True}])
            res = both_forms(ctx, notes, dict(w, flags=flags) if flags else w, **flags)
            lens[len(notes)] = lens.get(len(notes), 0) + 1
            ctx.case(("structured", tuple(notes), tuple(sorted(flags))), nontrivial=True)
            if res is None:
                continue
            check_names_constructible(ctx, res[0], w)
            ctx.state(tuple(res[0]))
        # systematically: every shorthand chord on three roots plus every single added note (the kind of input for which a
        # recogniser may coin a name that no constructor knows), as built and in one rotation; spread over the shards
        try:
            part, parts = int(shard["name"].rsplit("-", 1)[1]), 8 if ctx.tier == "quick" else 16
        except ValueError:
            part, parts = 0, 1
        exts = ["2", "b2", "#2", "4", "#4", "6", "b6", "7", "b7", "b3", "3", "5", "b5", "#5"]
        combos = [(root, k, ext) for root in ("C", "F#", "Bb") for k in ks for ext in exts]
        for ci, (root, k, ext) in enumerate(combos):
            if ci % parts != part:
                continue
            base = list(chords.from_shorthand(root + k))
            extra_note = intervals.from_shorthand(base[0], ext)
            if extra_note in base or len(base) >= 7:
                continue
            for rot in (0, 1 + ci % len(base)):
                notes = base + [extra_note]
                notes = notes[rot:] + notes[:rot]
                w = {"notes": notes, "built_as": "%s%s + %s" % (root, k, ext)}
                res = both_forms(ctx, notes, w)
                lens[len(notes)] = lens.get(len(notes), 0) + 1
                ctx.case(("structured-systematic", tuple(notes)), nontrivial=True)
                if res is not None:
                    check_names_constructible(ctx, res[0], w)
        ctx.extra["structured_inputs_by_length"] = 0
        for k, v in lens.items():
            ctx.count("structured inputs with %2d notes" % k, v)
        ctx.sample({"notes": ["C", "E", "G", "B", "D", "F"], "determine": chords.determine(["C", "E", "G", "B", "D", "F"], True)})
