"""C01 Note names and pitch classes agree for every spelling."""
import itertools

from mingus.core import notes
from mingus.core.mt_exceptions import NoteFormatError, RangeError, FormatError

from rv.models import theory as T

ID = "C01"
ANCHOR_FILES = ["mingus/core/notes.py"]
REQUIRED_REACH = ["core.notes.note_to_int", "core.notes.int_to_note", "core.notes.is_valid_note",
                  "core.notes.is_enharmonic", "core.notes.augment", "core.notes.diminish",
                  "core.notes.reduce_accidentals", "core.notes.remove_redundant_accidentals"]
REQUIRED_CLAUSES = ["M-pc", "pc formula", "reject", "enharmonic", "int_to_note"]
RULE = ("names = 7 letters x every '#'/'b' string up to a length bound in every order (exhaustive), "
        "long accidental strings, hostile/malformed strings by class, integers and styles; a case is one "
        "(operation family, input); non-trivial = every case except the 7 bare letters; distinct by input")

HOSTILE = "ACGahH#bx- 4♯"    # symbols malformed strings are built from


def shards(tier, seed):
    out = []
    k = 10 if tier == "quick" else 15
    firsts = ["#", "b"]
    for L in T.LETTERS:
        for f in firsts:
            out.append({"name": "names-%s%s" % (L, f), "kind": "names", "letter": L, "first": f, "k": k,
                        "weight": 10})
    out.append({"name": "hostile", "kind": "hostile", "maxlen": 3 if tier == "quick" else 4,
                "random": 6000 if tier == "quick" else 40000, "weight": 5})
    out.append({"name": "integers", "kind": "ints", "weight": 1})
    out.append({"name": "enharmonic-pairs", "kind": "pairs", "k": 3 if tier == "quick" else 5, "weight": 6})
    out.append({"name": "long-accidentals", "kind": "long", "n": 200 if tier == "quick" else 1500, "weight": 3})
    if tier == "thorough":
        out.append({"name": "repo-tests-under-monitors", "kind": "repotests", "mode": "record",
                    "tests": ["tests/unit/core"], "weight": 4})
    return out


def check_name(ctx, n):
    """All per-name clauses for one valid name."""
    letter, acc = n[0], T.net(n)
    p = T.pc(n)
    w = {"name": n}
    st, v = ctx.call(notes.note_to_int, n)
    ctx.check("pc formula: note_to_int", st == "ok" and v == p, w, p, v)
    st, v = ctx.call(notes.is_valid_note, n)
    ctx.check("validity: true on the grammar", st == "ok" and v is True, w, True, v)
    st, v = ctx.call(notes.augment, n)
    ctx.check("augment: +1, same letter", st == "ok" and T.valid(v) and v[0] == letter and T.pc(v) == (p + 1) % 12,
              w, None, v)
    st, v2 = ctx.call(notes.diminish, n)
    ctx.check("diminish: -1, same letter", st == "ok" and T.valid(v2) and v2[0] == letter and T.pc(v2) == (p - 1) % 12,
              w, None, v2)
    st, v = ctx.call(notes.remove_redundant_accidentals, n)
    exp = T.spell(T.li(n), acc)
    ctx.check("redundancy removal: letter + net accidentals", st == "ok" and v == exp, w, exp, v)
    st, v = ctx.call(notes.reduce_accidentals, n)
    ok = (st == "ok" and T.valid(v) and T.pc(v) == p and len(v) <= 2
          and (len(v) == 1 or (v[1] == "#" and acc > 0) or (v[1] == "b" and acc < 0)))
    ctx.check("reduction: same pc, <=1 accidental of the net sign", ok, w, None, v)
    st, v = ctx.call(notes.is_enharmonic, n, letter)
    ctx.check("enharmonic iff equal pc", st == "ok" and v == (p == T.NAT[letter]), w, p == T.NAT[letter], v)
    ctx.case(("name", n), nontrivial=len(n) > 1)


def expect_reject(ctx, f, fname, s, exc):
    st, v = ctx.call(f, s)
    ok = st == "exc" and isinstance(v, exc)
    ctx.check("reject: %s raises the note-format error on other non-empty strings" % fname, ok,
              {"call": fname, "input": s}, exc.__name__, repr(v), mechanism="reject:" + fname)


def check_string(ctx, s):
    """A non-empty string: either a valid name (full clauses) or rejected everywhere."""
    if T.valid(s):
        check_name(ctx, s)
        return
    # other entry points see the malformed string first (their own behaviour on it is not part of the statement;
    # what they may leave behind is)
    for f in (notes.remove_redundant_accidentals, notes.augment, notes.diminish):
        ctx.call(f, s)
    st, v = ctx.call(notes.is_valid_note, s)
    ctx.check("validity: false outside the grammar", st == "ok" and v is False, {"input": s}, False, v)
    expect_reject(ctx, notes.note_to_int, "note_to_int", s, NoteFormatError)
    expect_reject(ctx, notes.reduce_accidentals, "reduce_accidentals", s, NoteFormatError)
    ctx.case(("bad", s))


def run(shard, ctx):
    kind = shard["kind"]
    if kind == "names":
        L, first, k = shard["letter"], shard["first"], shard["k"]
        cnt = 0
        if first == "":
            gen = T.acc_strings(k)
        else:
            gen = (first + a for a in T.acc_strings(k - 1))
            if first == "#":
                check_name(ctx, L)
        for a in gen:
            check_name(ctx, L + a)
            cnt += 1
        ctx.note_exhaustive("names %s%s... with <= %d accidentals in every order" % (L, first, k), cnt)
        ctx.sample({"name": L + "#b#", "note_to_int": notes.note_to_int(L + "#b#"),
                    "reduce": notes.reduce_accidentals(L + "#b#"),
                    "remove_redundant": notes.remove_redundant_accidentals(L + "#b#")})
    elif kind == "hostile":
        n = 0
        for ln in range(1, shard["maxlen"] + 1):
            for t in itertools.product(HOSTILE, repeat=ln):
                check_string(ctx, "".join(t))
                n += 1
        ctx.note_exhaustive("strings over %r up to length %d" % (HOSTILE, shard["maxlen"]), n)
        for hs in T.HOSTILE_STRINGS:
            check_string(ctx, hs)
            for nm in ("F#", "Bbb", "G"):
                check_string(ctx, nm + hs[1:] if hs[0] in "Cc" else nm + hs)
        # very long names (a thousand and more accidentals, pure and mixed): still names, with the same clauses
        for nm in ("C" + "#" * 1200, "B" + "b" * 1500, "E" + "#b" * 800, "G" + "b#" * 1100 + "b", "A" + "#" * 5000,
                   # long blocks that cancel each other from the inside out (deeper than the interpreter's recursion limit here)
                   "C" + "#" * 3300 + "b" * 3300 + "###", "F" + "b" * 3100 + "#" * 3100, "D" + "#b" * 3200 + "b"):
            check_name(ctx, nm)
        # names that are instances of a str subclass
        for nm in ("C", "C#", "Bbb", "F##", "Ab", "E#b", "G" + "b" * 9):
            check_name(ctx, T.SubStr(nm))
            check_name(ctx, T.NamedStr(nm))
        # long names that agree in letter, first accidental and length and differ in what they add up to
        for L_ in "GC":
            for n_ in (33, 40, 64, 200):
                for flats in (0, 5, 1, n_ // 2, n_ - 1):
                    check_name(ctx, L_ + "#" * (n_ - flats) + "b" * flats)
                    check_name(ctx, L_ + "b" + "#" * flats + "b" * (n_ - flats - 1))
        # many distinct long names in one process (more than a bounded memo is likely to hold)
        rng_v = ctx.rng("volume")
        bad = None
        for k in range(6000):
            nm = "CDEFGAB"[k % 7] + "".join(rng_v.choice("#b") for _ in range(130 + k % 40))
            st, v = ctx.call(notes.note_to_int, nm)
            if not (st == "ok" and v == T.pc(nm)):
                bad = (k, repr(v)[:160])
                break
            if k % 53 == 0:
                st, r = ctx.call(notes.reduce_accidentals, nm)
                if not (st == "ok" and T.valid(r) and T.pc(r) == T.pc(nm)):
                    bad = (k, repr(r)[:160])
                    break
        ctx.check("pitch class = natural + sharps - flats (mod 12)", bad is None, {"distinct_long_names_so_far": bad[0] if bad else None}, None,
                  bad[1] if bad else None, mechanism="pc:many-distinct-long-names")
        rng = ctx.rng("unicode")
        pools = ["ABCDEFG#b", "abcdefgh#b", "CDE#b♭♯\U0001d12a", "0123456789-", " \t\n", "C#b" * 3]
        for i in range(shard["random"]):
            pool = rng.choice(pools) + rng.choice(pools)
            s = "".join(rng.choice(pool) for _ in range(rng.randint(1, 12)))
            if rng.random() < 0.3:
                s = rng.choice("CDEFGAB") + s
            if rng.random() < 0.1:
                s = s + chr(rng.randint(32, 0x2fff))
            check_string(ctx, s)
        ctx.sample({"input": "H#", "is_valid_note": notes.is_valid_note("H#")})
    elif kind == "ints":
        vals = list(range(-50, 51)) + [2 ** k for k in range(4, 70)] + [-2 ** k for k in range(4, 70)] + [12, 11, -1]
        # integers up to what the interpreter itself still writes out in decimal (4300 digits; see C04)
        vals += [10 ** 4299, -(10 ** 4298), 1 << 14000, 12 + (1 << 14000)]
        for big in vals:
            for style in ("#", "b"):
                i = big
                st, v = ctx.call(notes.int_to_note, i, style)
                if abs(i) > 10 ** 100:
                    i = "about 2**%d" % i.bit_length() if i > 0 else "about -2**%d" % i.bit_length()      # (witnesses stay printable)
                if not isinstance(i, str) and 0 <= i <= 11:
                    ok = (st == "ok" and T.valid(v) and len(v) <= 2 and (len(v) == 1 or v[1] == style)
                          and T.pc(v) == i)
                    ctx.check("int_to_note: style and round trip", ok, {"int": i, "style": style}, None, repr(v))
                    if st == "ok" and T.valid(v):
                        st2, back = ctx.call(notes.note_to_int, v)
                        ctx.check("int_to_note: name converts back to the pitch class", st2 == "ok" and back == i,
                                  {"int": i, "style": style, "name": v}, i, back)
                else:
                    ctx.check("reject: int_to_note raises the range error outside 0-11",
                              st == "exc" and isinstance(v, RangeError), {"int": i, "style": style},
                              "RangeError", repr(v), mechanism="reject:int_to_note-range")
                ctx.case(("int", i, style))
        st, v = ctx.call(notes.int_to_note, 3)
        ctx.check("int_to_note: default style is sharps", st == "ok" and v == "D#", {"int": 3}, "D#", v)
        for style in ("x", "##", "", "B", "bb", "sharp", " ", "#b"):
            for i in range(12):
                st, v = ctx.call(notes.int_to_note, i, style)
                ctx.check("reject: int_to_note raises the format/range error for unknown styles",
                          st == "exc" and isinstance(v, (FormatError, RangeError)), {"int": i, "style": style},
                          "FormatError", repr(v), mechanism="reject:int_to_note-style")
                ctx.case(("style", i, style))
        ctx.sample({"int_to_note(3,'b')": notes.int_to_note(3, "b")})
    elif kind == "pairs":
        names = list(T.all_names(shard["k"]))
        for a in names:
            pa = T.pc(a)
            for b in names:
                st, v = ctx.call(notes.is_enharmonic, a, b)
                ctx.check("enharmonic iff equal pc", st == "ok" and v == (pa == T.pc(b)), {"a": a, "b": b},
                          pa == T.pc(b), v)
            ctx.case(("pairs-of", a), n=len(names))
        ctx.note_exhaustive("ordered pairs of names with <= %d accidentals" % shard["k"], len(names) ** 2)
        # pure spellings far apart (nets -13..13): enharmonic wrap-arounds by one and two octaves of accidentals
        pure = list(T.pure_names(13))
        for a in pure:
            pa = T.pc(a)
            for b in pure:
                st, v = ctx.call(notes.is_enharmonic, a, b)
                ctx.check("enharmonic iff equal pc", st == "ok" and v == (pa == T.pc(b)), {"a": a, "b": b}, pa == T.pc(b), v,
                          mechanism="enharmonic-pure-pairs")
            ctx.case(("pure-pairs-of", a), n=len(pure))
        ctx.note_exhaustive("ordered pairs of pure names with <= 13 sharps or flats", len(pure) ** 2)
        ctx.sample({"a": "B#", "b": "Dbb", "is_enharmonic": notes.is_enharmonic("B#", "Dbb")})
    elif kind == "long":
        rng = ctx.rng("long")
        for i in range(shard["n"]):
            ln = rng.choice([15, 16, 31, 100, 257, 500, 1000, 2000]) if i % 2 else rng.randint(15, 400)
            bias = rng.choice([0.5, 0.5, 0.1, 0.9, 0.0, 1.0])
            acc = "".join("#" if rng.random() < bias else "b" for _ in range(ln))
            check_name(ctx, rng.choice(T.LETTERS) + acc)
        ctx.sample({"name": "C" + "#" * 13 + "b" * 2, "note_to_int": notes.note_to_int("C" + "#" * 13 + "b" * 2)})
    elif kind == "repotests":
        from rv import repotests
        repotests.run(ctx, shard["tests"])
