"""C09 Note-value analysis inverts note-value construction; meter predicates are total."""
import math
from fractions import Fraction

from mingus.core import value as V, meter as M

from rv import reach
from rv.models import theory as T  # noqa: F401  (kept for uniformity)

ID = "C09"
ANCHOR_FILES = ["mingus/core/value.py", "mingus/core/meter.py"]
REQUIRED_REACH = ["core.value.determine", "core.value.add", "core.value.subtract", "core.value.dots", "core.value.tuplet",
                  "core.value.triplet", "core.value.quintuplet", "core.value.septuplet", "core.meter.valid_beat_duration",
                  "core.meter.is_valid", "core.meter.is_compound", "core.meter.is_simple", "core.meter.is_asymmetrical"]
REQUIRED_CLAUSES = ["analysis:", "near:", "arithmetic:", "tuplets:", "meter:", "M-steps"]
RULE = ("note values built from 10 bases x dots 0..4 and x {3:2, 5:4, 7:4}; the same values scaled by factors in "
        "[0.99, 1.01] (undotted and single-dotted); pairs of values for add/subtract; beat units over integers, "
        "powers of two up to 2^1023, floats, zero, negatives, non-finite values; counts over integers; every meter "
        "call runs under a logical step budget; non-trivial = everything except the plain quarter note / 4-4; "
        "distinct by (clause family, input)")

BASES = [0.25, 0.5, 1, 2, 4, 8, 16, 32, 64, 128]
BUDGET = 20000


def shards(tier, seed):
    out = [{"name": "analysis-exact", "kind": "exact", "weight": 1}]
    step = 0.0005 if tier == "quick" else 0.0001
    for i, b in enumerate(BASES):
        if tier == "quick" and i % 2:
            continue
        out.append({"name": "near-%s" % b, "kind": "near", "bases": [b] if tier != "quick" else BASES[i:i + 2],
                    "step": step, "weight": 3})
    out.append({"name": "arithmetic", "kind": "arith", "n": 3000 if tier == "quick" else 20000, "weight": 2})
    out.append({"name": "meter-systematic", "kind": "meter", "weight": 4})
    out.append({"name": "meter-random", "kind": "meter-random", "n": 3000 if tier == "quick" else 20000, "weight": 4})
    return out


def attach(ctx, shard):
    reach.guard_steps(M, ["valid_beat_duration", "is_valid", "is_compound", "is_simple", "is_asymmetrical"],
                      clause="M-steps: meter predicate returns within %d line events" % BUDGET, budget=BUDGET)


def vocabulary():
    """[(value as the library's constructors give it, (base, dots, r1, r2))]"""
    out = []
    for b in BASES:
        out.append((b, (b, 0, 1, 1)))
        for d in range(1, 5):
            out.append((V.dots(b, d), (b, d, 1, 1)))
        out.append((V.triplet(b), (b, 0, 3, 2)))
        out.append((V.quintuplet(b), (b, 0, 5, 4)))
        out.append((V.septuplet(b), (b, 0, 7, 4)))
    return out


def same(t, exp):
    try:
        return len(t) == 4 and all(float(a) == float(b) for a, b in zip(t, exp))
    except Exception:
        return False


def is_pow2_unit(d):
    """d is numerically one of 1, 2, 4, 8, ..."""
    try:
        if d != d or d in (float("inf"), float("-inf")) or d < 1:
            return False
        f = Fraction(d)
    except (TypeError, ValueError, OverflowError):
        return False
    if f.denominator != 1:
        return False
    n = f.numerator
    return n & (n - 1) == 0


def check_meter(ctx, count, unit):
    w = {"meter": [repr(count), repr(unit)]}
    valid = count > 0 and is_pow2_unit(unit)
    exp = {"is_valid": valid, "is_simple": valid,
           "is_compound": valid and count % 3 == 0 and count >= 6,
           "is_asymmetrical": valid and count % 2 == 1}
    for fname, e in exp.items():
        st, v = ctx.call(getattr(M, fname), (count, unit))
        if st == "mon":
            continue        # the step watchdog fired and recorded the violation itself
        ctx.check("meter: %s is exactly its definition" % fname, st == "ok" and bool(v) == bool(e), dict(w, predicate=fname),
                  bool(e), repr(v), mechanism="meter:" + fname)
    ctx.case(("meter", repr(count), repr(unit)), nontrivial=(count, unit) != (4, 4))


def check_unit(ctx, unit):
    st, v = ctx.call(M.valid_beat_duration, unit)
    if st != "mon":
        e = is_pow2_unit(unit)
        ctx.check("meter: valid_beat_duration is true exactly for 1, 2, 4, 8, ...", st == "ok" and bool(v) == e,
                  {"unit": repr(unit)}, e, repr(v), mechanism="unit")
    ctx.case(("unit", repr(unit)))


def run(shard, ctx):
    kind = shard["kind"]
    if kind == "exact":
        voc = vocabulary()
        # values a hair away from the exact ones are analysed first (whatever they are taken for is their own business)
        for v, exp in voc:
            for near in (float("%.7f" % v), v * (1 + 1e-7), v * (1 - 1e-7), float("%.6f" % v)):
                ctx.call(V.determine, near)
        for v, exp in voc:
            # the same value given as an exact Fraction (for undotted, single-dotted and tuplet values, which are recognised by
            # range: a Fraction is not *built by* the library's constructors, and the exact-equality recognition of 2-4 dots is
            # promised for what they build - floats)
            if exp[1] >= 2:
                continue
            fr = (Fraction(1) / Fraction(exp[0])) * (2 - Fraction(1, 2 ** exp[1])) * Fraction(exp[3], exp[2])
            st, t = ctx.call(V.determine, 1 / fr)
            ctx.check("analysis: determine returns the (base, dots, ratio) the value was built from", st == "ok" and same(t, exp),
                      {"value": str(1 / fr), "given_as": "Fraction", "built_as": exp}, exp, repr(t), mechanism="exact-fraction:dots%d-ratio%d" % (exp[1], exp[2]))
        for v, exp in voc:
            st, t = ctx.call(V.determine, v)
            ctx.check("analysis: determine returns the (base, dots, ratio) the value was built from", st == "ok" and same(t, exp),
                      {"value": v, "built_as": exp}, exp, repr(t), mechanism="exact:dots%d-ratio%d" % (exp[1], exp[2]))
            ctx.case(("exact", v), nontrivial=exp != (4, 0, 1, 1))
        ctx.note_exhaustive("10 bases x (dots 0..4 + 3 tuplets)", 80)
        for b in BASES:
            for (f, a, c) in ((V.triplet, 3, 2), (V.quintuplet, 5, 4), (V.septuplet, 7, 4)):
                st, v = ctx.call(f, b)
                ctx.check("tuplets: helper equals the general ratio formula", st == "ok" and v == V.tuplet(b, a, c) and
                          abs(v - a * b / float(c)) <= 1e-12 * v, {"helper": f.__name__, "value": b}, a * b / float(c), repr(v))
            st, v = ctx.call(V.septuplet, b, False)
            ctx.check("tuplets: septuplet in eighths equals the 7:8 ratio", st == "ok" and abs(v - 7 * b / 8.0) <= 1e-12 * v,
                      {"value": b}, 7 * b / 8.0, repr(v))
            for a, c in ((3, 2), (5, 4), (7, 4), (7, 8), (9, 8), (2, 3)):
                st, v = ctx.call(V.tuplet, b, a, c)
                ctx.check("tuplets: tuplet(v, a, b) = a*v/b", st == "ok" and abs(v - a * b / float(c)) <= 1e-12 * abs(v),
                          {"value": b, "ratio": [a, c]}, a * b / float(c), repr(v))
            for d in range(0, 5):
                st, v = ctx.call(V.dots, b, d)
                exp = float(Fraction(b) / (2 - Fraction(1, 2 ** d)))
                ctx.check("tuplets: dots(v, n) lengthens the duration by 2 - 2^-n", st == "ok" and abs(v - exp) <= 1e-12 * exp,
                          {"value": b, "dots": d}, exp, repr(v))
            ctx.case(("helpers", b))
        ctx.sample({"determine(dots(8,2))": list(V.determine(V.dots(8, 2))), "determine(14)": list(V.determine(14))})
    elif kind == "near":
        step = shard["step"]
        steps = int(round(0.01 / step))
        for b in shard["bases"]:
            for v, exp in ((b, (b, 0, 1, 1)), (V.dots(b), (b, 1, 1, 1))):
                for i in range(-steps, steps + 1):
                    f = 1 + i * step
                    st, t = ctx.call(V.determine, v * f)
                    ctx.check("near: a value within 1% of an undotted or single-dotted value is analysed as that value",
                              st == "ok" and same(t, exp), {"value": v * f, "near": v, "factor": f}, exp, repr(t),
                              mechanism="near:%s" % ("below" if i < 0 else "above") + (":dotted" if exp[1] else ":plain"))
                    ctx.case(("near", b, exp[1], i), nontrivial=i != 0)
        ctx.sample({"determine(3.97)": list(V.determine(3.97)), "determine(2.69)": list(V.determine(2.69))})
    elif kind == "arith":
        vals = [v for v, _e in vocabulary()]
        rng = ctx.rng("arith")
        pairs = [(a, b) for a in vals[:16] for b in vals[:16]]
        while len(pairs) < shard["n"]:
            pairs.append((rng.choice(vals), rng.choice(vals)))
        for a, b in pairs:
            w = {"a": a, "b": b}
            st, s = ctx.call(V.add, a, b)
            ok = st == "ok" and abs(1.0 / s - (1.0 / a + 1.0 / b)) <= 1e-12 * (1.0 / a + 1.0 / b)
            ctx.check("arithmetic: adding values adds the durations they stand for", ok, w, 1 / (1.0 / a + 1.0 / b), repr(s))
            if ok:
                st, back = ctx.call(V.subtract, s, b)
                ctx.check("arithmetic: subtract inverts add", st == "ok" and abs(back - a) <= 1e-9 * a, w, a, repr(back))
            if a != b:
                st, d = ctx.call(V.subtract, a, b)
                exp = 1.0 / a - 1.0 / b
                ctx.check("arithmetic: subtracting values subtracts the durations", st == "ok" and
                          abs(1.0 / d - exp) <= 1e-12 * max(abs(exp), 1.0 / a), w, exp, repr(d))
                if st == "ok":
                    # ... and adding the subtracted value again leads back, whichever of the two notes was the longer one
                    st, back = ctx.call(V.add, d, b)
                    ctx.check("arithmetic: add inverts subtract", st == "ok" and abs(back - a) <= 1e-9 * a, w, a, repr(back),
                              mechanism="add-after-subtract:" + ("longer-minus-shorter" if a < b else "shorter-minus-longer"))
            ctx.case(("arith", a, b), nontrivial=a != b)
        ctx.sample({"add(8,4)": V.add(8, 4), "subtract(add(8,4),4)": V.subtract(V.add(8, 4), 4)})
    elif kind == "meter":
        units = list(range(-64, 4097)) + [2 ** k for k in range(13, 1024)] + [2 ** k + 1 for k in range(13, 60)] + \
            [3 * 2 ** k for k in range(11, 60)]
        # integers with more than 53 significant bits (no float holds them): even non-powers next to powers, and powers
        units += [2 ** k + 2 for k in range(50, 130)] + [2 ** k - 2 for k in range(50, 130)] + [2 ** k + 2 ** (k - 56) for k in range(57, 130)] + \
            [(2 ** 53 + 1) * 2 ** j for j in range(1, 40)] + [2 ** k for k in range(1024, 1100)] + [2 ** 1030 + 2 ** 3, 10 ** 30, 6 ** 40]
        for u in units:
            check_unit(ctx, u)
        funits = [k / 8.0 for k in range(-16, 130)] + [0.0, -0.0, 5e-324, 2.2250738585072014e-308, 1e-5, 0.1, 1e308,
                                                       float(2 ** 60), 2.0 ** 1023, math.sqrt(2), math.pi, float("inf"),
                                                       float("-inf"), float("nan"), True, False, 1.0000000000000002,
                                                       0.9999999999999999, 3.9999999999999996, 4.000000000000001]
        funits += [Fraction(1, 2), Fraction(4, 1), Fraction(3, 2), Fraction(8, 2)]
        # the floats next to each power of two (one unit in the last place away)
        for k in list(range(0, 70)) + [100, 500, 1000, 1023]:
            funits += [math.nextafter(2.0 ** k, 0.0), math.nextafter(2.0 ** k, math.inf), 2.0 ** k]
        for u in funits:
            check_unit(ctx, u)
        for count in range(-10, 61):
            for u in (1, 2, 4, 8, 16, 32, 64, 128, 3, 6, 0, -4, 12, 4.0, 8.0, 0.5, 1.5, 2.5, 5, 7, 9, 10, 2 ** 40):
                check_meter(ctx, count, u)
        # counts no float can hold (2**1024 and beyond), with units of every kind
        for count in (2 ** 1024, 2 ** 1024 + 1, 3 * 10 ** 400, 10 ** 400, 6 * 2 ** 1100, -(10 ** 400), 2 ** 2000 + 3):
            for u in (4, 8, 3, 0, 16.0, 2 ** 40, 5):
                check_meter(ctx, count, u)
        ctx.extra["max_line_events_in_a_terminating_meter_call"] = 0
        ctx.count("meter: largest number of line events a returning call needed", reach.max_steps_seen())
        ctx.sample({"is_compound((6,8))": M.is_compound((6, 8)), "valid_beat_duration(2**1023) line events": reach.max_steps_seen()})
    else:
        rng = ctx.rng("meter-random")
        for i in range(shard["n"]):
            r = rng.random()
            if r < 0.3:
                u = rng.uniform(-4, 300)
            elif r < 0.5:
                u = Fraction(rng.randint(-8, 600), rng.randint(1, 16))
            elif r < 0.7:
                u = float(2 ** rng.randint(0, 1023)) * rng.choice([1, 1, 1.5, 0.75, 1.0000001])
            elif r < 0.85:
                u = rng.randint(-10 ** 6, 10 ** 9)
            elif r < 0.93:
                u = 2 ** rng.randint(0, 1023) + rng.choice([0, 0, 1, -1])
            else:
                k = rng.randint(56, 300)
                u = 2 ** k + rng.choice([0, 2, -2, 2 ** rng.randint(1, k - 54), 6, 2 ** (k - 1)])
            if rng.random() < 0.5:
                check_unit(ctx, u)
            else:
                check_meter(ctx, rng.randint(-5, 40), u)
        ctx.sample({"unit": 1.5, "valid_beat_duration": ctx.call(M.valid_beat_duration, 1.5)[0]})
