"""C14 Tracks and compositions accumulate music faithfully."""
import itertools
from fractions import Fraction

from mingus.containers import Note, NoteContainer, Bar, Track, Composition
from mingus.containers.instrument import Instrument, Piano, Guitar, MidiInstrument
from mingus.containers.mt_exceptions import InstrumentRangeError

from rv.models import music as MU
from rv.models import theory as T
from rv.models.containers import BarModel, pitch

ID = "C14"
ANCHOR_FILES = ["mingus/containers/track.py", "mingus/containers/composition.py", "mingus/containers/instrument.py",
                "mingus/containers/bar.py"]
REQUIRED_REACH = ["containers.track.Track.add_notes", "containers.track.Track.get_notes", "containers.track.Track.from_chords",
                  "containers.track.Track.add_bar", "containers.track.Track.__add__", "containers.track.Track.test_integrity",
                  "containers.track.Track.__eq__", "containers.composition.Composition.add_track",
                  "containers.composition.Composition.add_note", "containers.composition.Composition.__add__",
                  "containers.instrument.Instrument.can_play_notes", "containers.instrument.Guitar.can_play_notes"]
REQUIRED_CLAUSES = ["track:", "instrument:", "from_chords:", "composition:"]
RULE = ("histories of add_notes / '+' / add_bar on tracks over values, meters, keys, rests and five instrument choices, "
        "checked after every step against a model track of exact rational bars; nested chord lists for from_chords; "
        "composition scripts (add tracks, select, add notes, compare); non-trivial = history with at least two steps; "
        "distinct by (instrument, key, meter, step sequence); distinct states = distinct exact bar fillings reached")

INSTRUMENTS = ["none", "Instrument", "Piano", "Guitar", "MidiInstrument"]
RANGES = {"Instrument": (pitch("C", 0), pitch("C", 8)), "Piano": (pitch("F", 0), pitch("B", 8)),
          "Guitar": (pitch("E", 3), pitch("E", 7)), "MidiInstrument": (pitch("C", 0), pitch("B", 8))}
CHORDS = ["C", "Am", "Dm", "G7", "F#m7", "Bbdim", "E", "A7", "Ebmaj7", "Dsus4", "Gb6"]


def make_instrument(kind):
    return {"none": lambda: None, "Instrument": Instrument, "Piano": Piano, "Guitar": Guitar,
            "MidiInstrument": MidiInstrument}[kind]()


def shards(tier, seed):
    out = []
    n = 6400 if tier == "quick" else 100000
    parts = 8 if tier == "quick" else 16
    for i in range(parts):
        out.append({"name": "histories-%d" % i, "kind": "hist", "n": n // parts, "weight": 8})
    depth = 3 if tier == "quick" else 4
    for first in range(12):
        out.append({"name": "exhaustive-%02d" % first, "kind": "exh", "first": first, "depth": depth, "weight": 3 if tier == "quick" else 10})
    m = 500 if tier == "quick" else 20000
    for i in range(2 if tier == "quick" else 8):
        out.append({"name": "from-chords-%d" % i, "kind": "chords", "n": m // (2 if tier == "quick" else 8), "weight": 5})
    out.append({"name": "instruments", "kind": "instr", "weight": 2})
    out.append({"name": "compositions", "kind": "comp", "n": 150 if tier == "quick" else 3000, "weight": 3})
    return out


# ------------------------------------------------------------------------------------- model
class TrackModel(object):
    def __init__(self):
        self.bars = []      # (key, BarModel)

    def add_bar(self, key, meter):
        self.bars.append((key, BarModel(meter)))

    def add(self, length, value, pitches):
        """-> (accepted, opened_new_bar)"""
        opened = False
        if not self.bars:
            self.add_bar("C", (4, 4))
        key, last = self.bars[-1]
        if last.is_full():
            self.add_bar(key, last.meter)
            opened = True
        return self.bars[-1][1].place(length, value, pitches), opened

    def flat(self):
        return [(float(e[0]), e[1], e[2]) for (_k, b) in self.bars for e in b.entries]


def flat_track(t):
    out = []
    for beat, dur, nc in t.get_notes():
        out.append((beat, dur, None if nc is None else sorted(pitch(n.name, n.octave) for n in nc.notes)))
    return out


def bars_snapshot(t):
    return [(b.key.key, tuple(b.meter), [(e[0], e[1], None if e[2] is None else sorted(pitch(n.name, n.octave) for n in e[2].notes))
                                         for e in b.bar]) for b in t.bars]


def close(a, b):
    if len(a) != len(b):
        return False
    for x, y in zip(a, b):
        if abs(x[0] - y[0]) > 1e-9 or x[1] != y[1] or x[2] != y[2]:
            return False
    return True


def check_track(ctx, t, m, hist, w):
    got = flat_track(t)
    ok = close(got, m.flat())
    ctx.check("track: iterating yields exactly the accepted items, in order, with their values and contents", ok, w, m.flat()[-4:],
              got[-4:], mechanism="iteration")
    okb = len(t.bars) == len(m.bars) and all((b.key.key, tuple(b.meter)) == (k, bm.meter) for b, (k, bm) in zip(t.bars, m.bars))
    ctx.check("track: a new bar is opened only when the last one is full and inherits its key and meter", okb, w,
              [(k, bm.meter) for (k, bm) in m.bars], [(b.key.key, tuple(b.meter)) for b in t.bars], mechanism="bars")
    st, integ = ctx.call(t.test_integrity)
    allfull = all(bm.is_full() for (_k, bm) in m.bars[:-1])
    ctx.check("track: every bar except the last is full", st == "ok" and bool(integ) == allfull and
              all(b.is_full() for b in t.bars[:-1]) == allfull, w, allfull, repr(integ), mechanism="integrity")
    tot = sum((e[3] for (_k, bm) in m.bars for e in bm.entries), Fraction(0))
    ft = sum(1.0 / d for (_b, d, _n) in t.get_notes())
    ctx.check("track: the sum of entry lengths equals the sum of accepted lengths", abs(float(tot) - ft) <= 1e-9 * max(1.0, ft), w,
              float(tot), ft, mechanism="total")
    st, ln = ctx.call(len, t)
    ctx.check("track: length and indexing follow the bars", st == "ok" and ln == len(m.bars) and
              all(t[i] is t.bars[i] for i in range(len(t.bars))), w, len(m.bars), repr(ln), mechanism="len")
    return ok and okb


ITEMS = ["rest", "name", "note", "list", "container", "low", "high", "strlist", "notelist", "climb"]


def make_item(rng, kind, instrument, current_range=None):
    """-> (object for the library, pitches or None, in_range); current_range: the range given to the instrument since it was made"""
    if kind == "rest":
        return None, None, True
    lo, hi = current_range or RANGES.get(instrument, (0, 200))
    if kind == "name":
        n = rng.choice(["C", "E", "G", "A", "F#", "Bb"])
        return n, [pitch(n, 4)], lo <= pitch(n, 4) <= hi
    if kind == "note":
        n, o = rng.choice(["C", "D", "E", "G", "A", "Bb", "F#"]), rng.choice([4, 5, 6])
        return Note(n, o), [pitch(n, o)], lo <= pitch(n, o) <= hi
    if kind == "list":
        names = rng.sample(["C", "E", "G", "B"], rng.randint(2, 3))
        nc = NoteContainer(list(names))
        ps = sorted(pitch(x.name, x.octave) for x in nc.notes)
        return list(names), ps, all(lo <= p <= hi for p in ps)       # (where the names end up once they are voiced upward)
    if kind == "climb":
        # bare names that the container voices upward through several octaves (each next name lies below the previous one
        # within the octave): what counts for the range is where the notes end up
        names = rng.sample(["C", "B", "A#", "A", "G#", "G", "F#", "F"], rng.randint(3, 6))
        names.sort(key=lambda n: -pitch(n, 4))
        names.insert(0, "C")
        nc = NoteContainer(list(names))
        ps = sorted(pitch(x.name, x.octave) for x in nc.notes)
        # (a guitar plays six notes at most, whatever its range: more are refused like notes out of range)
        return list(names), ps, all(lo <= p <= hi for p in ps) and not (instrument == "Guitar" and len(ps) > 6)
    if kind in ("strlist", "notelist"):
        # a plain list of 'Name-octave' strings (or of Notes), three to five of them, with at most one of them far outside
        # every range and sitting at any position of the list
        pool = [("C", 4), ("E", 4), ("G", 4), ("D", 5), ("A", 3), ("F", 5), ("B", 4), ("E", 5)]
        picks = rng.sample(pool, rng.randint(2, 4))
        if rng.random() < 0.5:
            picks.insert(rng.randrange(len(picks) + 1), rng.choice([("D", 9), ("C", 0), ("A", 8), ("F", 1)]))
        ps = sorted(set(pitch(n, o) for n, o in picks))
        obj = ["%s-%d" % (n, o) for n, o in picks] if kind == "strlist" else [Note(n, o) for n, o in picks]
        return obj, ps, all(lo <= p <= hi for p in ps)
    if kind == "container":
        nc = NoteContainer([Note(n, o) for n, o in rng.sample([("C", 4), ("E", 4), ("G", 5), ("D", 5), ("A", 4), ("Bb", 5)], rng.randint(1, 4))])
        ps = sorted(pitch(x.name, x.octave) for x in nc.notes)
        return nc, ps, all(lo <= p <= hi for p in ps)
    if kind == "low":
        n = Note("D", 0) if instrument == "Piano" else (Note("D", 3) if instrument == "Guitar" else Note("C", 0))
        return n, [pitch(n.name, n.octave)], lo <= pitch(n.name, n.octave) <= hi
    n = Note("C", 9) if rng.random() < 0.5 else Note("F", 7)
    if rng.random() < 0.5:
        nc = NoteContainer([Note("C", 4), n])
        return nc, sorted([pitch("C", 4), pitch(n.name, n.octave)]), lo <= pitch(n.name, n.octave) <= hi and lo <= pitch("C", 4) <= hi
    return n, [pitch(n.name, n.octave)], lo <= pitch(n.name, n.octave) <= hi


def step_add(ctx, t, m, instrument, obj, pitches, inrange, val, hist, via="add_notes"):
    """Apply one add to track and model with all per-step clauses. Returns False when the history must stop."""
    w = {"instrument": instrument, "history": hist}
    before_flat, before_bars = flat_track(t), bars_snapshot(t)
    was_full = bool(m.bars) and m.bars[-1][1].is_full()
    if via == "+":
        st, r = ctx.call(lambda: t + obj)
    else:
        st, r = ctx.call(t.add_notes, obj, val.value)
    if instrument != "none" and obj is not None and not inrange:
        ok = st == "exc" and isinstance(r, InstrumentRangeError)
        ctx.check("instrument: a note outside the instrument's range is refused with the range error", ok, w, "InstrumentRangeError",
                  repr(r), mechanism="range-accept")
        ctx.check("instrument: a refused note changes nothing", close(flat_track(t), before_flat) and bars_snapshot(t) == before_bars, w,
                  before_flat[-3:], flat_track(t)[-3:], mechanism="range-changed")
        return ok
    if st != "ok":
        what = "rest" if obj is None else type(obj).__name__
        ctx.check("instrument: rests and notes inside the range are accepted whatever instrument is attached", False, w, "accepted",
                  repr(r), mechanism="raise:%s:%s" % (instrument, what))
        return False
    ctx.check("instrument: rests and notes inside the range are accepted whatever instrument is attached", True, w)
    exp, opened = m.add(val.length, val.value, pitches)
    ctx.check("track: add reports True exactly when the item fits the last bar exactly (rational arithmetic)", bool(r) == exp, w, exp, repr(r),
              mechanism="accept")
    if bool(r) != exp:
        return False
    if not exp:
        # nothing changes, except that a bar may have been opened because the last one was full
        after_bars = bars_snapshot(t)
        # (a bar is opened before placement is attempted: when the last bar was full, or when the track had no bar yet)
        same = close(flat_track(t), before_flat) and (after_bars == before_bars or (
            (was_full or not before_bars) and after_bars[:-1] == before_bars and after_bars[-1][2] == []))
        ctx.check("track: a rejected item changes nothing", same, w, before_flat[-3:], flat_track(t)[-3:], mechanism="reject-changed")
    return True


def run(shard, ctx):
    kind = shard["kind"]
    if kind == "hist":
        rng = ctx.rng("hist")
        vocab = MU.vocabulary(bases=(1, 2, 4, 8, 16, 32), dots=(0, 1), tuplets=((3, 2), (5, 4)))
        for h in range(shard["n"]):
            instrument = rng.choice(INSTRUMENTS)
            t = Track(make_instrument(instrument))
            m = TrackModel()
            hist = []
            cur_range = None
            if rng.random() < 0.8:
                key, meter = rng.choice(["C", "G", "eb", "F#", "Bb"]), rng.choice([(4, 4), (3, 4), (6, 8), (5, 8), (2, 2), (12, 8), (0, 0)])
                t.add_bar(Bar(key, meter))
                m.add_bar(key, meter)
                hist.append(("add_bar", key, meter))
            pool = vocab if rng.random() < 0.5 else [v for v in vocab if v.length <= Fraction(1, 4)]
            for step in range(rng.randint(1, 40)):
                r = rng.random()
                if r < 0.25:
                    ik = "rest"
                elif r < 0.9:
                    ik = rng.choice(ITEMS[1:5])
                else:
                    ik = rng.choice(ITEMS[5:])
                if instrument != "none" and rng.random() < 0.08:
                    # the instrument gets another range after it has been in use (set_range with notes or with names, or
                    # the public attribute subclasses define their range with): from here on that range decides
                    (ln_, lo_), (hn_, ho_) = rng.choice([(("C", 4), ("C", 6)), (("A", 3), ("E", 5)), (("C", 0), ("B", 9)), (("E", 4), ("G", 4)),
                                                         (("F", 4), ("A", 5))])
                    via_r = rng.choice(["set_range(notes)", "set_range(names)", "range attribute"])
                    if via_r == "set_range(notes)":
                        t.instrument.set_range((Note(ln_, lo_), Note(hn_, ho_)))
                    elif via_r == "set_range(names)":
                        t.instrument.set_range(("%s-%d" % (ln_, lo_), "%s-%d" % (hn_, ho_)))
                    else:
                        t.instrument.range = (Note(ln_, lo_), Note(hn_, ho_))
                    cur_range = (pitch(ln_, lo_), pitch(hn_, ho_))
                    hist.append((via_r, "%s-%d" % (ln_, lo_), "%s-%d" % (hn_, ho_)))
                obj, pitches, inrange = make_item(rng, ik, instrument, cur_range)
                if rng.random() < 0.1 and obj is not None and not isinstance(obj, list):
                    v = MU.Val(4)
                    hist.append(("+", ik, repr(obj)))
                    ok = step_add(ctx, t, m, instrument, obj, pitches, inrange, v, hist, via="+")
                else:
                    v = rng.choice(pool)
                    hist.append(("add_notes", ik, repr(obj), v.label))
                    ok = step_add(ctx, t, m, instrument, obj, pitches, inrange, v, hist)
                if not ok:
                    break
                if not check_track(ctx, t, m, hist, {"instrument": instrument, "history": hist}):
                    break
                if rng.random() < 0.04:
                    key, meter = rng.choice(["C", "A", "d"]), rng.choice([(4, 4), (3, 4), (7, 8)])
                    if not m.bars or m.bars[-1][1].is_full():
                        t.add_bar(Bar(key, meter))
                        m.add_bar(key, meter)
                        hist.append(("add_bar", key, meter))
            ctx.case(("hist", instrument, repr(hist)), nontrivial=len(hist) >= 2)
            ctx.state(tuple((k, bm.meter, tuple(e[3] for e in bm.entries)) for (k, bm) in m.bars))
            if h == 0:
                ctx.sample({"instrument": instrument, "history": hist[:8], "bars": len(m.bars)})
    elif kind == "exh":
        vals = {"w": MU.Val(1), "h": MU.Val(2), "q": MU.Val(4), "q.": MU.Val(4, 1), "t8": MU.Val(8, 0, 3, 2), "e": MU.Val(8)}
        OPS = [("add_notes 'C' w", "C", "w"), ("add_notes rest h", None, "h"), ("add_notes Note(E-4) q", ("note", "E", 4), "q"),
               ("add_notes ['C','G'] q.", ["C", "G"], "q."), ("add_notes container t8", ("nc", ["D", "A"]), "t8"),
               ("add_notes rest e", None, "e"), ("add_notes 'G' h", "G", "h"), ("add_notes rest w", None, "w"),
               ("+ 'A'", "A", "+"), ("+ Note(B-4)", ("note", "B", 4), "+"), ("add_notes 'D' t8", "D", "t8"),
               ("add_notes ['E','B'] e", ["E", "B"], "e")]
        first = shard["first"]
        cnt = 0
        for meter in [(4, 4), (3, 4)]:
            for depth in range(1, shard["depth"] + 1):
                for rest in itertools.product(range(12), repeat=depth - 1):
                    seq = (first,) + rest
                    t, m = Track(), TrackModel()
                    t.add_bar(Bar("G", meter))
                    m.add_bar("G", meter)
                    hist = []
                    ok = True
                    for oi in seq:
                        label, c, vk = OPS[oi]
                        hist.append(label)
                        if c is None:
                            obj, pitches = None, None
                        elif isinstance(c, str):
                            obj, pitches = c, [pitch(c, 4)]
                        elif isinstance(c, tuple) and c[0] == "note":
                            obj, pitches = Note(c[1], c[2]), [pitch(c[1], c[2])]
                        elif isinstance(c, tuple):
                            obj = NoteContainer(list(c[1]))
                            pitches = sorted(pitch(x.name, x.octave) for x in obj.notes)
                        else:
                            obj = list(c)
                            pitches = sorted(pitch(x.name, x.octave) for x in NoteContainer(list(c)).notes)
                        if vk == "+":
                            ok = step_add(ctx, t, m, "none", obj, pitches, True, MU.Val(4), hist, via="+")
                        else:
                            ok = step_add(ctx, t, m, "none", obj, pitches, True, vals[vk], hist)
                        if not ok:
                            break
                    if ok:
                        check_track(ctx, t, m, hist, {"meter": meter, "history": hist})
                    ctx.case(("exh", meter) + seq, nontrivial=len(seq) >= 2)
                    ctx.state(tuple((k, bm.meter, tuple(e[3] for e in bm.entries)) for (k, bm) in m.bars))
                    cnt += 1
        ctx.note_exhaustive("sequences of length <= %d over 12 operations starting with %r in 4/4 and 3/4" % (shard["depth"], OPS[first][0]), cnt)
        ctx.sample({"history": [OPS[first][0], OPS[1][0], OPS[4][0]]})
    elif kind == "chords":
        rng = ctx.rng("chords")

        def gen(depth):
            out = []
            for _ in range(rng.randint(1, 4)):
                r = rng.random()
                if r < 0.2:
                    out.append(None)
                elif r < 0.45 and depth < 3:
                    out.append(gen(depth + 1))
                else:
                    out.append(rng.choice(CHORDS))
            return out

        def flat(lst, d, acc, depth=0):
            for c in lst:
                if isinstance(c, list):
                    flat(c, d * 2, acc, depth + 1)
                else:
                    acc.append((c, Fraction(1, d), depth))
            return acc
        for i in range(shard["n"]):
            meter = rng.choice([(4, 4), (3, 4), (6, 8), (2, 2), (5, 4)])
            L = Fraction(*meter)
            d = rng.choice([1, 2, 4]) if rng.random() < 0.8 else rng.choice([3, 41, 7, 5, 1024])
            lst = gen(0)
            items = flat(lst, d, [])
            if any(l > L for (_c, l, _d) in items):
                continue            # an item longer than a whole bar needs more than one split (not generated)
            t = Track()
            t.add_bar(Bar("G", meter))
            prefill = []
            if rng.random() < 0.35:
                # the track already holds a few notes of odd lengths, so that items meet the bar line at odd places (an
                # overhang of less than a thousandth of a whole note is still music)
                for v in rng.sample([1024, 3, 7, 41, 5, 12, 128, 20, 2, 512], rng.randint(1, 3)):
                    if t.bars[-1].place_notes("C", v):
                        prefill.append(v)
            import copy
            arg = copy.deepcopy(lst)
            w = {"meter": meter, "duration": d, "chords": lst, "track_already_holds": prefill}
            st, r = ctx.call(t.from_chords, arg, d)
            shape = {"nested_none": any(c is None and dep > 0 for (c, _l, dep) in items), "has_none": any(c is None for (c, _l, _d) in items)}
            if st != "ok":
                ctx.check("from_chords: every chord and every rest of a (nested) list is placed", False, w, "track", repr(r),
                          mechanism="raise:" + type(r).__name__, shape=shape)
                ctx.case(("chords", meter, d, repr(lst)))
                continue
            got = []
            for (_b, v, nc) in t.get_notes():
                got.append((None if nc is None else tuple(x.name for x in nc.notes), Fraction(1) / Fraction(v).limit_denominator(10 ** 6)))
            got = got[len(prefill):]
            k, ok, why = 0, True, None
            nsplit = 0

            def same(x, y):
                # the pieces of a split carry float values (1 / remaining length): equal to within a billionth of a whole note
                return x == y or abs(float(x) - float(y)) <= 1e-9
            for (c, l, _dep) in items:
                names = None if c is None else tuple(x.name for x in NoteContainer().from_chord(c).notes)
                if k < len(got) and got[k][0] == names and same(got[k][1], l):
                    k += 1
                elif k + 1 < len(got) and got[k][0] == names and got[k + 1][0] == names and same(got[k][1] + got[k + 1][1], l):
                    k += 2
                    nsplit += 1
                else:
                    ok, why = False, {"item": (c, str(l)), "at": k, "found": [(g[0], str(g[1])) for g in got[k:k + 2]]}
                    break
            if ok and k != len(got):
                ok, why = False, {"extra_entries": [(g[0], str(g[1])) for g in got[k:]]}
            ctx.check("from_chords: every item is present in order, split in two across a bar line when it does not fit", ok, w, None, why,
                      mechanism="placement:" + ("rest" if (why and why.get("item", (1,))[0] is None) else "chord"), shape=shape)
            if ok:
                tot = sum(g[1] for g in got)
                ctx.check("from_chords: total length equals the requested lengths", same(tot, sum(l for (_c, l, _d) in items)), w,
                          str(sum(l for (_c, l, _d) in items)), str(tot), mechanism="total")
                st2, integ = ctx.call(t.test_integrity)
                ctx.check("from_chords: every bar except the last is full", st2 == "ok" and integ is True, w, True, repr(integ))
                ctx.count("from_chords: items split across a bar line", nsplit)
            ctx.check("from_chords: the chord list argument is unchanged", arg == lst, w, lst, arg, mechanism="arg")
            ctx.case(("chords", meter, d, repr(lst)))
            if i == 0:
                ctx.sample({"meter": meter, "duration": d, "chords": lst, "entries": [(g[0], str(g[1])) for g in got][:8]})
    elif kind == "instr":
        rng = ctx.rng("instr")
        for instrument in INSTRUMENTS[1:]:
            lo, hi = RANGES[instrument]
            for p in list(range(max(0, lo - 3), lo + 4)) + list(range(hi - 3, hi + 4)) + [60, 64]:
                for form in ("note", "container", "name-list"):
                    n = Note(p)
                    if form == "note":
                        obj = n
                    elif form == "container":
                        obj = NoteContainer([n])
                    else:
                        obj = [n]
                    t = Track(make_instrument(instrument))
                    m = TrackModel()
                    hist = [("add_notes", form, repr(n))]
                    step_add(ctx, t, m, instrument, obj, [p], lo <= p <= hi, MU.Val(4), hist)
                    ctx.case(("instr", instrument, p, form))
            for v in (1, 2, 4, 8):
                t = Track(make_instrument(instrument))
                m = TrackModel()
                hist = [("add_notes", "rest", v)]
                step_add(ctx, t, m, instrument, None, None, True, MU.Val(v), hist)
                ctx.case(("instr-rest", instrument, v))
            # a container whose middle note was replaced after construction (item assignment does not re-sort)
            for bad_pitch in (hi + 5, lo - 5):
                if bad_pitch < 0:
                    continue
                mid = (lo + hi) // 2
                nc = NoteContainer([Note(mid - 4), Note(mid), Note(mid + 4)])
                nc[1] = Note(bad_pitch)
                t = Track(make_instrument(instrument))
                m = TrackModel()
                hist = [("add_notes", "container with nc[1] = out-of-range note", [mid - 4, bad_pitch, mid + 4])]
                step_add(ctx, t, m, instrument, nc, sorted([mid - 4, bad_pitch, mid + 4]), False, MU.Val(4), hist)
                ctx.case(("instr-unsorted", instrument, bad_pitch))
            # the range of an instrument that has already judged some notes is changed
            ins = make_instrument(instrument)
            t = Track(ins)
            m = TrackModel()
            mid = (lo + hi) // 2
            hist = [("add_notes", "note", mid), ("add_notes", "note", lo)]
            step_add(ctx, t, m, instrument, Note(mid), [mid], True, MU.Val(8), hist[:1])
            step_add(ctx, t, m, instrument, Note(lo), [lo], True, MU.Val(8), hist)
            st, rr = ctx.call(ins.set_range, [Note(mid + 1), Note(mid + 12)])
            RANGES["_tmp"] = (mid + 1, mid + 12)
            for (p, inr) in ((mid, False), (lo, False), (mid + 1, True), (mid + 12, True), (mid + 13, False)):
                hist = hist + [("add_notes after set_range [%d, %d]" % (mid + 1, mid + 12), p)]
                if st == "ok":
                    step_add(ctx, t, m, "_tmp", Note(p), [p], inr, MU.Val(8), hist)
            del RANGES["_tmp"]
            ctx.case(("instr-set_range", instrument))
        ctx.sample({"Track(Piano()).add_notes(Note('C',9))": repr(ctx.call(Track(Piano()).add_notes, Note("C", 9))[1])})
    else:
        rng = ctx.rng("comp")
        for ci in range(shard["n"]):
            c = Composition()
            # a second live composition that gets tracks in between: what it selects is its own business (seed C14-11A)
            other = Composition()
            model = []      # list of TrackModel
            tracks = []
            selected = []
            hist = []
            ok = True
            for step in range(rng.randint(1, 14)):
                r = rng.random()
                if r < 0.3 or not tracks:
                    t = Track()
                    m = TrackModel()
                    if rng.random() < 0.7:
                        meter = rng.choice([(4, 4), (3, 4)])
                        t.add_bar(Bar("C", meter))
                        m.add_bar("C", meter)
                        if rng.random() < 0.5:
                            # an eighth first: later quarters meet a bar that is not full but has less than a quarter left
                            t.add_notes("B", 8)
                            m.add(Fraction(1, 8), 8, [pitch("B", 4)])
                    if rng.random() < 0.5:
                        st, rr = ctx.call(c.add_track, t)
                        hist.append("add_track")
                    else:
                        st, rr = ctx.call(lambda: c + t)
                        hist.append("+ track")
                    tracks.append(t)
                    model.append(m)
                    selected = [len(tracks) - 1]
                    if st != "ok":
                        ctx.check("composition: adding a track is accepted", False, {"history": hist}, None, repr(rr))
                        ok = False
                        break
                elif r < 0.5 and rng.random() < 0.5:
                    other.add_track(Track())
                    if rng.random() < 0.3:
                        other.add_note("D")
                    hist.append("another composition gets a track")
                elif r < 0.4 and len(tracks) > 1:
                    selected = sorted(rng.sample(range(len(tracks)), rng.randint(1, len(tracks))))
                    c.selected_tracks = list(selected)
                    hist.append(("select", selected))
                else:
                    n, o = rng.choice(["C", "E", "G", "A"]), rng.choice([4, 5])
                    obj = rng.choice([n, Note(n, o), NoteContainer([Note(n, o)])])
                    ps = [pitch(n, 4)] if isinstance(obj, str) else [pitch(n, o)]
                    if rng.random() < 0.5:
                        st, rr = ctx.call(c.add_note, obj)
                        hist.append(("add_note", repr(obj)))
                    else:
                        st, rr = ctx.call(lambda: c + obj)
                        hist.append(("+ note", repr(obj)))
                    for i in selected:
                        model[i].add(Fraction(1, 4), 4, ps)
                    if st != "ok":
                        ctx.check("composition: adding a note is accepted", False, {"history": hist}, None, repr(rr))
                        ok = False
                        break
                w = {"history": hist}
                good = len(c.tracks) == len(tracks) and all(a is b for a, b in zip(c.tracks, tracks))
                ctx.check("composition: tracks are appended in order", good, w, len(tracks), len(c.tracks), mechanism="tracks")
                ctx.check("composition: adding a track selects it", hist[-1] not in ("add_track", "+ track") or
                          list(c.selected_tracks) == [len(tracks) - 1], w, [len(tracks) - 1], list(c.selected_tracks), mechanism="selected")
                reach_ok = all(close(flat_track(t), m.flat()) for t, m in zip(tracks, model))
                ctx.check("composition: a note reaches exactly the selected tracks", reach_ok, w, [m.flat()[-1:] for m in model],
                          [flat_track(t)[-1:] for t in tracks], mechanism="reach")
                st, ln = ctx.call(len, c)
                ctx.check("composition: length and indexing follow the tracks", st == "ok" and ln == len(tracks) and
                          all(c[i] is tracks[i] for i in range(len(tracks))), w, len(tracks), repr(ln), mechanism="len")
                if not (good and reach_ok):
                    ok = False
                    break
            if ok:
                # equality follows the contents: rebuild an equal composition, then make it differ
                c2 = Composition()
                for m in model:
                    t2 = Track()
                    for (k, bm) in m.bars:
                        b = Bar(k, bm.meter)
                        for e in bm.entries:
                            b.place_notes(None if e[2] is None else NoteContainer([Note(p) for p in e[2]]), e[1])
                        t2.add_bar(b)
                    c2.add_track(t2)
                w = {"history": hist}
                for t, t2 in zip(tracks, c2.tracks):
                    st, eq = ctx.call(lambda: t == t2)
                    ctx.check("composition: tracks with equal contents are equal", st == "ok" and bool(eq) is True, w, True, repr(eq),
                              mechanism="track-eq")
                st, eq = ctx.call(lambda: c == c2)
                ctx.check("composition: compositions with equal tracks are equal", st == "ok" and bool(eq) is True, w, True, repr(eq),
                          mechanism="composition-eq")
                st, ne = ctx.call(lambda: c != c2)
                ctx.check("composition: != is the negation of ==", st == "ok" and bool(ne) is False, w, False, repr(ne),
                          mechanism="composition-ne")
                if c2.tracks:
                    tr = c2.tracks[-1]
                    if not tr.bars:
                        tr.add_bar(Bar("C", (4, 4)))
                    extra = Bar("C", (4, 4))
                    extra.place_notes(Note("D", 7), 4)
                    tr.add_bar(extra)
                    st, eq = ctx.call(lambda: c == c2)
                    ctx.check("composition: compositions with different tracks are not equal", st == "ok" and bool(eq) is False, w, False,
                              repr(eq), mechanism="composition-neq")
                    st, eq = ctx.call(lambda: tracks[-1] == tr)
                    ctx.check("composition: tracks with different contents are not equal", st == "ok" and bool(eq) is False, w, False,
                              repr(eq), mechanism="track-neq")
            if ci < 20:
                # same shape, a rest where the other track has a note: unequal, and comparing must not raise
                ta, tb = Track(), Track()
                for tt, second in ((ta, None), (tb, NoteContainer(["E"]))):
                    b = Bar("C", (4, 4))
                    b.place_notes("C", 4), b.place_notes(second, 4)
                    tt.add_bar(b)
                st, eq = ctx.call(lambda: ta == tb)
                ctx.check("composition: a track with a rest differs from one with a note in its place", st == "ok" and bool(eq) is False,
                          {"a": repr(ta), "b": repr(tb)}, False, repr(eq), mechanism="track-eq-rest")
                st, eq = ctx.call(lambda: tb == ta)
                ctx.check("composition: a track with a rest differs from one with a note in its place", st == "ok" and bool(eq) is False,
                          {"a": repr(tb), "b": repr(ta)}, False, repr(eq), mechanism="track-eq-rest")
            if ci < 40:
                # the same bars in another order, or with other multiplicities: other contents
                def bar_of(names):
                    b = Bar("C", (4, 4))
                    for nm in names:
                        b.place_notes(nm, 4)
                    return b
                X, Y, Z = ["C", "E", "G", "C"], ["D", "F", "A", "D"], ["E", "G"]
                for (sa, sb) in (([X, Y], [Y, X]), ([X, X, Y], [X, Y, Y]), ([X, Y, Z], [Z, X, Y]), ([X, Y, X], [X, X, Y])):
                    ta, tb = Track(), Track()
                    for q in sa:
                        ta.add_bar(bar_of(q))
                    for q in sb:
                        tb.add_bar(bar_of(q))
                    for (p1, p2) in ((ta, tb), (tb, ta)):
                        st, eq = ctx.call(lambda: p1 == p2)
                        ctx.check("composition: tracks with different contents are not equal", st == "ok" and bool(eq) is False,
                                  {"bars_a": sa, "bars_b": sb}, False, repr(eq), mechanism="track-neq-order")
                        st, ne = ctx.call(lambda: p1 != p2)
                        ctx.check("composition: != is the negation of ==", st == "ok" and bool(ne) is True, {"bars_a": sa, "bars_b": sb}, True,
                                  repr(ne), mechanism="track-ne-order")
                    ca, cb = Composition(), Composition()
                    ca.add_track(ta), cb.add_track(tb)
                    st, eq = ctx.call(lambda: ca == cb)
                    ctx.check("composition: compositions with different tracks are not equal", st == "ok" and bool(eq) is False,
                              {"bars_a": sa, "bars_b": sb}, False, repr(eq), mechanism="composition-neq-order")
                # and tracks in another order inside a composition
                t1, t2_ = Track(), Track()
                t1.add_bar(bar_of(X)), t2_.add_bar(bar_of(Y))
                ca, cb = Composition(), Composition()
                ca.add_track(t1), ca.add_track(t2_), cb.add_track(t2_), cb.add_track(t1)
                st, eq = ctx.call(lambda: ca == cb)
                ctx.check("composition: compositions with different tracks are not equal", st == "ok" and bool(eq) is False, {"tracks": "swapped"},
                          False, repr(eq), mechanism="composition-neq-track-order")
                # assignment by index and '+ Bar': the sequence read back by indexing, iteration and len is the one assigned
                rngi = ctx.rng("index-assign-%d" % ci)
                pool = [X, Y, Z, ["F", "A"], ["G"]]
                want = [rngi.choice(pool) for _ in range(rngi.randint(1, 5))]
                tr = Track()
                for q in want:
                    if rngi.random() < 0.5:
                        tr + bar_of(q)
                    else:
                        tr.add_bar(bar_of(q))
                trail = [("bars", [list(q) for q in want])]
                for step in range(rngi.randint(1, 4)):
                    i = rngi.randrange(-len(want), len(want))
                    q = rngi.choice(pool)
                    nb = bar_of(q)
                    st, r = ctx.call(tr.__setitem__, i, nb)
                    want[i] = q
                    trail.append(("track[%d] = bar" % i, list(q)))
                    got = [[e[2].get_note_names()[0] for e in b] for b in tr]
                    ctx.check("track: length and indexing follow the bars", st == "ok" and len(tr) == len(want) and got == [list(x) for x in want]
                              and tr[i] is nb, {"history": trail}, [list(x) for x in want], got if st == "ok" else repr(r), mechanism="index-assign")
                # ... and the library's own report of "every bar except the last is full" on tracks put together bar by bar
                for rep in range(3):
                    tb = Track()
                    fulls = []
                    for _k in range(rngi.randint(1, 5)):
                        full = rngi.random() < 0.6
                        tb.add_bar(bar_of(X if full else rngi.choice([Z, ["G"], ["F", "A"], []])))
                        fulls.append(full)
                    want_ok = all(fulls[:-1])
                    st, integ = ctx.call(tb.test_integrity)
                    ctx.check("track: every bar except the last is full", st == "ok" and bool(integ) == want_ok,
                              {"bars_full": fulls, "assembled_with": "add_bar"}, want_ok, repr(integ), mechanism="integrity-assembled")
                st, r = ctx.call(tr.__setitem__, 0, "not a bar")
                ctx.check("track: length and indexing follow the bars", st == "exc" and len(tr) == len(want),
                          {"history": trail + [("track[0] = 'not a bar'",)]}, "refused, nothing changed", repr(r), mechanism="index-assign-refused")
                cc = Composition()
                tlist = [Track() for _ in range(rngi.randint(1, 4))]
                for t_ in tlist:
                    cc.add_track(t_)
                for step in range(rngi.randint(1, 3)):
                    i = rngi.randrange(-len(tlist), len(tlist))
                    nt = Track()
                    nt.add_bar(bar_of(rngi.choice(pool)))
                    st, r = ctx.call(cc.__setitem__, i, nt)
                    tlist[i] = nt
                    ctx.check("composition: length and indexing follow the tracks", st == "ok" and len(cc) == len(tlist)
                              and all(cc[j] is tlist[j] for j in range(len(tlist))), {"history": "composition[%d] = track" % i}, len(tlist),
                              repr(r) if st != "ok" else len(cc), mechanism="index-assign")
            ctx.case(("comp", repr(hist)), nontrivial=len(hist) >= 2)
            if ci == 0:
                ctx.sample({"history": hist[:8], "tracks": len(tracks)})
