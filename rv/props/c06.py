"""C06 Chord shorthand builds exactly the chord its formula prescribes on every root."""
from mingus.core import chords
from mingus.core.mt_exceptions import NoteFormatError, FormatError

from rv import contracts
from rv.models import theory as T
from rv.models import chordtab as CT

ID = "C06"
ANCHOR_FILES = ["mingus/core/chords.py", "mingus/core/intervals.py"]
REQUIRED_REACH = ["core.chords.from_shorthand", "core.chords.diminished_seventh", "core.chords.lydian_dominant_seventh",
                  "core.chords.hendrix_chord", "core.chords.eleventh", "core.chords.dominant_flat_five"]
REQUIRED_CLAUSES = ["formula:", "builder:", "alias:", "slash:", "polychord:", "reject:", "tables:"]
RULE = ("(shorthand key of the live table, root) for roots = letter + accidentals; alias spellings; slash basses; "
        "polychord partners; lists; malformed strings by class (bad first character, unknown suffix, invalid bass); "
        "non-trivial = root with an accidental or a shorthand other than the plain major triad; distinct by the "
        "shorthand string given to the library")


def shards(tier, seed):
    out = []
    for L in T.LETTERS:
        out.append({"name": "formula-" + L, "kind": "formula", "letter": L, "weight": 5, "after_history": L in "CB", "before_history": L in "DF",
                    "roots": "pure3" if tier == "quick" else "all3+pure6"})
    out.append({"name": "tables", "kind": "tables", "weight": 1})
    out.append({"name": "aliases", "kind": "aliases", "weight": 4,
                "roots": ["C", "Bb", "F#", "E", "Abb", "G##", "D"] if tier == "quick" else list(T.pure_names(2))})
    out.append({"name": "slash", "kind": "slash", "basses": 5 if tier == "quick" else 35, "weight": 4})
    n = 500 if tier == "quick" else 4000
    out.append({"name": "polychords", "kind": "poly", "n": n, "weight": 4})
    m = 2400 if tier == "quick" else 20000
    for i in range(1 if tier == "quick" else 4):
        out.append({"name": "malformed-%d" % i, "kind": "malformed", "n": m // (1 if tier == "quick" else 4), "weight": 3})
    return out


def attach(ctx, shard):
    # M-valid-out on every named builder
    for name in CT.BUILDERS:
        if hasattr(chords, name):
            contracts.ensure(chords, name, "M-valid-out chord builder", contracts.c_chord_builder_result)


def live_keys(ctx):
    ks = sorted(chords.chord_shorthand.keys())
    for k in ks:
        if k not in CT.FORMULA:
            ctx.unsure("shorthand %r of the live table has no formula in the reference table" % k)
    return [k for k in ks if k in CT.FORMULA]


def roots_for(spec, letter):
    i = T.LETTERS.index(letter)
    if spec == "pure3":
        return [T.spell(i, n) for n in range(-3, 4)]
    r = [letter + a for a in T.acc_strings(3)]
    r += [T.spell(i, n) for n in range(-6, 7) if abs(n) > 3]
    return r


def check_formula(ctx, root, sh, text=None, clause="formula: root first, then each note on its letter at its distance",
                  mech=None):
    text = root + sh if text is None else text
    st, c = ctx.call(chords.from_shorthand, text)
    ok = st == "ok" and CT.matches(root, sh, c)
    ctx.check(clause, ok, {"shorthand": text}, {"root": root, "then": [(T.LETTERS[L], P) for (L, P) in CT.targets(root, sh)]},
              repr(c), mechanism=mech or ("formula:" + sh))
    return c if st == "ok" else None


def run(shard, ctx):
    kind = shard["kind"]
    if kind == "formula":
        ks = live_keys(ctx)
        roots = roots_for(shard["roots"], shard["letter"])
        for sh in ks:
            for r in roots:
                check_formula(ctx, r, sh)
                ctx.case(("chord", r + sh), nontrivial=(len(r) > 1 or sh not in ("", "M")))
        for bname, sh in sorted(CT.BUILDERS.items()):
            f = getattr(chords, bname, None)
            if f is None:
                ctx.unsure("builder %s is missing" % bname)
                continue
            for r in roots:
                st, c = ctx.call(f, r)
                ctx.check("builder: named builder gives the formula chord", st == "ok" and CT.matches(r, sh, c),
                          {"builder": bname, "root": r}, None, repr(c), mechanism="builder:" + bname)
                ctx.case(("builder", bname, r))
        ctx.note_exhaustive("live shorthands x roots %s on %s" % (shard["roots"], shard["letter"]), len(ks) * len(roots))
        ctx.sample({"from_shorthand": shard["letter"] + "bdim7", "chord": chords.from_shorthand(shard["letter"] + "bdim7")})
    elif kind == "tables":
        kb, km = set(chords.chord_shorthand), set(chords.chord_shorthand_meaning)
        ctx.check("tables: constructible shorthands == shorthands with a textual meaning", kb == km,
                  {"tables": "chord_shorthand vs chord_shorthand_meaning"}, None,
                  {"meaning_without_builder": sorted(km - kb), "builder_without_meaning": sorted(kb - km)},
                  mechanism="key-sets")
        ctx.case(("tables", "keysets"))
        bymeaning = {}
        for k, v in chords.chord_shorthand_meaning.items():
            bymeaning.setdefault(v, []).append(k)
        roots = list(T.pure_names(2))
        for meaning, ks in sorted(bymeaning.items()):
            ks = sorted(k for k in ks if k in chords.chord_shorthand)
            for r in roots:
                built = []
                for k in ks:
                    st, c = ctx.call(chords.from_shorthand, r + k)
                    built.append(c if st == "ok" else repr(c))
                ok = all(b == built[0] for b in built)
                ctx.check("tables: shorthands with the same meaning build the same chord", ok,
                          {"meaning": meaning.strip(), "shorthands": ks, "root": r}, None, built,
                          mechanism="same-meaning:" + meaning.strip())
                ctx.case(("meaning", meaning, r), nontrivial=len(ks) > 1)
        for s in ("NC", "N.C."):
            st, c = ctx.call(chords.from_shorthand, s)
            ctx.check("tables: 'NC' is the empty chord", st == "ok" and c == [], {"shorthand": s}, [], repr(c))
            ctx.case(("nc", s))
        rng = ctx.rng("lists")
        ks = live_keys(ctx)
        for i in range(200):
            items = [rng.choice(roots) + rng.choice(ks) for _ in range(rng.randint(0, 6))]
            if rng.random() < 0.3:
                items.append("NC")
            arg = list(items)
            st, c = ctx.call(chords.from_shorthand, arg)
            exp = [chords.from_shorthand(x) for x in items]
            ctx.check("tables: a list of shorthands maps element-wise", st == "ok" and c == exp and arg == items,
                      {"shorthands": items}, exp, repr(c), mechanism="list")
            ctx.case(("list", tuple(items)), nontrivial=len(items) > 1)
        ctx.sample({"same meaning": bymeaning.get(" dominant ninth"), "NC": chords.from_shorthand("NC")})
    elif kind == "aliases":
        ks = live_keys(ctx)
        n = 0
        for sh in ks:
            for al in CT.aliases(sh):
                for r in shard["roots"]:
                    check_formula(ctx, r, sh, text=r + al, clause="alias: min/mi/- and maj/ma are interchangeable with m and M",
                                  mech="alias:" + sh)
                    ctx.case(("alias", r + al))
                    n += 1
        ctx.note_exhaustive("alias spellings of every shorthand x %d roots" % len(shard["roots"]), n)
        ctx.sample({"from_shorthand('Amin7')": chords.from_shorthand("Amin7"),
                    "from_shorthand('C-/maj7')": chords.from_shorthand("C-/maj7")})
    elif kind == "slash":
        ks = live_keys(ctx)
        rng = ctx.rng("slash")
        basses = list(T.pure_names(2))
        rng.shuffle(basses)
        basses = basses[:shard["basses"]]
        roots = ["C", "F#", "Bb", "Ebb", "G##"]
        for sh in ks:
            for r in roots:
                own = chords.from_shorthand(r + sh)
                for b in basses + [r, own[-1], own[len(own) // 2]]:      # also the root and notes of the chord as bass
                    text = r + sh + "/" + b
                    st, c = ctx.call(chords.from_shorthand, text)
                    ok = st == "ok" and isinstance(c, list) and len(c) >= 1 and c[0] == b and CT.matches(r, sh, c[1:])
                    ctx.check("slash: bass note followed by the chord", ok, {"shorthand": text}, [b, "+ chord"], repr(c),
                              mechanism="slash")
                    ctx.case(("slash", text))
        ctx.sample({"from_shorthand('Am/M7/G#')": chords.from_shorthand("Am/M7/G#")})
    elif kind == "poly":
        ks = live_keys(ctx)
        rng = ctx.rng("poly")
        roots = list(T.pure_names(2))
        for i in range(shard["n"]):
            r1, r2 = rng.choice(roots), rng.choice(roots)
            s1, s2 = rng.choice(ks), rng.choice(ks)
            if i % 5 == 0:        # force the "note equal to the one just before it" situation
                y = chords.from_shorthand(r2 + s2)
                r1 = y[-1]
            x, y = chords.from_shorthand(r1 + s1), chords.from_shorthand(r2 + s2)
            t1, t2 = r1 + s1, r2 + s2
            if i % 5 and rng.random() < 0.3:
                # either half may itself be a slash chord (its bass note comes first)
                if rng.random() < 0.6:
                    b1 = rng.choice(roots)
                    x, t1 = [b1] + x, t1 + "/" + b1
                if rng.random() < 0.5:
                    b2 = rng.choice(roots)
                    y, t2 = [b2] + y, t2 + "/" + b2
            if i % 3 == 0:
                # alias spellings inside either half (min/mi/- for m, maj/ma for M)
                def respell(t, r_, s_):
                    al = CT.aliases(s_)
                    return t.replace(r_ + s_, r_ + rng.choice(al), 1) if al else t
                t1, t2 = respell(t1, r1, s1), respell(t2, r2, s2)
            text = t1 + "|" + t2
            exp = CT.polychord(x, y)
            st, c = ctx.call(chords.from_shorthand, text)
            ctx.check("polychord: 'X|Y' is Y's notes then X's notes, immediate repeats dropped", st == "ok" and c == exp,
                      {"shorthand": text}, exp, repr(c), mechanism="polychord")
            ok = CT.matches(r1, s1, x[1:] if "/" in t1[len(r1 + s1):] else x) and CT.matches(r2, s2, y[1:] if "/" in t2[len(r2 + s2):] else y)
            ctx.check("polychord: both halves are formula chords", ok, {"shorthand": text}, None, [x, y])
            ctx.case(("poly", text))
            if i % 4 == 0:
                # three parts: 'X|Y|Z' is X over the polychord Y|Z
                r3, s3 = rng.choice(roots), rng.choice(ks)
                z = chords.from_shorthand(r3 + s3)
                text3 = text + "|" + r3 + s3
                exp3 = CT.polychord(x, CT.polychord(y, z))
                st, c = ctx.call(chords.from_shorthand, text3)
                ctx.check("polychord: 'X|Y' is Y's notes then X's notes, immediate repeats dropped", st == "ok" and c == exp3,
                          {"shorthand": text3}, exp3, repr(c), mechanism="polychord-three-parts")
                ctx.case(("poly3", text3))
        ctx.sample({"from_shorthand('Dm|G')": chords.from_shorthand("Dm|G")})
    else:
        ks = set(chords.chord_shorthand.keys())
        rng = ctx.rng("malformed")
        roots = list(T.pure_names(2))
        sufalpha = "mM79651#b+susdimaugxoh "
        for i in range(shard["n"]):
            cls = i % 4
            if cls == 3:
                # a polychord or slash chord with a malformed half is rejected as a whole
                good = rng.choice(roots) + rng.choice(sorted(ks))
                badhalf = rng.choice(["Hm", "Gfoo", "cm7", "C/H", "Xdim"])
                s = (good + "|" + badhalf) if rng.random() < 0.5 else (badhalf + "|" + good)
                st, v = ctx.call(chords.from_shorthand, s)
                ctx.check("reject: an unknown shorthand raises the format error", st == "exc" and isinstance(v, (FormatError, NoteFormatError)),
                          {"shorthand": s}, "FormatError / NoteFormatError", repr(v), mechanism="reject:polychord-half")
            elif cls == 0:
                # first character is not A-G
                first = rng.choice("abcdefghHIJKLOPRSTUVXYZmM-0123456789#! ♯")
                s = first + "".join(rng.choice("CDE#bm7M/|") for _ in range(rng.randint(0, 5)))
                if s in ("NC", "N.C."):
                    continue
                st, v = ctx.call(chords.from_shorthand, s)
                ctx.check("reject: a first character outside A-G raises the note-format error",
                          st == "exc" and isinstance(v, NoteFormatError), {"shorthand": s}, "NoteFormatError", repr(v),
                          mechanism="reject:first-char")
            elif cls == 1:
                # unknown suffix
                suf = "".join(rng.choice(sufalpha) for _ in range(rng.randint(1, 6)))
                if suf[0] in "#b" or CT.normalise_alias(suf) in ks:
                    continue
                s = rng.choice(roots) + suf
                st, v = ctx.call(chords.from_shorthand, s)
                ctx.check("reject: an unknown shorthand raises the format error",
                          st == "exc" and isinstance(v, FormatError), {"shorthand": s}, "FormatError", repr(v),
                          mechanism="reject:unknown-suffix")
            else:
                bass = rng.choice(["H", "g", "c", "x", "1", "Gm", "G7", "C♯", "b", "#", "G ", " G", "do", "Cx", "h#"])
                s = rng.choice(roots) + rng.choice(sorted(ks)) + "/" + bass
                st, v = ctx.call(chords.from_shorthand, s)
                ctx.check("reject: an invalid bass note raises the note-format error",
                          st == "exc" and isinstance(v, NoteFormatError), {"shorthand": s}, "NoteFormatError", repr(v),
                          mechanism="reject:bass")
            ctx.case(("bad", s))
        # a dash between two digits is still the alias of 'm' (7-5 reads 7m5, which is no shorthand), not a flat
        for root_ in ("C", "F#", "Bb"):
            for tail in ("7-5", "7-9", "m7-5", "sus4-9", "9-5", "13-9", "7-11", "6-9", "M7-5"):
                for s in (root_ + tail, root_ + tail + "/G", "Dm|" + root_ + tail, root_ + tail + "|Am"):
                    if (tail.replace("-", "m")) in chords.chord_shorthand:
                        continue
                    st, v = ctx.call(chords.from_shorthand, s)
                    ctx.check("reject: an unknown shorthand raises the format error", st == "exc" and isinstance(v, (FormatError, NoteFormatError)),
                              {"shorthand": s}, "FormatError / NoteFormatError", repr(v), mechanism="reject:dash-between-digits")
                    ctx.case(("bad", s))
        # a known chord with a tail that string formatting, regular expressions or line handling might swallow, and such
        # text in the place of the root
        for hs in T.HOSTILE_STRINGS:
            tail = hs[1:] if hs[0] in "Cc" else hs
            if not tail or tail in ("|", "+"):       # ('+' is a shorthand character: C+, Am7+)
                continue
            for good in ("Am7", "C", "F#dim7", "Bb6/9", "Dm|G7"):
                s = good + tail
                st, v = ctx.call(chords.from_shorthand, s)
                ctx.check("reject: an unknown shorthand raises the format error", st == "exc" and isinstance(v, (FormatError, NoteFormatError)),
                          {"shorthand": s}, "FormatError / NoteFormatError", repr(v), mechanism="reject:hostile-tail")
                ctx.case(("bad", s))
            if hs[0] not in "ABCDEFG":
                st, v = ctx.call(chords.from_shorthand, hs + "m7")
                ctx.check("reject: a first character outside A-G raises the note-format error", st == "exc" and isinstance(v, NoteFormatError),
                          {"shorthand": hs + "m7"}, "NoteFormatError", repr(v), mechanism="reject:hostile-root")
        # after all those refusals the ordinary chords are still built
        for text, (r_, s_) in (("Dm7", ("D", "m7")), ("F#dim7", ("F#", "dim7")), ("Bb13", ("Bb", "13"))):
            check_formula(ctx, r_, s_, text=text, clause="formula: root first, then each note on its letter at its distance",
                          mech="after-refusals")
        for text in ("Dm|G", "Am7|G7", "C|D|E", "Am/E"):
            st, c = ctx.call(chords.from_shorthand, text)
            ctx.check("polychord: both halves are formula chords", st == "ok" and isinstance(c, list) and len(c) >= 4, {"shorthand": text,
                      "after": "%d refused strings" % shard["n"]}, "a chord", repr(c), mechanism="after-refusals")
        ctx.sample({"shorthand": "Cfoo", "raises": repr(ctx.call(chords.from_shorthand, "Cfoo")[1])})
