"""C16 MIDI output is well-formed SMF that denotes exactly the music written."""
import os
import shutil
import tempfile

from mingus.midi import midi_file_out as MO
from mingus.midi.midi_track import MidiTrack

from rv.models import smf
from rv.models import midimodel as MM

ID = "C16"
ANCHOR_FILES = ["mingus/midi/midi_track.py", "mingus/midi/midi_file_out.py", "mingus/midi/midi_events.py"]
REQUIRED_REACH = ["midi.midi_file_out.write_Note", "midi.midi_file_out.write_NoteContainer", "midi.midi_file_out.write_Bar",
                  "midi.midi_file_out.write_Track", "midi.midi_file_out.write_Composition", "midi.midi_track.MidiTrack.play_Bar",
                  "midi.midi_track.MidiTrack.set_instrument", "midi.midi_track.MidiTrack.key_signature_event",
                  "midi.midi_track.MidiTrack.time_signature_event", "midi.midi_track.MidiTrack.int_to_varbyte",
                  "midi.midi_track.MidiTrack.set_tempo_event", "midi.midi_track.MidiTrack.track_name_event"]
REQUIRED_CLAUSES = ["smf:", "notes:", "meta:", "instrument:", "vlq:"]
# (placement clauses are deliberately weak: the statement fixes values and the first note's channel, and that the
#  instrument change belongs to the first note; it does not fix the tick of tempo / signature / instrument events)
RULE = ("random and systematic compositions / tracks / bars / containers / notes (1-4 tracks, all 30 keys, 8 meters, values "
        "with integral and with rounding tick lengths, chords <= 5, rests in every position, channels 0-15, velocities "
        "1-127 and a velocity-0 class, MIDI instruments, repeat 0-2) written by the five write_* functions and decoded "
        "by an independent SMF reader; integers for the variable-length encoder; non-trivial = every written file; "
        "distinct by the bytes produced; distinct states = distinct decoded note-event streams")


def shards(tier, seed):
    out = []
    n = 4000 if tier == "quick" else 60000
    parts = 8 if tier == "quick" else 16
    for i in range(parts):
        out.append({"name": "files-%d" % i, "kind": "files", "n": n // parts, "weight": 8})
    out.append({"name": "systematic", "kind": "systematic", "weight": 3})
    if tier == "quick":
        out.append({"name": "vlq", "kind": "vlq", "ranges": [[0, 70000]], "random": 2000, "weight": 2})
    else:
        step = (2 ** 21) // 12
        for i in range(12):
            out.append({"name": "vlq-%d" % i, "kind": "vlq", "ranges": [[i * step, (i + 1) * step if i < 11 else 2 ** 21]],
                        "random": 200000 // 12, "weight": 5})
    return out


class Scratch(object):
    def __enter__(self):
        self.d = tempfile.mkdtemp(prefix="rv-c16-")
        return os.path.join(self.d, "out.mid")

    def __exit__(self, *a):
        shutil.rmtree(self.d, ignore_errors=True)


def note_events(track):
    return sorted((e["tick"], e["kind"], e["ch"], e["d1"], e["d2"]) for e in track if e["kind"] in ("on", "off"))


def check_alternation(ctx, track, w):
    """per (channel, key): strict on/off alternation in stream order; nothing sounding at the end"""
    sounding = {}
    ok, why = True, None
    for e in track:
        if e["kind"] not in ("on", "off"):
            continue
        k = (e["ch"], e["d1"])
        if e["kind"] == "on":
            if sounding.get(k):
                ok, why = False, {"re-triggered while sounding": k, "tick": e["tick"]}
                break
            sounding[k] = True
        else:
            if not sounding.get(k):
                ok, why = False, {"stopped but not sounding": k, "tick": e["tick"]}
                break
            sounding[k] = False
    if ok and any(sounding.values()):
        ok, why = False, {"left sounding": sorted(k for k, v in sounding.items() if v)}
    ctx.check("notes: per channel and key on/off alternate, nothing hangs or overlaps itself", ok, w, None, why, mechanism="alternation")


def decode(ctx, path, w, ntracks):
    data = open(path, "rb").read()
    try:
        f = smf.parse(data)
    except smf.SMFError as e:
        ctx.check("smf: the bytes parse under the independent Standard MIDI File reader", False, w, "well-formed SMF", str(e),
                  mechanism="malformed:" + str(e).split(" at offset")[0][:40])
        return None, data
    ctx.check("smf: the bytes parse under the independent Standard MIDI File reader", True, w)
    ctx.check("smf: one header declaring format 1, 72 ticks per quarter and as many tracks as chunks follow",
              (f["format"], f["division"], f["ntracks"]) == (1, 72, ntracks) and f["alien_chunks"] == 0, w, (1, 72, ntracks),
              (f["format"], f["division"], f["ntracks"]), mechanism="header")
    return f, data


def check_track(ctx, tr, tl, w, bpm, name=None, instrument=None, metas=True, first_tempo=True):
    """tr: decoded events; tl: model timeline"""
    exp = sorted(tl["events"])
    got = note_events(tr)
    ok = got == exp
    detail = None
    if not ok:
        missing = [x for x in exp if x not in got][:3]
        extra = [x for x in got if x not in exp][:3]
        detail = {"missing": missing, "unexpected": extra, "expected_count": len(exp), "decoded_count": len(got)}
        shape_kind = "count" if len(exp) != len(got) else "time-or-value"
    ctx.check("notes: exactly one note-on per written note at its entry's tick and one matching note-off at the entry's end",
              ok, w, None, detail, mechanism="note-stream:" + ("ok" if ok else shape_kind))
    check_alternation(ctx, tr, w)
    if first_tempo:
        tempo = [e for e in tr if e["kind"] == "meta" and e["type"] == 0x51]
        ons = [e["tick"] for e in tr if e["kind"] == "on"]
        okt = bool(tempo) and tempo[0]["tick"] <= (ons[0] if ons else tempo[0]["tick"]) and len(tempo[0]["data"]) == 3 and \
            int.from_bytes(tempo[0]["data"], "big") == 60000000 // bpm
        ctx.check("meta: tempo = 60000000 div bpm as three bytes, not after the first note", okt, dict(w, bpm=bpm), 60000000 // bpm,
                  [(e["tick"], e["data"].hex()) for e in tempo][:3], mechanism="tempo")
    if tl.get("tempos") is not None and first_tempo:
        # containers that carry a tempo change: one tempo event each, at the tick where the container starts, with its value
        # (the tempo the file was written with comes first, see above)
        tempo = [e for e in tr if e["kind"] == "meta" and e["type"] == 0x51]
        exp_t = [(tk, 60000000 // b) for (tk, b) in tl["tempos"]]
        got_t = [(e["tick"], int.from_bytes(e["data"], "big")) for e in tempo[1:]]
        ctx.check("meta: a container carrying a tempo emits it at the container's own tick", got_t == exp_t, w, exp_t[:6], got_t[:6],
                  mechanism="tempo-change")
    if name is not None:
        nm = [e for e in tr if e["kind"] == "meta" and e["type"] == 0x03]
        ctx.check("meta: track name is emitted", bool(nm) and all(e["data"] == name.encode("ascii") for e in nm), dict(w, name=name), name,
                  [e["data"] for e in nm][:3], mechanism="track-name")
    if metas:
        ts = [e for e in tr if e["kind"] == "meta" and e["type"] == 0x58]
        ks = [e for e in tr if e["kind"] == "meta" and e["type"] == 0x59]
        bars = tl["bars"]
        exp_ts = [bytes([b[3][0], b[3][1].bit_length() - 1]) for b in bars]
        exp_ks = [bytes(MM.key_signature_bytes(b[2])) for b in bars]
        ctx.check("meta: one time signature per written bar with the bar's count and log2 unit",
                  [e["data"][:2] for e in ts] == exp_ts and all(len(e["data"]) == 4 for e in ts), w, [x.hex() for x in exp_ts][:6],
                  [e["data"].hex() for e in ts][:6], mechanism="time-signature")
        ctx.check("meta: one key signature per written bar with the signed accidental count and major/minor flag of the bar's key",
                  [e["data"] for e in ks] == exp_ks, dict(w, keys=[b[2] for b in bars][:6]), [x.hex() for x in exp_ks][:6],
                  [e["data"].hex() for e in ks][:6], mechanism="key-signature")
        # placement: not before the previous bar's last note-off, not after this bar's first note-on
        okp = True
        if len(ts) == len(bars) and len(ks) == len(bars):
            prev_off = 0
            for (b, e1, e2) in zip(bars, ts, ks):
                for e in (e1, e2):
                    if e["tick"] < prev_off or (b[4] is not None and e["tick"] > b[4]) or e["tick"] > b[1]:
                        okp = False
                if b[5] is not None:
                    prev_off = b[5]
            ctx.check("meta: bar signatures lie between the previous bar's last note and the bar's first note", okp, w, None,
                      [(e["tick"]) for e in ts][:8], mechanism="signature-placement")
    if instrument is not None:
        cc = [e for e in tr if e["kind"] == "cc"]
        pc = [e for e in tr if e["kind"] == "pc"]
        firsts = [f for f in tl["first_notes"] if f is not None]
        if instrument.get("nr") is not None:
            # (the first repetition's announcement may come anywhere up to the first note; later ones belong to their repetition)
            def placed(e, k, f):
                lo = 0 if k == 0 else tl["bars"][k * (len(tl["bars"]) // max(1, len(tl["first_notes"]))) - 1][1] if tl["bars"] else 0
                return lo <= e["tick"] <= f[0]
            def first_channels(e, f):
                # "the first note": the lowest note of the first sounding container (the container's first note) or, when a
                # writer emits a chord in another order, the note whose note-on comes first in the byte stream after the
                # announcement (not before it: an entry of zero ticks at the end of the previous repetition sits on the same tick)
                i0 = next((i for i, x in enumerate(tr) if x is e), -1)
                on = next((x for x in tr[i0 + 1:] if x["kind"] == "on"), None)
                return (f[1],) if on is None or on["tick"] != f[0] else (f[1], on["ch"])
            okb = len(cc) == len(firsts) and all(e["ch"] in first_channels(e, f) and e["d1"] == 0 and placed(e, k, f) for k, (e, f) in enumerate(zip(cc, firsts)))
            okp = len(pc) == len(firsts) and all(e["ch"] in first_channels(e, f) and e["d1"] == instrument["nr"] and placed(e, k, f) for k, (e, f) in enumerate(zip(pc, firsts)))
            ctx.check("instrument: a bank select (controller 0) on the first note's channel, not after the first note", okb, w,
                      [("cc0", f[1], f[0]) for f in firsts], [(e["ch"], e["d1"], e["d2"], e["tick"]) for e in cc][:4], mechanism="bank-select")
            ctx.check("instrument: a program change with the instrument number on the first note's channel, not after the first note",
                      okp, w, [(f[1], instrument["nr"], f[0]) for f in firsts], [(e["ch"], e["d1"], e["tick"]) for e in pc][:4],
                      mechanism="program-change")
            # both come before the first note-on in stream order
            order_ok = True
            idx = [i for i, e in enumerate(tr) if e["kind"] == "on"]
            if idx and (cc or pc):
                order_ok = all(tr.index(e) < idx[0] for e in (cc[:1] + pc[:1]))
            ctx.check("instrument: bank select and program change precede the first note", order_ok, w, None, None, mechanism="instrument-order")
        else:
            ctx.check("instrument: no program change for tracks without a MIDI instrument", not pc and not cc, w, [],
                      [(e["kind"], e["ch"], e["d1"]) for e in cc + pc][:4], mechanism="spurious-program-change")


def low_level_prelude():
    """A track assembled by hand through MidiTrack's public methods, with non-zero delta times in front of key and time
    signatures and tempo changes (hand-placed changes in the middle of a piece), for every key and several meters."""
    from rv.models import theory as T_
    from mingus.containers import Note
    t = MidiTrack(90)
    n = Note("C", 4)
    for k, (kname, _s, _m) in enumerate(T_.KEYS):
        t.set_deltatime(96 + k)
        t.set_key(kname)
        t.set_deltatime(48)
        t.set_meter((3 + k % 4, 2 ** (k % 4)))
        t.set_deltatime(7)
        t.set_tempo(60 + k)
        t.set_deltatime(0)
        t.play_Note(n)
        t.set_deltatime(72)
        t.stop_Note(n)
    return len(t.get_midi_data())


def change(rng, tspec, tobj, values, kw):
    nkw = dict((k, v) for k, v in kw.items() if k in ("velocity", "same_channel"))
    bkw = dict(nkw, tempo_p=kw.get("tempo_p", 0))
    last = tspec["bars"][-1]
    return MM.change_track(rng, tspec, tobj, lambda: MM.random_bar(rng, last["key"], tuple(last["meter"]), values, **bkw),
                           lambda: MM.random_notes(rng, **nkw))


def run(shard, ctx):
    kind = shard["kind"]
    if kind in ("files", "systematic"):
        ctx.extra["low_level_prelude_bytes"] = low_level_prelude()
    if kind == "files":
        rng = ctx.rng("files")
        values = MM.midi_vocabulary(zero_ticks=True)
        with Scratch() as path:
            for i in range(shard["n"]):
                what = rng.choice(["note", "container", "bar", "track", "track", "composition", "composition"])
                repeat = rng.choice([0, 0, 0, 1, 2])
                bpm = rng.choice([120, 60, 4, 1000, rng.randint(4, 1000)])
                vel = (0, 0) if rng.random() < 0.04 else (1, 127)
                w = {"what": what, "repeat": repeat, "bpm": bpm}
                if what in ("note", "container"):
                    notes = MM.random_notes(rng, size=1 if what == "note" else None, velocity=vel, same_channel=rng.random() < 0.7)
                    w["notes"] = notes
                    nc = MM.build_notes(notes)
                    if what == "note":
                        st, r = ctx.call(MO.write_Note, path, nc[0], bpm, repeat)
                    else:
                        st, r = ctx.call(MO.write_NoteContainer, path, nc, bpm, repeat)
                    ev = []
                    for k in range(repeat + 1):
                        for n in notes:
                            ev.append((72 * k, "on", n[2], MM.pitch_of(n) + 12, n[3]))
                            ev.append((72 * k + 72, "off", n[2], MM.pitch_of(n) + 12, n[3]))
                    tls = [{"events": ev, "bars": [], "first_notes": []}]
                    specs = [None]
                else:
                    one = rng.random() < 0.7
                    kw = dict(one_key_meter=one, instrument="random", velocity=vel, same_channel=rng.random() < 0.7,
                              rest_p=rng.choice([0.1, 0.3, 0.5]), tempo_p=rng.choice([0, 0, 0.15, 0.4]))
                    if what == "bar":
                        t = MM.random_track(rng, values, nbars=1, **kw)
                        t["instrument"] = None
                        w["bar"] = t["bars"][0]
                        st, r = ctx.call(MO.write_Bar, path, MM.build_bar(t["bars"][0]), bpm, repeat)
                        specs = [t]
                    elif what == "track":
                        t = MM.random_track(rng, values, **kw)
                        obj = MM.build_track(t)
                        if rng.random() < 0.3:
                            # written once, changed in place, written again: the file is of the track as it is now
                            ctx.call(MO.write_Track, path, obj, bpm, repeat)
                            w["written_before_then_changed"] = change(rng, t, obj, values, kw)
                        w["track"] = t
                        route = rng.random()
                        if route < 0.8:
                            st, r = ctx.call(MO.write_Track, path, obj, bpm, repeat)
                        else:
                            # the same file put together by hand from the public pieces: a MidiTrack handed to MidiFile(...)
                            # (rendered before or after the MidiFile is made)
                            from mingus.midi.midi_track import MidiTrack as _MT

                            def by_hand(first_render=route < 0.9):
                                mt = _MT(bpm)
                                if first_render:
                                    for _k in range(repeat + 1):
                                        mt.play_Track(obj)
                                mf = MO.MidiFile([mt])
                                if not first_render:
                                    for _k in range(repeat + 1):
                                        mt.play_Track(obj)
                                return mf.write_file(path)
                            w["written_by"] = "MidiFile([MidiTrack]) rendered %s" % ("before" if route < 0.9 else "after")
                            st, r = ctx.call(by_hand)
                        specs = [t]
                    else:
                        c = MM.random_composition(rng, values, **kw)
                        obj = MM.build_composition(c)
                        if rng.random() < 0.3:
                            ctx.call(MO.write_Composition, path, obj, bpm, repeat)
                            k = rng.randrange(len(c["tracks"]))
                            w["written_before_then_changed"] = [k, change(rng, c["tracks"][k], obj.tracks[k], values, kw)]
                        w["composition"] = c
                        st, r = ctx.call(MO.write_Composition, path, obj, bpm, repeat)
                        specs = c["tracks"]
                    tls = [MM.track_timeline(t, repeat) for t in specs]
                if st != "ok" or r is not True:
                    ctx.check("smf: the writer returns normally", False, w, True, repr(r), mechanism="writer:" + what)
                    ctx.case(("file", i))
                    continue
                f, data = decode(ctx, path, w, len(tls))
                ctx.case(data)
                if f is None:
                    continue
                if len(f["tracks"]) != len(tls):
                    continue
                for tr, tl, spec in zip(f["tracks"], tls, specs):
                    has_trailing_rest_between_reps = False
                    if spec is not None and repeat > 0 and what in ("track", "composition"):
                        last = spec["bars"][-1]["entries"] if spec["bars"] else []
                        has_trailing_rest_between_reps = bool(last) and not last[-1]["notes"] or (
                            not any(e["notes"] for b in spec["bars"] for e in b["entries"]))
                    shape = {"repeat": repeat, "what": what, "trailing_rest": has_trailing_rest_between_reps}
                    ww = dict(w, shape=shape)
                    check_track(ctx, tr, tl, ww, bpm, name=spec["name"] if spec is not None and what != "bar" else None,
                                instrument=(spec.get("instrument") or {"kind": "none"}) if spec is not None and what != "bar" else None,
                                metas=spec is not None)
                    ctx.state(tuple(note_events(tr)))
                if i == 0:
                    ctx.sample({"what": what, "repeat": repeat, "bpm": bpm, "bytes": len(data), "tracks": len(f["tracks"]),
                                "decoded_note_events_of_first_track": note_events(f["tracks"][0])[:6]})
    elif kind == "systematic":
        # every key, every meter, every value alone in a bar, rests in every position
        values = MM.midi_vocabulary()
        from rv.models import theory as T
        with Scratch() as path:
            for (kname, _s, _m) in T.KEYS:
                for meter in [(4, 4), (3, 4), (6, 8), (12, 8), (2, 2), (5, 4), (7, 8), (2, 4), (1, 1), (3, 8), (9, 16), (1, 128)]:
                    note = [["C", 4, 3, 90]]
                    bar = {"key": kname, "meter": list(meter), "entries": [{"v": [meter[1], 0, 1, 1], "notes": note}]}
                    t = {"name": "k", "instrument": None, "bars": [bar, bar]}
                    w = {"key": kname, "meter": meter}
                    st, r = ctx.call(MO.write_Track, path, MM.build_track(t), 120, 0)
                    if st != "ok":
                        ctx.check("smf: the writer returns normally", False, w, True, repr(r), mechanism="writer:systematic")
                        continue
                    f, data = decode(ctx, path, w, 1)
                    ctx.case(data)
                    if f:
                        check_track(ctx, f["tracks"][0], MM.track_timeline(t, 0), w, 120, name="k", instrument={"kind": "none"})
            for v in values:
                for pattern in ("n", "rn", "nr", "rnr", "rr", "nnr"):
                    entries = [{"v": [v.base, v.dots, v.r1, v.r2], "notes": [["E", 4, 2, 64], ["G", 4, 2, 65]] if c == "n" else None} for c in pattern]
                    meter = (32, 1)
                    bar = {"key": "C", "meter": list(meter), "entries": entries}
                    for what in ("bar", "track"):
                        for repeat in (0, 1):
                            t = {"name": "x", "instrument": {"kind": "midi", "nr": 41, "name": ""} if what == "track" else None, "bars": [bar]}
                            w = {"value": v.label, "pattern": pattern, "what": what, "repeat": repeat}
                            if what == "bar":
                                st, r = ctx.call(MO.write_Bar, path, MM.build_bar(bar), 100, repeat)
                            else:
                                st, r = ctx.call(MO.write_Track, path, MM.build_track(t), 100, repeat)
                            if st != "ok":
                                ctx.check("smf: the writer returns normally", False, w, True, repr(r), mechanism="writer:systematic")
                                continue
                            f, data = decode(ctx, path, w, 1)
                            ctx.case(data)
                            if f:
                                shape = {"repeat": repeat, "what": what, "trailing_rest": pattern.endswith("r")}
                                check_track(ctx, f["tracks"][0], MM.track_timeline(t, repeat), dict(w, shape=shape), 100,
                                            name="x" if what == "track" else None,
                                            instrument=t["instrument"] if what == "track" else None)
            for bpm in list(range(4, 1001, 7)) + [4, 5, 1000, 999]:
                st, r = ctx.call(MO.write_Note, path, MM.build_notes([["A", 4, 0, 100]])[0], bpm, 0)
                f, data = decode(ctx, path, {"bpm": bpm}, 1) if st == "ok" else (None, b"")
                if f:
                    check_track(ctx, f["tracks"][0], {"events": [(0, "on", 0, 69, 100), (72, "off", 0, 69, 100)], "bars": [], "first_notes": []},
                                {"bpm": bpm}, bpm, metas=False)
                ctx.case(("bpm", bpm))
        ctx.sample({"systematic": "30 keys x 12 meters; every value x 6 rest patterns x bar/track x repeat 0/1; bpm grid"})
    else:
        t = MidiTrack()
        rng = ctx.rng("vlq")
        cnt = 0

        def one(n):
            st, b = ctx.call(t.int_to_varbyte, n)
            ok = st == "ok" and bytes(b) == smf.encode_vlq(n)
            if not ok:
                ctx.check("vlq: the variable-length encoder equals the standard encoding", False, {"n": n}, smf.encode_vlq(n).hex(),
                          b.hex() if st == "ok" else repr(b), mechanism="vlq:%d-bytes" % len(smf.encode_vlq(n)))
        for lo, hi in shard["ranges"]:
            for n in range(lo, hi):
                one(n)
            cnt += hi - lo
            ctx.note_exhaustive("integers [%d, %d) through int_to_varbyte" % (lo, hi), hi - lo)
        for k in (1, 2, 3, 4):
            for d in range(-300, 301):
                n = 128 ** k + d
                if 0 <= n < 2 ** 28:
                    one(n)
                    cnt += 1
        for _ in range(shard["random"]):
            one(rng.randrange(2 ** 21, 2 ** 28))
            cnt += 1
        one(2 ** 28 - 1)
        ctx.count("vlq: the variable-length encoder equals the standard encoding", cnt)
        ctx.case(("vlq", shard["name"]), n=cnt)
        ctx.case(("vlq-b", shard["name"]))
        ctx.sample({"int_to_varbyte(200)": t.int_to_varbyte(200).hex(), "int_to_varbyte(2**21)": t.int_to_varbyte(2 ** 21).hex()})
