"""C11 Transposition is semitone-exact and reversible at every container level."""
from mingus.containers import Note, NoteContainer, Bar, Track

from rv.models import theory as T
from rv.models import music as MU

ID = "C11"
ANCHOR_FILES = ["mingus/containers/note.py", "mingus/containers/note_container.py", "mingus/containers/bar.py",
                "mingus/containers/track.py", "mingus/core/intervals.py"]
REQUIRED_REACH = ["containers.note.Note.transpose", "containers.note.Note.augment", "containers.note.Note.diminish",
                  "containers.note.Note.change_octave", "containers.note_container.NoteContainer.transpose",
                  "containers.bar.Bar.transpose", "containers.track.Track.transpose", "containers.track.Track.augment",
                  "containers.track.Track.diminish", "containers.bar.Bar.augment", "containers.bar.Bar.diminish"]
REQUIRED_CLAUSES = ["note:", "containers:", "octave:"]
RULE = ("(name, octave, interval shorthand of size 0..11, direction) for note transposition; random tracks (notes, "
        "chords, rests, mixed values, 1-6 bars) under sequences of 1-5 transposition / augment / diminish steps at "
        "track, bar and container level, compared entry by entry with a deep snapshot; octave changes around 0; "
        "non-trivial = interval other than the unison; distinct by (name, octave, shorthand, direction) or by the "
        "snapshot of the track and the step sequence")


def shards(tier, seed):
    out = []
    for L in T.LETTERS:
        out.append({"name": "note-" + L, "kind": "note", "letter": L,
                    "acc": 6 if tier == "quick" else 9, "octaves": [0, 1, 4, 8] if tier == "quick" else list(range(10)),
                    "weight": 4})
    n = 1600 if tier == "quick" else 8000
    parts = 8 if tier == "quick" else 16
    for i in range(parts):
        out.append({"name": "tracks-%d" % i, "kind": "tracks", "n": n // parts, "weight": 6})
    out.append({"name": "octaves", "kind": "octave", "weight": 1})
    return out


def expect_after(note_t, step):
    """Model of one step on (name, octave, ch, vel): returns (letter, int) the note must have."""
    name, octave, ch, vel = note_t
    i = 12 * octave + T.NAT[name[0]] + T.net(name)
    kind = step[0]
    if kind == "augment":
        return name[0], i + 1
    if kind == "diminish":
        return name[0], i - 1
    sh, up = step[1], step[2]
    num, size = int(sh[-1]), T.shorthand_size(sh)
    if up:
        return T.LETTERS[(T.li(name) + num - 1) % 7], i + size
    return T.LETTERS[(T.li(name) - num + 1) % 7], i - size


def own_int(x):
    """pitch number from the public name and octave (not from anything the object may remember)"""
    return 12 * x.octave + T.NAT[x.name[0]] + T.net(x.name)


def compare(ctx, before, after, step, w, level):
    """before/after: snapshots (list of bars). Everything but note names/octaves must be identical and
    every note must be the note-level image of its original."""
    ok_shape = len(before) == len(after)
    ctx.check("containers: bar count unchanged", ok_shape, w, len(before), len(after), mechanism=level + ":bars")
    if not ok_shape:
        return
    for bi, (b0, b1) in enumerate(zip(before, after)):
        same = (b0["key"], b0["meter"], b0["length"], b0["current_beat"], len(b0["entries"])) == \
               (b1["key"], b1["meter"], b1["length"], b1["current_beat"], len(b1["entries"]))
        ctx.check("containers: key, meter, beat accounting and entry count untouched", same, dict(w, bar=bi),
                  None, None, mechanism=level + ":bar-shape")
        if not same:
            continue
        for ei, (e0, e1) in enumerate(zip(b0["entries"], b1["entries"])):
            ok = e0[0] == e1[0] and e0[1] == e1[1] and ((e0[2] is None) == (e1[2] is None))
            ctx.check("containers: rests, durations and beat positions untouched", ok, dict(w, bar=bi, entry=ei),
                      [e0[0], e0[1], e0[2] is None], [e1[0], e1[1], e1[2] is None], mechanism=level + ":entry-shape")
            if not ok or e0[2] is None:
                continue
            okn = len(e0[2]) == len(e1[2])
            if okn:
                for n0, n1 in zip(e0[2], e1[2]):
                    L, I = expect_after(n0, step)
                    got = 12 * n1[1] + T.NAT[n1[0][0]] + T.net(n1[0])
                    if not (n1[0][0] == L and got == I and n1[2:] == n0[2:]):
                        okn = False
            ctx.check("containers: exactly the note-level operation is applied to every note", okn,
                      dict(w, bar=bi, entry=ei, step=step), [expect_after(n, step) for n in e0[2]], e1[2],
                      mechanism=level + ":" + step[0])


def run(shard, ctx):
    kind = shard["kind"]
    if kind == "note":
        i = T.LETTERS.index(shard["letter"])
        names = [T.spell(i, n) for n in range(-shard["acc"], shard["acc"] + 1)]
        shs = [s for s in T.all_shorthands(2) if 0 <= T.shorthand_size(s) <= 11]
        cnt = 0
        for n in names:
            for o in shard["octaves"]:
                for sh in shs:
                    # the pitch and letter clauses hold for every spelling; the returned *name* is only pinned down while
                    # the documented re-spelling beyond six accidentals cannot come into play (interpretation 17)
                    exact_names = len(n) - 1 <= 3 and len(n) - 1 + len(sh) - 1 <= 5
                    size, num = T.shorthand_size(sh), int(sh[-1])
                    for up in (True, False):
                        x = Note(n, o)
                        x.set_velocity(99), x.set_channel(7)
                        if (len(n) + o + len(sh)) % 3 == 0:
                            # the same object arrives already used: it was something else, was compared, and was then renamed
                            x.name, x.octave = "G", 2
                            x < Note("C", 4), int(x)
                            x.name, x.octave = n, o
                        base = own_int(x)
                        w = {"note": [n, o], "interval": sh, "up": up}
                        st, r = ctx.call(x.transpose, sh, up)
                        if st != "ok" or not T.valid(x.name):
                            ctx.check("note: transposition returns normally", False, w, None, repr(r) + " name=%r" % (x.name,))
                            continue
                        exp_i = base + size if up else base - size
                        exp_L = T.LETTERS[(i + num - 1) % 7] if up else T.LETTERS[(i - num + 1) % 7]
                        ctx.check("note: pitch number moves by exactly the interval's size", own_int(x) == exp_i and int(x) == exp_i, w, exp_i, [own_int(x), int(x)],
                                  mechanism="semitones:" + ("up" if up else "down"))
                        ctx.check("note: renamed on the letter the interval number requires", x.name[0] == exp_L, w, exp_L, x.name,
                                  mechanism="letter:" + ("up" if up else "down"))
                        ctx.check("note: channel and velocity untouched", (x.velocity, x.channel) == (99, 7), w)
                        st, r = ctx.call(x.transpose, sh, not up)
                        if exact_names:
                            ctx.check("note: transposing back restores the original name and octave",
                                      st == "ok" and (x.name, x.octave) == (n, o), w, [n, o], [x.name, x.octave],
                                      mechanism="restore:" + ("up-down" if up else "down-up"))
                        else:
                            ctx.check("note: transposing back restores the original pitch on the original letter",
                                      st == "ok" and x.name[:1] == n[0] and own_int(x) == base, w, [n[0], base],
                                      [x.name, x.octave], mechanism="restore-pitch:" + ("up-down" if up else "down-up"))
                        ctx.case(("note", n, o, sh, up), nontrivial=sh != "1")
                        cnt += 1
                y = Note(n, o)
                y.augment()
                ok1 = y.name[0] == n[0] and int(y) == int(Note(n, o)) + 1
                y.diminish()
                ctx.check("note: augment raises by one semitone on the same letter and diminish undoes it",
                          ok1 and (y.name, y.octave) == (n, o), {"note": [n, o]}, [n, o], [y.name, y.octave], mechanism="aug-dim")
                y.diminish()
                ok2 = y.name[0] == n[0] and int(y) == int(Note(n, o)) - 1
                y.augment()
                ctx.check("note: diminish lowers by one semitone on the same letter and augment undoes it",
                          ok2 and (y.name, y.octave) == (n, o), {"note": [n, o]}, [n, o], [y.name, y.octave], mechanism="dim-aug")
        ctx.note_exhaustive("names on %s x octaves %s x shorthands of size 0..11 x up/down" % (shard["letter"], shard["octaves"]), cnt)
        # octaves far beyond anything audible (the pitch number no longer fits a float exactly)
        for o in (2 ** 53 + 1, 10 ** 16 + 1, 2 ** 70 + 3, 123456789012345678901):
            for n in names[::3]:
                for sh in ("1", "b2", "3", "4", "#4", "5", "b7", "7"):
                    for up in (True, False):
                        x = Note(n, o)
                        base = own_int(x)
                        st, r = ctx.call(x.transpose, sh, up)
                        size = T.shorthand_size(sh)
                        exp_i = base + size if up else base - size
                        ctx.check("note: pitch number moves by exactly the interval's size", st == "ok" and own_int(x) == exp_i and int(x) == exp_i,
                                  {"note": [n, "octave %d" % o], "interval": sh, "up": up}, str(exp_i), [x.name, str(x.octave)],
                                  mechanism="semitones-huge-octave:" + ("up" if up else "down"))
                        ctx.case(("note-huge", n, o, sh, up))
        x = Note(shard["letter"], 4)
        x.transpose("b7")
        ctx.sample({"Note('%s',4).transpose('b7')" % shard["letter"]: repr(x)})
    elif kind == "tracks":
        rng = ctx.rng("tracks")
        shs = [s for s in T.all_shorthands(1) if 0 <= T.shorthand_size(s) <= 11]
        for ti in range(shard["n"]):
            t = MU.random_track(rng, acc=1, lo=24, hi=84)
            if rng.random() < 0.3:
                # an instrument is attached and some notes sit at the edge of its range (transposition is not an addition: it
                # applies whatever the instrument could play)
                from mingus.containers.instrument import Piano, Guitar, MidiInstrument
                t.instrument = rng.choice([Piano, Guitar, MidiInstrument])()
                pool = [n for b in t.bars for e in b.bar if e[2] is not None for n in e[2].notes]
                for n in rng.sample(pool, min(len(pool), 3)):
                    n.name, n.octave = rng.choice([("A", 8), ("B", 8), ("F", 0), ("E", 3), ("E", 7), ("C", 0)])
            if rng.random() < 0.3 and t.bars:
                # a bar whose containers are built *from* containers already in the track (copies must be independent)
                src = [e for b in t.bars for e in b.bar if e[2] is not None]
                if src:
                    nb = Bar(t.bars[-1].key, (0, 0))
                    for e in rng.sample(src, min(len(src), rng.randint(1, 3))):
                        nb.place_notes(NoteContainer(e[2]), e[1])
                        other = NoteContainer()
                        other.add_notes(e[2])
                        nb.place_notes(other, e[1])
                    t.add_bar(nb)
            level = rng.choice(["track", "track", "bar", "container"])
            steps = []
            want_twin = rng.random() < 0.3
            bound = 3 if want_twin else 1       # (a twin bar is added already shifted by the first step: up to two more accidentals)
            # bound: upper bound on the accidentals any note can carry; beyond 6 the interval
            #                 constructors re-spell enharmonically (documented), which is outside the statement
            for _ in range(rng.randint(1, 5)):
                r = rng.random()
                if r < 0.6:
                    sh = rng.choice(shs)
                    inc = 1 if len(sh) == 1 else 2
                    if bound + inc > 6:
                        break
                    bound += inc
                    steps.append(("transpose", sh, rng.random() < 0.5))
                else:
                    if bound + 1 > 6:
                        break
                    bound += 1
                    steps.append(("augment",) if r < 0.8 else ("diminish",))
            if steps and steps[0][0] == "transpose" and t.bars and want_twin:
                # the first bar again, already shifted by the interval about to be applied (bars may resemble each other)
                twin = Bar(t.bars[0].key, t.bars[0].meter)
                for e in t.bars[0].bar:
                    twin.place_notes(None if e[2] is None else NoteContainer([Note(n.name, n.octave, velocity=n.velocity, channel=n.channel)
                                                                              for n in e[2].notes]), e[1])
                twin.transpose(steps[0][1], steps[0][2])
                t.add_bar(twin)
                same = Bar(t.bars[0].key, t.bars[0].meter)
                for e in t.bars[0].bar:
                    same.place_notes(None if e[2] is None else NoteContainer([Note(n.name, n.octave) for n in e[2].notes]), e[1])
                t.add_bar(same)
            start = MU.snap_track(t)
            ctx.state((tuple((b["key"], b["meter"], len(b["entries"])) for b in start)))
            for si, step in enumerate(steps):
                if rng.random() < 0.3:
                    # some notes are renamed in place through their public attributes (after having been compared / sorted)
                    pool = [n for b in t.bars for e in b.bar if e[2] is not None for n in e[2].notes]
                    for n in rng.sample(pool, min(len(pool), rng.randint(1, 3))):
                        int(n), n < Note("C", 4)
                        n.name, n.octave = rng.choice(["C", "D", "E", "F", "G", "A", "B"]), rng.randint(2, 6)
                if si > 0 and rng.random() < 0.35:
                    # between two operations an entry gets new content through bar[i] = ... (a name, a list of names, a
                    # container): what was there before is no longer in the bar, what is there now is transposed next
                    cands = [(b, i) for b in t.bars for i in range(len(b.bar))]
                    for (b, i) in rng.sample(cands, min(len(cands), rng.randint(1, 2))):
                        new = rng.choice(["name", "list", "container"])
                        nms = rng.sample(["C", "D", "E", "F", "G", "A", "B"], rng.randint(1, 3))
                        b[i] = nms[0] if new == "name" else nms if new == "list" else NoteContainer([Note(x, rng.randint(2, 5)) for x in nms])
                        if not hasattr(b.bar[i][2], "notes"):
                            # (what bar[i] = ... stores is C13's to judge; here the history cannot go on)
                            ctx.unsure("bar[i] = %s stored %r, which is no note container: the transposition history was abandoned" % (new, b.bar[i][2]))
                            steps = steps[:si]
                            break
                    if len(steps) <= si:
                        break
                before = MU.snap_track(t)
                w = {"track": ti, "level": level, "steps": steps[:si + 1], "bars": len(before)}
                if level == "track":
                    targets = [t]
                elif level == "bar":
                    targets = list(t.bars)
                else:
                    targets = [e[2] for b in t.bars for e in b.bar if e[2] is not None]
                for obj in targets:
                    if step[0] == "transpose":
                        st, r = ctx.call(obj.transpose, step[1], step[2])
                    else:
                        st, r = ctx.call(getattr(obj, step[0]))
                    if st != "ok":
                        ctx.check("containers: the operation returns normally", False, w, None, repr(r), mechanism=level + ":raise")
                after = MU.snap_track(t)
                compare(ctx, before, after, step, w, level)
            # augment followed by diminish is the identity on names
            before = MU.snap_track(t)
            t.augment(), t.diminish()
            ctx.check("containers: augment followed by diminish is the identity on names", MU.snap_track(t) == before,
                      {"track": ti}, None, None, mechanism="track:aug-dim")
            t.diminish(), t.augment()
            ctx.check("containers: diminish followed by augment is the identity on names", MU.snap_track(t) == before,
                      {"track": ti}, None, None, mechanism="track:dim-aug")
            ctx.case(("track", repr(start), tuple(steps), level))
            if ti == 0:
                ctx.sample({"track_bars": len(start), "first_bar": start[0] if start else None, "level": level, "steps": steps})
    else:
        for o in range(0, 6):
            for d in range(-8, 9):
                x = Note("C", o)
                st, r = ctx.call(x.change_octave, d)
                ctx.check("octave: changing the octave never goes below octave 0", st == "ok" and x.octave == max(0, o + d),
                          {"octave": o, "diff": d}, max(0, o + d), x.octave, mechanism="change_octave")
                ctx.case(("octave", o, d))
            x = Note("C", o)
            x.octave_down()
            ctx.check("octave: octave_down stops at 0", x.octave == max(0, o - 1), {"octave": o}, max(0, o - 1), x.octave)
            x.octave_up()
            ctx.check("octave: octave_up adds one", x.octave == max(0, o - 1) + 1, {"octave": o}, max(0, o - 1) + 1, x.octave)
        ctx.sample({"Note('C',0).octave_down()": 0})
        # walks: any mix of the three octave operations on any name follows max(0, .) step by step and never touches
        # the name, the channel or the velocity
        rng = ctx.rng("octave-walk")
        names = list(T.pure_names(3))
        for w in range(80):
            nm, o = rng.choice(names), rng.randint(0, 9)
            x = Note(nm, o)
            x.velocity, x.channel = rng.randint(1, 127), rng.randint(1, 15)
            vc = (x.velocity, x.channel)
            trail = []
            for step in range(rng.randint(3, 14)):
                k = rng.randrange(3)
                if k == 0:
                    d = rng.choice([-1, -1, -2, -3, -12, 1, 2, 5, 0])
                    st, r = ctx.call(x.change_octave, d)
                    exp = max(0, o + d)
                    lab = "change_octave(%d)" % d
                elif k == 1:
                    st, r = ctx.call(x.octave_down)
                    exp = max(0, o - 1)
                    lab = "octave_down"
                else:
                    st, r = ctx.call(x.octave_up)
                    exp = o + 1
                    lab = "octave_up"
                trail.append(lab)
                good = st == "ok" and x.octave == exp and x.name == nm and (x.velocity, x.channel) == vc
                ctx.check("octave: changing the octave never goes below octave 0" if k == 0 else
                          "octave: octave_down stops at 0" if k == 1 else "octave: octave_up adds one", good,
                          {"name": nm, "octave_before": o, "steps": list(trail)}, [nm, exp], [x.name, x.octave] if st == "ok" else repr(r),
                          mechanism="octave-walk:" + lab.split("(")[0])
                o = exp
                x.octave = o        # the model continues from the expected state, so that one wrong step is one witness
            exp_int = 12 * o + T.NAT[nm[0]] + T.net(nm)
            ctx.check("octave: the pitch number follows the octave", int(x) == exp_int, {"name": nm, "steps": list(trail)}, exp_int, int(x),
                      mechanism="octave-walk:int")
            ctx.case(("octave-walk", nm, tuple(trail)))
