"""C17 Writing a composition to MIDI and reading it back returns the same music."""
import io
import os
import shutil
import struct
import tempfile

from mingus.midi import midi_file_out as MO, midi_file_in as MI
from mingus.midi.midi_track import MidiTrack

from rv.models import midimodel as MM
from rv.models import smf
from rv.models import theory as T

ID = "C17"
ANCHOR_FILES = ["mingus/midi/midi_file_in.py", "mingus/midi/midi_file_out.py", "mingus/midi/midi_track.py"]
REQUIRED_REACH = ["midi.midi_file_in.MIDI_to_Composition", "midi.midi_file_in.MidiFile.parse_midi_file_header",
                  "midi.midi_file_in.MidiFile.parse_track", "midi.midi_file_in.MidiFile.parse_varbyte_as_int",
                  "midi.midi_file_in.MidiFile.parse_midi_event", "midi.midi_file_out.write_Composition"]
REQUIRED_CLAUSES = ["roundtrip:", "tempo:", "names:", "key-meter:", "vlq:", "reject:"]
RULE = ("compositions (1-4 tracks, velocities 1-127, values with whole tick counts, all 30 keys, rests in every position, "
        "MIDI instruments) written with write_Composition and read back with MIDI_to_Composition; every bpm 4..1000; VLQ "
        "integers through writer then reader; files that are not MIDI made by editing valid files (header tag bytes, "
        "track tag bytes, format word, truncation inside the header, empty file); non-trivial = every file; distinct by "
        "the bytes written / the corrupted bytes")


def shards(tier, seed):
    out = []
    n = 2400 if tier == "quick" else 40000
    parts = 8 if tier == "quick" else 16
    for i in range(parts):
        out.append({"name": "roundtrip-%d" % i, "kind": "rt", "n": n // parts, "weight": 8})
    out.append({"name": "tempo-and-keys", "kind": "tempo", "weight": 3, "extra": 50 if tier == "quick" else 1500})
    out.append({"name": "corrupted", "kind": "corrupt", "files": 3 if tier == "quick" else 20, "weight": 4,
                "limit": 300 if tier == "quick" else None})
    if tier == "quick":
        out.append({"name": "vlq", "kind": "vlq", "ranges": [[0, 40000]], "random": 3000, "weight": 2})
    else:
        step = (2 ** 21) // 12
        for i in range(12):
            out.append({"name": "vlq-%d" % i, "kind": "vlq", "ranges": [[i * step, (i + 1) * step if i < 11 else 2 ** 21]],
                        "random": 200000 // 12, "weight": 5})
    return out


class Scratch(object):
    def __enter__(self):
        self.d = tempfile.mkdtemp(prefix="rv-c17-")
        return os.path.join(self.d, "rt.mid")

    def __exit__(self, *a):
        shutil.rmtree(self.d, ignore_errors=True)


def merge(seq):
    """adjacent rests count as one rest of their total length; trailing rests are ignored"""
    out = []
    for tk, ps in seq:
        if not ps and out and not out[-1][1]:
            out[-1] = (out[-1][0] + tk, ())
        else:
            out.append((tk, ps))
    while out and not out[-1][1]:
        out.pop()
    return out


def written_sequence(tspec):
    seq = []
    for b in tspec["bars"]:
        for e in b["entries"]:
            tk = MM.ticks_of(MM.val_of(e["v"]))
            ps = tuple(sorted((MM.pitch_of(n), n[2], n[3]) for n in e["notes"])) if e["notes"] else ()
            seq.append((tk, ps))
    return merge(seq)


def read_sequence(track):
    seq = []
    for bar in track.bars:
        for (_beat, val, nc) in bar.bar:
            tk = 288.0 / val
            tk = int(round(tk)) if abs(tk - round(tk)) < 1e-6 else tk
            ps = tuple(sorted((int(x), x.channel, x.velocity) for x in nc.notes)) if nc is not None and len(nc) else ()
            seq.append((tk, ps))
    return merge(seq)


def read_back(ctx, path, w):
    st, r = ctx.call(MI.MIDI_to_Composition, path)
    if st != "ok" or not isinstance(r, tuple) or len(r) != 2:
        ctx.check("roundtrip: a file the library wrote can be read back", False, w, "(composition, bpm)", repr(r), mechanism="read-raise")
        return None
    return r


def foreign_file_prelude(path):
    """Read a valid file whose time division is not the library writer's 72 (as a file from another program would be)."""
    from mingus.midi.midi_file_out import MidiFile
    from mingus.containers import Note, Bar
    t = MidiTrack(100)
    b = Bar("G", (3, 4))
    for name, v in (("G", 4), ("B", 8), ("D", 8), ("G", 2)):
        b.place_notes(name, v)
    t.play_Bar(b)
    m = MidiFile([t])
    m.time_division = b"\x00\x90"          # 144 ticks per quarter note
    m.write_file(path)
    try:
        MI.MIDI_to_Composition(path)
    except Exception:
        pass


def run(shard, ctx):
    kind = shard["kind"]
    if kind in ("rt", "tempo"):
        with Scratch() as p0:
            foreign_file_prelude(p0)
    if kind == "rt":
        rng = ctx.rng("rt")
        values = MM.midi_vocabulary(whole_ticks_only=True)
        with Scratch() as path:
            # the smallest compositions: no track at all; tracks without bars; tracks of empty bars
            for label, spec in (("no tracks", {"tracks": []}),
                                ("one track without bars", {"tracks": [{"name": "T0", "instrument": None, "bars": []}]}),
                                ("two tracks of one empty bar", {"tracks": [{"name": "T%d" % k, "instrument": None, "bars": [
                                    {"key": "C", "meter": [4, 4], "entries": []}]} for k in range(2)]})):
                w = {"composition": label}
                st, r = ctx.call(MO.write_Composition, path, MM.build_composition(spec), 120)
                if st != "ok" or r is not True:
                    ctx.check("roundtrip: the writer returns normally", False, w, True, repr(r), mechanism="write-raise")
                    continue
                rb = read_back(ctx, path, w)
                if rb is not None:
                    ctx.check("roundtrip: the same number of tracks comes back", len(rb[0].tracks) == len(spec["tracks"]), w,
                              len(spec["tracks"]), len(rb[0].tracks), mechanism="track-count")
                    ctx.check("tempo: the tempo read back equals the tempo written", rb[1] == 120 or not spec["tracks"], w, 120, rb[1], mechanism="tempo")
                ctx.case(("tiny", label))
            for i in range(shard["n"]):
                one = rng.random() < 0.8
                c = MM.random_composition(rng, values, one_key_meter=one, instrument="random", velocity=(1, 127),
                                          same_channel=rng.random() < 0.7, rest_p=rng.choice([0.15, 0.3, 0.5]),
                                          tempo_p=rng.choice([0, 0, 0, 0.2]))
                for k, t in enumerate(c["tracks"]):
                    if not t["name"]:
                        t["name"] = "T%d" % k
                bpm = rng.choice([120, 60, 4, 1000, rng.randint(4, 1000)])
                w = {"composition": c, "bpm": bpm}
                obj = MM.build_composition(c)
                if rng.random() < 0.3:
                    # written and read once, then changed in place, written and read again
                    ctx.call(MO.write_Composition, path, obj, bpm)
                    ctx.call(lambda: MI.MIDI_to_Composition(path))
                    k = rng.randrange(len(c["tracks"]))
                    last = c["tracks"][k]["bars"][-1]
                    w["written_before_then_changed"] = [k, MM.change_track(
                        rng, c["tracks"][k], obj.tracks[k],
                        lambda: MM.random_bar(rng, last["key"], tuple(last["meter"]), values, velocity=(1, 127)),
                        lambda: MM.random_notes(rng, velocity=(1, 127)))]
                st, r = ctx.call(MO.write_Composition, path, obj, bpm)
                if st != "ok" or r is not True:
                    ctx.check("roundtrip: the writer returns normally", False, w, True, repr(r), mechanism="write-raise")
                    continue
                data = open(path, "rb").read()
                ctx.case(data)
                rb = read_back(ctx, path, w)
                if rb is None:
                    continue
                c2, bpm2 = rb
                ctx.check("roundtrip: the same number of tracks comes back", len(c2.tracks) == len(c["tracks"]), w, len(c["tracks"]),
                          len(c2.tracks), mechanism="track-count")
                # (a piece whose containers carry tempo changes has no single tempo to read back; its music is compared all the same)
                if not any(e.get("bpm") for t in c["tracks"] for b in t["bars"] for e in b["entries"]):
                    ctx.check("tempo: the tempo read back equals the tempo written", bpm2 == bpm, w, bpm, bpm2, mechanism="tempo")
                if len(c2.tracks) != len(c["tracks"]):
                    continue
                for ti, (ts, t2) in enumerate(zip(c["tracks"], c2.tracks)):
                    exp, got = written_sequence(ts), read_sequence(t2)
                    first_diff = None
                    if exp != got:
                        k = 0
                        while k < min(len(exp), len(got)) and exp[k] == got[k]:
                            k += 1
                        first_diff = {"index": k, "written": exp[k:k + 2], "read": got[k:k + 2], "lengths": [len(exp), len(got)]}
                    starts_with_rest = bool(exp) and not exp[0][1]
                    longest_rest = max([tk for tk, ps in exp if not ps] or [0])
                    barticks = 288 * ts["bars"][0]["meter"][0] // ts["bars"][0]["meter"][1] if ts["bars"] else 0
                    ctx.check("roundtrip: per track the same flattened (ticks, pitches with channel and velocity) sequence, rests included",
                              exp == got, dict(w, track=ti), None, first_diff,
                              mechanism="sequence:" + ("leading-rest" if starts_with_rest and first_diff and first_diff["index"] == 0 else
                                                       ("rest-longer-than-a-bar" if longest_rest > barticks else "other")))
                    ctx.check("names: the track name comes back as written", t2.name == ts["name"], dict(w, track=ti), ts["name"],
                              t2.name, mechanism="track-name")
                    has_note = any(e["notes"] for b in ts["bars"] for e in b["entries"])
                    if ts["instrument"] and ts["instrument"].get("nr") is not None and has_note:
                        nr = getattr(t2.instrument, "instrument_nr", None)
                        ctx.check("names: the MIDI instrument number comes back as written", nr == ts["instrument"]["nr"],
                                  dict(w, track=ti), ts["instrument"]["nr"], nr, mechanism="instrument-nr")
                    if one and ts["bars"]:
                        key, meter = ts["bars"][0]["key"], tuple(ts["bars"][0]["meter"])
                        km = [(b.key.key, tuple(b.meter)) for b in t2.bars]
                        ctx.check("key-meter: every bar read back has the written key (tonic and mode) and meter",
                                  bool(km) and all(k == (key, meter) for k in km), dict(w, track=ti), (key, meter), km[:4],
                                  mechanism="key-meter:" + ("key" if any(k[0] != key for k in km) else "meter"))
                    ctx.state(tuple(got))
                if i == 0:
                    ctx.sample({"tracks": len(c["tracks"]), "bpm": bpm, "bytes": len(data), "first_track_sequence": written_sequence(c["tracks"][0])[:5]})
    elif kind == "tempo":
        note = {"title": "", "author": "", "tracks": [{"name": "t", "instrument": None, "bars": [
            {"key": "C", "meter": [4, 4], "entries": [{"v": [4, 0, 1, 1], "notes": [["C", 4, 0, 64]]}]}]}]}
        with Scratch() as path:
            rng = ctx.rng("tempo")
            for bpm in list(range(4, 1001)) + [rng.randint(1001, 7000) for _ in range(shard["extra"])]:
                st, r = ctx.call(MO.write_Composition, path, MM.build_composition(note), bpm)
                rb = read_back(ctx, path, {"bpm": bpm}) if st == "ok" else None
                if rb is not None:
                    ctx.check("tempo: the tempo read back equals the tempo written", rb[1] == bpm, {"bpm": bpm}, bpm, rb[1], mechanism="tempo")
                ctx.case(("bpm", bpm))
            ctx.note_exhaustive("every integer bpm 4..1000", 997)
            for (kname, _s, _m) in T.KEYS:
                for meter in [(4, 4), (3, 4), (6, 8), (12, 8), (2, 2), (5, 4), (7, 8), (9, 16)]:
                    unit = meter[1]
                    bar = {"key": kname, "meter": list(meter), "entries": [{"v": [unit, 0, 1, 1], "notes": [["D", 4, 1, 70]]} for _ in range(meter[0])]}
                    c = {"title": "", "author": "", "tracks": [{"name": "k", "instrument": None, "bars": [bar, bar]}]}
                    w = {"key": kname, "meter": meter}
                    st, r = ctx.call(MO.write_Composition, path, MM.build_composition(c), 100)
                    rb = read_back(ctx, path, w) if st == "ok" else None
                    if rb is not None and len(rb[0].tracks) == 1:
                        km = [(b.key.key, tuple(b.meter)) for b in rb[0].tracks[0].bars]
                        ctx.check("key-meter: every bar read back has the written key (tonic and mode) and meter",
                                  bool(km) and all(k == (kname, meter) for k in km), w, (kname, meter), km[:4],
                                  mechanism="key-meter:" + ("key" if any(k[0] != kname for k in km) else "meter"))
                    ctx.case(("key", kname, meter))
            ctx.note_exhaustive("30 keys x 8 meters", 240)
        ctx.sample({"bpm": 999, "microseconds_per_quarter": 60000000 // 999, "read_back": 60000000 // (60000000 // 999)})
    elif kind == "corrupt":
        rng = ctx.rng("corrupt")
        values = MM.midi_vocabulary(whole_ticks_only=True)
        cases = []
        with Scratch() as path:
            for fi in range(shard["files"]):
                c = MM.random_composition(rng, values, ntracks=1 + fi % 4, instrument="random")
                MO.write_Composition(path, MM.build_composition(c), 120)
                data = open(path, "rb").read()
                try:
                    smf.parse(data)
                except smf.SMFError:
                    continue
                # offsets of the MTrk tags
                tags, i = [], 14
                while i < len(data):
                    tags.append(i)
                    i += 8 + struct.unpack(">I", data[i + 4:i + 8])[0]
                for pos in range(4):
                    for v in range(256):
                        if v != data[pos]:
                            cases.append(("header tag byte %d -> %02x" % (pos, v), data[:pos] + bytes([v]) + data[pos + 1:]))
                for ti, off in enumerate(tags):
                    for pos in range(4):
                        for v in range(256):
                            if v != data[off + pos]:
                                cases.append(("track %d tag byte %d -> %02x" % (ti, pos, v), data[:off + pos] + bytes([v]) + data[off + pos + 1:]))
                for fmt in list(range(3, 301)) + [2 ** k for k in range(9, 16)] + [65535, 3 * 256, 256, 257, 258]:
                    cases.append(("format word %d" % fmt, data[:8] + struct.pack(">H", fmt) + data[10:]))
                for ln in range(0, 14):
                    cases.append(("truncated to %d bytes" % ln, data[:ln]))
            cases.append(("empty file", b""))
            if shard.get("limit"):
                # quick tier: every truncation, the empty file, format words 3..40 and the powers of two, and a
                # random sample of the tag-byte edits (each tag byte position is represented)
                rng.shuffle(cases)
                always = [c for c in cases if c[0].startswith(("trunc", "empty"))]
                fmts, seen_words = [], set()
                for c in cases:       # every format word once (3..40 and 256 upward), whichever file it was put into
                    if c[0].startswith("format") and (int(c[0].split()[-1]) <= 40 or int(c[0].split()[-1]) >= 256) and c[0] not in seen_words:
                        seen_words.add(c[0])
                        fmts.append(c)
                tags = [c for c in cases if "tag byte" in c[0]]
                cases = always + fmts + tags[:shard["limit"]]
            for (what, blob) in cases:
                with open(path, "wb") as f:
                    f.write(blob)
                st, r = ctx.call(MI.MIDI_to_Composition, path)
                klass = what.split(" ")[0] + ("-" + what.split(" ")[1] if what.startswith(("header", "track", "format")) else "")
                ctx.check("reject: a file that is not MIDI is rejected with an error rather than returned as music", st == "exc",
                          {"corruption": what, "size": len(blob)}, "exception", repr(r)[:200], mechanism="accepted:" + klass)
                ctx.case(blob)
        ctx.sample({"corruptions": ["header tag byte", "track tag byte", "format word", "truncation 0..13", "empty file"], "cases": len(cases)})
    else:
        w_ = MidiTrack()
        rd = MI.MidiFile()
        rng = ctx.rng("vlq")
        cnt = 0

        def one(n):
            st, b = ctx.call(w_.int_to_varbyte, n)
            if st != "ok":
                ctx.check("vlq: the variable-length reader inverts the writer", False, {"n": n}, n, repr(b), mechanism="vlq-write")
                return
            st, r = ctx.call(rd.parse_varbyte_as_int, io.BytesIO(bytes(b) + b"\x00"))
            ok = st == "ok" and tuple(r) == (n, len(b))
            if not ok:
                ctx.check("vlq: the variable-length reader inverts the writer", False, {"n": n, "bytes": bytes(b).hex()}, (n, len(b)), repr(r),
                          mechanism="vlq-read")
        for lo, hi in shard["ranges"]:
            for n in range(lo, hi):
                one(n)
            cnt += hi - lo
            ctx.note_exhaustive("integers [%d, %d) through writer then reader" % (lo, hi), hi - lo)
        for k in (1, 2, 3, 4):
            for d in range(-300, 301):
                n = 128 ** k + d
                if 0 <= n < 2 ** 28:
                    one(n)
                    cnt += 1
        for _ in range(shard["random"]):
            one(rng.randrange(2 ** 21, 2 ** 28))
            cnt += 1
        one(2 ** 28 - 1)
        # the reader also inverts the standard encoding (independent of the library's writer)
        for n in [0, 1, 127, 128, 8192, 16383, 16384, 2 ** 21 - 1, 2 ** 21, 2 ** 28 - 1] + [rng.randrange(2 ** 28) for _ in range(500)]:
            st, r = ctx.call(rd.parse_varbyte_as_int, io.BytesIO(smf.encode_vlq(n)))
            ctx.check("vlq: the reader decodes the standard encoding", st == "ok" and tuple(r) == (n, len(smf.encode_vlq(n))), {"n": n},
                      n, repr(r), mechanism="vlq-read-standard")
        ctx.count("vlq: the variable-length reader inverts the writer", cnt)
        ctx.case(("vlq", shard["name"]), n=cnt)
        ctx.case(("vlq-b", shard["name"]))
        ctx.sample({"n": 300, "written": w_.int_to_varbyte(300).hex(), "read": rd.parse_varbyte_as_int(io.BytesIO(w_.int_to_varbyte(300)))})
