"""C19 Notation exports (LilyPond, MusicXML) decode back to the same music."""
from fractions import Fraction

from mingus.containers import Note, NoteContainer
from mingus.extra import lilypond as LP
from mingus.extra import musicxml as MX

from rv.models import ly, mxml
from rv.models import midimodel as MM
from rv.models import music as MU
from rv.models import theory as T

ID = "C19"
ANCHOR_FILES = ["mingus/extra/lilypond.py", "mingus/extra/musicxml.py", "mingus/core/value.py"]
REQUIRED_REACH = ["extra.lilypond.from_Note", "extra.lilypond.from_NoteContainer", "extra.lilypond.from_Bar", "extra.lilypond.from_Track",
                  "extra.lilypond.from_Composition", "extra.musicxml.from_Bar", "extra.musicxml.from_Track",
                  "extra.musicxml.from_Composition", "extra.musicxml._bar2musicxml", "extra.musicxml._note2musicxml"]
REQUIRED_CLAUSES = ["lilypond:", "musicxml:"]
RULE = ("random and systematic notes, containers, bars, tracks and compositions (names up to double accidentals, octaves 0-8, "
        "all 30 keys, 7 meters incl. (0,0), the full value vocabulary incl. dots, tuplets, longa and breve, chords of 1-5 notes, "
        "rests, empty bars, markup characters in titles) exported to LilyPond and MusicXML and decoded by independent readers; "
        "non-trivial = every export; distinct by the exported text")

METERS = [(4, 4), (3, 4), (6, 8), (12, 8), (2, 2), (5, 4), (0, 0)]
TITLE_CHARS = "ABCxyz &<>' éüřß漢♯"


def shards(tier, seed):
    out = []
    n = 8000 if tier == "quick" else 100000
    parts = 8 if tier == "quick" else 16
    for i in range(parts):
        out.append({"name": "exports-%d" % i, "kind": "exports", "n": n // parts, "weight": 8})
    out.append({"name": "systematic", "kind": "systematic", "weight": 3})
    return out


def notation_values():
    return MU.vocabulary(bases=(0.25, 0.5, 1, 2, 4, 8, 16, 32, 64, 128), dots=(0, 1, 2, 3), tuplets=((3, 2), (5, 4), (7, 4)))


def random_bar(rng, values, key=None, meter=None):
    key = key or rng.choice([k[0] for k in T.KEYS])
    meter = meter or rng.choice(METERS)
    entries = []
    total = Fraction(0)
    L = Fraction(meter[0], meter[1]) if meter[1] else None
    n = rng.choice([0, 1, 2, 3, 4, 5, 6, 8])
    for _ in range(n):
        fits = [v for v in values if L is None or total + v.length <= L]
        if not fits:
            break
        v = rng.choice(fits)
        r = rng.random()
        notes = None if r < 0.2 else MM.random_notes(rng, size=1 if r < 0.55 else rng.randint(2, 5), lo=0, hi=12 * 8 + 11, acc=2)
        if r < 0.05:
            notes = []              # a rest given as an empty container
        entries.append({"v": [v.base, v.dots, v.r1, v.r2], "notes": notes})
        total += v.length
    return {"key": key, "meter": list(meter), "entries": entries}


def random_text(rng):
    return "".join(rng.choice(TITLE_CHARS) for _ in range(rng.randint(1, 12)))        # (blanks at either end belong to the text)


def expected_entries(bspec):
    out = []
    for e in bspec["entries"]:
        base, dots, r1, r2 = e["v"]
        ps = None if not e["notes"] else sorted((n[0], n[1]) for n in e["notes"])
        out.append((ps, Fraction(base), dots, (r1, r2)))
    return out


def canon_entries(entries):
    """the notes of a chord are a set: their order inside < > is not part of the statement"""
    return [(None if e[0] is None else sorted(e[0]), e[1], e[2], e[3]) for e in entries]


def keyname(key):
    return (key[0].upper() + key[1:], "minor" if key[0].islower() else "major")


def check_ly_bar(ctx, node, bspec, w, showkey, showtime, mech=""):
    got = canon_entries(node["entries"])
    exp = expected_entries(bspec)
    ok = got == exp
    detail = None
    if not ok:
        k = next((i for i, (a, b) in enumerate(zip(exp, got)) if a != b), min(len(exp), len(got)))
        detail = {"entry": k, "written": exp[k:k + 1], "decoded": got[k:k + 1], "counts": [len(exp), len(got)]}
    ctx.check("lilypond: every entry decodes to the same pitches (letter, accidentals, octave), base value, dots and tuplet ratio",
              ok, w, None, detail, mechanism="ly-entries" + mech)
    if showkey:
        ctx.check("lilypond: the key shown is the bar's key (tonic and mode)", node["key"] == keyname(bspec["key"]), w, keyname(bspec["key"]),
                  node["key"], mechanism="ly-key" + mech)
    else:
        ctx.check("lilypond: no key is shown when not asked for", node["key"] is None, w, None, node["key"], mechanism="ly-key-hidden" + mech)
    if showtime:
        ctx.check("lilypond: the time signature shown is the bar's meter", node["time"] == tuple(bspec["meter"]), w, tuple(bspec["meter"]),
                  node["time"], mechanism="ly-time" + mech)
    else:
        ctx.check("lilypond: no time signature is shown when not asked for", node["time"] is None, w, None, node["time"],
                  mechanism="ly-time-hidden" + mech)


def check_ly_track(ctx, node, tspec, w):
    ok = len(node["blocks"]) == len(tspec["bars"]) and not node["entries"]
    ctx.check("lilypond: a track decodes to one block per bar", ok, w, len(tspec["bars"]), len(node["blocks"]), mechanism="ly-track-bars")
    if not ok:
        return
    key, time = ("C", "major"), (4, 4)
    for bi, (bn, bs) in enumerate(zip(node["blocks"], tspec["bars"])):
        if bn["key"] is not None:
            key = bn["key"]
        if bn["time"] is not None:
            time = bn["time"]
        ctx.check("lilypond: key and time are shown wherever they change between bars (running state equals each bar's)",
                  key == keyname(bs["key"]) and time == tuple(bs["meter"]), dict(w, bar=bi), [keyname(bs["key"]), tuple(bs["meter"])],
                  [key, time], mechanism="ly-running-state")
        got, exp = canon_entries(bn["entries"]), expected_entries(bs)
        ctx.check("lilypond: every entry decodes to the same pitches (letter, accidentals, octave), base value, dots and tuplet ratio",
                  got == exp, dict(w, bar=bi), exp[:2], got[:2], mechanism="ly-entries-track")


def check_xml(ctx, doc, cspec, w):
    ids = [p["id"] for p in doc["part_list"]]
    pids = [p["id"] for p in doc["parts"]]
    ctx.check("musicxml: one uniquely identified part per track matching the part list", ids == pids and len(set(ids)) == len(ids)
              and len(ids) == len(cspec["tracks"]) and all(ids), w, len(cspec["tracks"]), [ids, pids], mechanism="xml-parts")
    if "title" in cspec:
        ctx.check("musicxml: title and composer appear unaltered", (doc["title"] or "") == cspec["title"] and
                  (doc["composer"] or "") == cspec["author"], w, [cspec["title"], cspec["author"]], [doc["title"], doc["composer"]],
                  mechanism="xml-title")
    if len(doc["parts"]) != len(cspec["tracks"]):
        return
    for ti, (ts, pl, part) in enumerate(zip(cspec["tracks"], doc["part_list"], doc["parts"])):
        ww = dict(w, track=ti)
        ctx.check("musicxml: track names appear unaltered", pl["name"] == ts["name"], ww, ts["name"], pl["name"], mechanism="xml-part-name")
        if ts.get("instrument"):
            ctx.check("musicxml: instrument names appear unaltered", (pl["instrument"] or "") == ts["instrument"].get("name", ""), ww,
                      ts["instrument"].get("name", ""), pl["instrument"], mechanism="xml-instrument-name")
        ms = part["measures"]
        ctx.check("musicxml: one numbered measure per bar", [m["number"] for m in ms] == [str(i + 1) for i in range(len(ts["bars"]))], ww,
                  len(ts["bars"]), [m["number"] for m in ms], mechanism="xml-measure-numbers")
        for bi, (bs, m) in enumerate(zip(ts["bars"], ms)):
            www = dict(ww, bar=bi)
            k = T.KEY_BY_NAME[bs["key"]]
            ctx.check("musicxml: each measure carries the bar's meter, key signature and mode",
                      (m["beats"], m["beat_type"], m["fifths"], m["mode"]) == (str(bs["meter"][0]), str(bs["meter"][1]), str(k[1]), k[2]),
                      www, [bs["meter"], k[1], k[2]], [m["beats"], m["beat_type"], m["fifths"], m["mode"]], mechanism="xml-attributes")
            exp = []            # one group per entry: (sorted pitches | None, dots, quarters)
            for e in bs["entries"]:
                v = MM.val_of(e["v"])
                q = v.length * 4
                if not e["notes"]:
                    exp.append((None, v.dots, q, 1))
                else:
                    exp.append((sorted((n[0][0], T.net(n[0]), n[1]) for n in e["notes"]), v.dots, q, len(e["notes"])))
            # group the decoded note elements: a note without <chord/> starts a new entry
            groups, shape_ok = [], True
            for x in m["notes"]:
                if x["chord"]:
                    if not groups or groups[-1]["pitches"] is None or x["pitch"] is None:
                        shape_ok = False
                        break
                    groups[-1]["pitches"].append(x["pitch"])
                    groups[-1]["dots"].add(x["dots"])
                    groups[-1]["quarters"].add(x["quarters"])
                else:
                    groups.append({"pitches": None if x["pitch"] is None else [x["pitch"]], "dots": {x["dots"]}, "quarters": {x["quarters"]}})
            ctx.check("musicxml: chord membership marks every chord note after the first", shape_ok and
                      [len(g["pitches"]) if g["pitches"] else 1 for g in groups] == [e[3] for e in exp], www,
                      [e[3] for e in exp], [len(g["pitches"]) if g["pitches"] else 1 for g in groups] if shape_ok else "chord mark on a rest / first note",
                      mechanism="xml-chord")
            if shape_ok and len(groups) == len(exp):
                ctx.check("musicxml: one note element per note or rest whose step, alteration and octave give the pitch",
                          [None if g["pitches"] is None else sorted(g["pitches"]) for g in groups] == [e[0] for e in exp], www,
                          [e[0] for e in exp][:3], [g["pitches"] for g in groups][:3], mechanism="xml-pitch")
                ctx.check("musicxml: the number of dots matches", all(g["dots"] == {e[1]} for g, e in zip(groups, exp)), www,
                          [e[1] for e in exp], [sorted(g["dots"]) for g in groups], mechanism="xml-dots")
                ctx.check("musicxml: duration divided by divisions equals the length in quarter notes",
                          all(g["quarters"] == {e[2]} for g, e in zip(groups, exp)), www, [str(e[2]) for e in exp],
                          [[str(q) for q in g["quarters"]] for g in groups], mechanism="xml-duration")


def run(shard, ctx):
    values = notation_values()
    rng = ctx.rng("exports")
    if shard["kind"] == "exports":
        for i in range(shard["n"]):
            what = rng.choice(["note", "container", "bar", "bar", "track", "composition"])
            w = {"what": what}
            if what == "note":
                n = MM.random_notes(rng, size=1, lo=0, hi=107, acc=2)[0]
                w["note"] = n
                note = Note(n[0], n[1])
                for standalone in (True, False):
                    for po in (True, False):
                        st, s = ctx.call(LP.from_Note, note, po, standalone)
                        ok = st == "ok" and isinstance(s, str)
                        if ok:
                            try:
                                tok = s.strip("{} ") if standalone else s
                                ok = standalone == (s.startswith("{") and s.endswith("}")) and ly.parse_pitch(tok) == (n[0], n[1] if po else 3)
                            except ly.LyError:
                                ok = False
                        ctx.check("lilypond: a note decodes to the same letter, accidentals and octave", ok, dict(w, standalone=standalone,
                                  process_octaves=po), [n[0], n[1]], repr(s), mechanism="ly-note")
                ctx.case(("ly-note", s))
            elif what == "container":
                notes = MM.random_notes(rng, lo=0, hi=107, acc=2) if rng.random() < 0.85 else None
                v = rng.choice(values)
                w.update(notes=notes, value=v.label)
                nc = None if notes is None else MM.build_notes(notes)
                if rng.random() < 0.1:
                    nc, notes = NoteContainer(), None       # an empty container is a rest
                st, s = ctx.call(LP.from_NoteContainer, nc, v.value, True)
                ok = st == "ok" and isinstance(s, str)
                node = None
                if ok:
                    try:
                        node = ly.read_music(s)
                    except ly.LyError as e:
                        ok, s = False, "%s (%s)" % (s, e)
                exp = [(None if notes is None else sorted((n[0], n[1]) for n in notes), Fraction(v.base), v.dots, (1, 1))]
                ctx.check("lilypond: a container decodes to the same pitches with its base value and dots", ok and canon_entries(node["entries"]) == exp, w,
                          exp, node["entries"] if node else repr(s), mechanism="ly-container")
                st, s2 = ctx.call(LP.from_NoteContainer, nc, None, False)
                ctx.check("lilypond: a container without duration carries no duration", st == "ok" and not any(ch.isdigit() for ch in s2), w,
                          None, repr(s2), mechanism="ly-container-noduration")
                ctx.case(("ly-nc", s))
            elif what == "bar":
                bs = random_bar(rng, values)
                w["bar"] = bs
                bar = MM.build_bar(bs)
                sk, stm = rng.random() < 0.7, rng.random() < 0.7
                st, s = ctx.call(LP.from_Bar, bar, sk, stm)
                node = None
                if st == "ok" and isinstance(s, str):
                    try:
                        node = ly.read_music(s)
                    except ly.LyError as e:
                        s = "%s (%s)" % (s, e)
                ctx.check("lilypond: the text parses under the independent reader", node is not None, w, "LilyPond subset", repr(s)[:300],
                          mechanism="ly-parse:bar")
                if node is not None:
                    check_ly_bar(ctx, node, bs, dict(w, showkey=sk, showtime=stm), sk, stm)
                ctx.case(("ly-bar", s))
                # MusicXML of the same bar
                st, x = ctx.call(MX.from_Bar, MM.build_bar(bs))
                cs = {"tracks": [{"name": "Untitled", "instrument": None, "bars": [bs]}]}
                xml_case(ctx, st, x, cs, dict(w, via="musicxml.from_Bar"), "bar", bs)
            else:
                ntr = 1 if what == "track" else rng.randint(1, 3)
                tracks = []
                for ti in range(ntr):
                    key, meter = rng.choice([k[0] for k in T.KEYS]), rng.choice(METERS)
                    bars = []
                    for _ in range(rng.randint(1, 4)):
                        if rng.random() < 0.35:
                            key = rng.choice([k[0] for k in T.KEYS])
                        if rng.random() < 0.35:
                            meter = rng.choice(METERS)
                        bars.append(random_bar(rng, values, key, meter))
                    if len(bars) >= 2 and rng.random() < 0.25:
                        i0 = rng.randrange(len(bars) - 1)
                        twin = dict(bars[i0])
                        twin["reuse_of"] = i0
                        bars.append(twin)           # the same Bar object again, after bars in other keys / meters
                    r = rng.random()
                    ins = None
                    if r < 0.3:
                        ins = {"kind": "midi", "nr": rng.randint(0, 127), "name": random_text(rng)}
                    elif r < 0.4:
                        ins = {"kind": "plain", "name": "Instrument"}
                    tracks.append({"name": random_text(rng), "instrument": ins, "bars": bars})
                cs = {"title": random_text(rng), "author": random_text(rng), "subtitle": random_text(rng), "tracks": tracks}
                w["composition"] = cs
                if what == "track":
                    t = MM.build_track(tracks[0])
                    st, s = ctx.call(LP.from_Track, t)
                    node = None
                    if st == "ok" and isinstance(s, str):
                        try:
                            node = ly.read_music(s)
                        except ly.LyError as e:
                            s = "%s (%s)" % (s, e)
                    ctx.check("lilypond: the text parses under the independent reader", node is not None, w, "LilyPond subset", repr(s)[:300],
                              mechanism="ly-parse:track")
                    if node is not None:
                        check_ly_track(ctx, node, tracks[0], w)
                    ctx.case(("ly-track", s))
                    st, x = ctx.call(MX.from_Track, MM.build_track(tracks[0]))
                    xml_case(ctx, st, x, {"tracks": tracks[:1]}, dict(w, via="musicxml.from_Track"), "track", None)
                    if rng.random() < 0.4:
                        # the exported track is changed in place and exported again: the second export is of the track as it is now
                        ctx.call(MX.from_Track, t)
                        last = tracks[0]["bars"][-1]
                        did = MM.change_track(rng, tracks[0], t, lambda: random_bar(rng, values, last["key"], tuple(last["meter"])),
                                              lambda: MM.random_notes(rng, lo=0, hi=107, acc=2))
                        w2 = dict(w, exported_before_then_changed=did)
                        st, s = ctx.call(LP.from_Track, t)
                        node = None
                        if st == "ok" and isinstance(s, str):
                            try:
                                node = ly.read_music(s)
                            except ly.LyError as e:
                                s = "%s (%s)" % (s, e)
                        ctx.check("lilypond: the text parses under the independent reader", node is not None, w2, "LilyPond subset", repr(s)[:300],
                                  mechanism="ly-parse:track-again")
                        if node is not None:
                            check_ly_track(ctx, node, tracks[0], w2)
                        st, x = ctx.call(MX.from_Track, t)
                        xml_case(ctx, st, x, {"tracks": tracks[:1]}, dict(w2, via="musicxml.from_Track"), "track", None)
                else:
                    c = MM.build_composition(cs)
                    st, s = ctx.call(LP.from_Composition, c)
                    hdr = None
                    if st == "ok" and isinstance(s, str):
                        try:
                            hdr, nodes = ly.read_score(s)
                        except ly.LyError as e:
                            s = "%s (%s)" % (s, e)
                    ctx.check("lilypond: the text parses under the independent reader", hdr is not None, w, "LilyPond subset", repr(s)[:300],
                              mechanism="ly-parse:composition")
                    if hdr is not None:
                        ctx.check("lilypond: the header carries title, author and subtitle", (hdr.get("title"), hdr.get("composer"),
                                  hdr.get("opus")) == (cs["title"], cs["author"], cs["subtitle"]), w, [cs["title"], cs["author"], cs["subtitle"]],
                                  hdr, mechanism="ly-header")
                        ctx.check("lilypond: one music block per track", len(nodes) == len(tracks), w, len(tracks), len(nodes), mechanism="ly-tracks")
                        for node, ts in zip(nodes, tracks):
                            check_ly_track(ctx, node, ts, w)
                    ctx.case(("ly-comp", s))
                    st, x = ctx.call(MX.from_Composition, MM.build_composition(cs))
                    xml_case(ctx, st, x, cs, dict(w, via="musicxml.from_Composition"), "composition", None)
                    if rng.random() < 0.4:
                        ctx.call(MX.from_Composition, c)
                        k = rng.randrange(len(tracks))
                        last = tracks[k]["bars"][-1]
                        did = MM.change_track(rng, tracks[k], c.tracks[k], lambda: random_bar(rng, values, last["key"], tuple(last["meter"])),
                                              lambda: MM.random_notes(rng, lo=0, hi=107, acc=2))
                        w2 = dict(w, exported_before_then_changed=[k, did])
                        st, s = ctx.call(LP.from_Composition, c)
                        hdr = None
                        if st == "ok" and isinstance(s, str):
                            try:
                                hdr, nodes = ly.read_score(s)
                            except ly.LyError as e:
                                s = "%s (%s)" % (s, e)
                        ctx.check("lilypond: the text parses under the independent reader", hdr is not None, w2, "LilyPond subset", repr(s)[:300],
                                  mechanism="ly-parse:composition-again")
                        if hdr is not None:
                            ctx.check("lilypond: one music block per track", len(nodes) == len(tracks), w2, len(tracks), len(nodes), mechanism="ly-tracks")
                            for node, ts in zip(nodes, tracks):
                                check_ly_track(ctx, node, ts, w2)
                        st, x = ctx.call(MX.from_Composition, c)
                        xml_case(ctx, st, x, cs, dict(w2, via="musicxml.from_Composition"), "composition", None)
            if i < 2:
                ctx.sample({"what": what, "lilypond": s if isinstance(s, str) else repr(s)})
    else:
        # every value alone and as a chord; every key; longa / breve; empty bars; every octave
        for v in values:
            for notes in (None, [["C", 4, 0, 64]], [["Eb", 3, 0, 64], ["G#", 3, 0, 64], ["Bbb", 4, 0, 64]]):
                bs = {"key": "C", "meter": [0, 0], "entries": [{"v": [v.base, v.dots, v.r1, v.r2], "notes": notes}, {"v": [4, 0, 1, 1], "notes": [["D", 5, 0, 64]]}]}
                w = {"value": v.label, "notes": notes}
                st, s = ctx.call(LP.from_Bar, MM.build_bar(bs))
                try:
                    node = ly.read_music(s) if st == "ok" else None
                except ly.LyError:
                    node = None
                ctx.check("lilypond: the text parses under the independent reader", node is not None, w, None, repr(s)[:200], mechanism="ly-parse:bar")
                if node:
                    check_ly_bar(ctx, node, bs, w, True, True, mech=":systematic")
                st, x = ctx.call(MX.from_Bar, MM.build_bar(bs))
                xml_case(ctx, st, x, {"tracks": [{"name": "Untitled", "instrument": None, "bars": [bs]}]}, dict(w, via="musicxml.from_Bar"), "bar", bs)
                ctx.case(("sys-value", v.label, repr(notes)))
        for (kname, _s, _m) in T.KEYS:
            for meter in METERS:
                for entries in ([], [{"v": [1, 0, 1, 1], "notes": None}] if meter in ((4, 4), (2, 2), (12, 8), (5, 4), (0, 0)) else []):
                    bs = {"key": kname, "meter": list(meter), "entries": entries}
                    w = {"key": kname, "meter": meter, "entries": len(entries)}
                    st, s = ctx.call(LP.from_Bar, MM.build_bar(bs))
                    try:
                        node = ly.read_music(s) if st == "ok" else None
                    except ly.LyError:
                        node = None
                    ctx.check("lilypond: the text parses under the independent reader", node is not None, w, None, repr(s)[:200], mechanism="ly-parse:bar")
                    if node:
                        check_ly_bar(ctx, node, bs, w, True, True, mech=":systematic")
                    st, x = ctx.call(MX.from_Bar, MM.build_bar(bs))
                    xml_case(ctx, st, x, {"tracks": [{"name": "Untitled", "instrument": None, "bars": [bs]}]}, dict(w, via="musicxml.from_Bar"),
                             "bar", bs)
                    ctx.case(("sys-key", kname, meter, len(entries)))
        for name in T.pure_names(2):
            for o in range(0, 9):
                st, s = ctx.call(LP.from_Note, Note(name, o))
                try:
                    ok = st == "ok" and ly.parse_pitch(s.strip("{} ")) == (name, o)
                except ly.LyError:
                    ok = False
                ctx.check("lilypond: a note decodes to the same letter, accidentals and octave", ok, {"note": [name, o]}, [name, o], repr(s),
                          mechanism="ly-note")
                ctx.case(("sys-note", name, o))
        ctx.sample({"from_Bar": LP.from_Bar(MM.build_bar({"key": "eb", "meter": [6, 8], "entries": [
            {"v": [8, 1, 1, 1], "notes": [["Eb", 4, 0, 64], ["Gb", 4, 0, 64]]}, {"v": [8, 0, 3, 2], "notes": None}]}))})


def xml_case(ctx, st, x, cspec, w, what, bs):
    empty = any(not b["entries"] for t in cspec["tracks"] for b in t["bars"])
    longv = any(e["v"][0] < 1 for t in cspec["tracks"] for b in t["bars"] for e in b["entries"])
    shape = {"empty_bar": empty, "longa_or_breve": longv}
    if st != "ok" or not isinstance(x, str):
        ctx.check("musicxml: the export returns text", False, w, "xml text", repr(x)[:200],
                  mechanism="xml-raise:%s%s" % (type(x).__name__, ":empty-bar" if empty else (":longa-breve" if longv else "")), shape=shape)
        return
    try:
        doc = mxml.read(x)
    except mxml.MXError as e:
        ctx.check("musicxml: well-formed XML with the expected structure", False, w, None, str(e), mechanism="xml-malformed", shape=shape)
        return
    ctx.check("musicxml: well-formed XML with the expected structure", True, w)
    ctx.case(("xml", x[:4000]))
    check_xml(ctx, doc, cspec, w)
