"""C12 A NoteContainer is a pitch-ordered, duplicate-free set under any history."""
import itertools

from mingus.containers import Note, NoteContainer
from mingus.core import chords, progressions, intervals

from rv.models import theory as T
from rv.models import chordtab as CT
from rv.models.containers import SetModel, pitch

ID = "C12"
ANCHOR_FILES = ["mingus/containers/note_container.py", "mingus/containers/note.py"]
REQUIRED_REACH = ["containers.note_container.NoteContainer.add_note", "containers.note_container.NoteContainer.add_notes",
                  "containers.note_container.NoteContainer.remove_note", "containers.note_container.NoteContainer.remove_notes",
                  "containers.note_container.NoteContainer.__add__", "containers.note_container.NoteContainer.__sub__",
                  "containers.note_container.NoteContainer.__eq__", "containers.note_container.NoteContainer.__contains__",
                  "containers.note_container.NoteContainer.get_note_names", "containers.note_container.NoteContainer.is_consonant",
                  "containers.note_container.NoteContainer.is_dissonant",
                  "containers.note_container.NoteContainer.from_chord_shorthand",
                  "containers.note_container.NoteContainer.from_interval_shorthand",
                  "containers.note_container.NoteContainer.from_progression_shorthand"]
REQUIRED_CLAUSES = ["history:", "queries:", "constructors:", "M-sorted"]
RULE = ("operation histories over add/remove forms (bare name, name+octave, Note, lists, containers, '+', '-') checked "
        "after each (random) or after the last (exhaustive) operation against a pitch-set model; constructors from chord, "
        "interval and progression shorthand; non-trivial = history with at least two operations; distinct by the "
        "operation sequence; distinct states = distinct model contents reached")

NAMES6 = ["C", "B#", "E", "Fb", "G", "Cb"]
NAMES16 = ["C", "C#", "Db", "D", "E", "Fb", "E#", "F", "G", "A", "Bb", "B", "Cb", "B#", "Dbb", "F##"]

# the 22-operation alphabet of the exhaustive sweep: (label, apply(nc), apply(model))
ALPHABET = []


def _op(label, f, g):
    ALPHABET.append((label, f, g))


for _n in NAMES6:
    _op("add %s" % _n, (lambda nc, n=_n: nc.add_note(n)), (lambda m, n=_n: m.add(n)))
for _n, _o in (("C", 4), ("B#", 3), ("Fb", 5)):
    _op("add %s-%d" % (_n, _o), (lambda nc, n=_n, o=_o: nc.add_note(n, o)), (lambda m, n=_n, o=_o: m.add(n, o)))
for _n, _o in (("E", 4), ("Cb", 5)):
    _op("add Note(%s-%d)" % (_n, _o), (lambda nc, n=_n, o=_o: nc.add_note(Note(n, o))), (lambda m, n=_n, o=_o: m.add(n, o)))
_op("add_notes ['G','C']", lambda nc: nc.add_notes(["G", "C"]), lambda m: (m.add("G"), m.add("C")))
_op("add_notes [['E',3],['G',5]]", lambda nc: nc.add_notes([["E", 3], ["G", 5]]), lambda m: (m.add("E", 3), m.add("G", 5)))
_op("add_notes [['C',5,{vel}]]", lambda nc: nc.add_notes([["C", 5, {"velocity": 20}]]), lambda m: m.add("C", 5))
_op("add_notes container(B#-3,G-4)", lambda nc: nc.add_notes(NoteContainer([Note("B#", 3), Note("G", 4)])),
    lambda m: (m.add("B#", 3), m.add("G", 4)))
_op("+ Note(Fb-4)", lambda nc: nc + Note("Fb", 4), lambda m: m.add("Fb", 4))
_op("remove 'C'", lambda nc: nc.remove_note("C"), lambda m: m.remove_name("C"))
_op("remove 'B#'", lambda nc: nc.remove_note("B#"), lambda m: m.remove_name("B#"))
_op("remove 'E',4", lambda nc: nc.remove_note("E", 4), lambda m: m.remove_name("E", 4))
_op("remove Note(C-4)", lambda nc: nc.remove_note(Note("C", 4)), lambda m: m.remove_pitch(pitch("C", 4)))
_op("remove_notes ['G','Fb']", lambda nc: nc.remove_notes(["G", "Fb"]), lambda m: (m.remove_name("G"), m.remove_name("Fb")))
_op("- Note(G-4)", lambda nc: nc - Note("G", 4), lambda m: m.remove_pitch(pitch("G", 4)))
assert len(ALPHABET) == 22


def shards(tier, seed):
    out = []
    depth = 3 if tier == "quick" else 4
    for i in range(22):
        out.append({"name": "exhaustive-%02d" % i, "kind": "exh", "first": i, "depth": depth,
                    "weight": 4 if tier == "quick" else 12})
    n = 3000 if tier == "quick" else 150000
    parts = 12 if tier == "quick" else 16
    for i in range(parts):
        out.append({"name": "random-%d" % i, "kind": "random", "n": n // parts, "weight": 6})
    out.append({"name": "ctor-chords", "kind": "ctor-chords", "weight": 5, "acc": 1 if tier == "quick" else 2})
    out.append({"name": "ctor-intervals", "kind": "ctor-intervals", "weight": 3})
    out.append({"name": "ctor-progressions", "kind": "ctor-prog", "weight": 4})
    # (without the in-situ monitors: half a million pair tests under them would take half a minute)
    out.append({"name": "large-container", "kind": "large", "bare": True, "weight": 6})
    if tier == "thorough":
        out.append({"name": "repo-tests-under-monitors", "kind": "repotests", "mode": "record",
                    "tests": ["tests/unit/containers"], "weight": 3})
    return out


def content(nc):
    return [(pitch(x.name, x.octave), x.name, x.octave) for x in nc.notes]


def check_content(ctx, nc, m, hist):
    got = content(nc)
    ok = got == m.m
    ctx.check("history: the container holds exactly the pitches the set model predicts, low to high, none twice", ok,
              {"history": hist}, m.m, got, mechanism="content")
    return ok


def check_queries(ctx, nc, m, hist):
    w = {"history": hist, "content": m.m}
    st, v = ctx.call(len, nc)
    ctx.check("queries: length", st == "ok" and v == len(m.m), w, len(m.m), repr(v), mechanism="len")
    st, v = ctx.call(nc.get_note_names)
    ctx.check("queries: unique-name list", st == "ok" and v == m.names(), w, m.names(), repr(v), mechanism="names")
    pitches = set(x[0] for x in m.m)
    for (n, o) in (("C", 4), ("B#", 3), ("E", 4), ("Fb", 4), ("G", 5), ("Cb", 5), ("D", 4)):
        st, v = ctx.call(lambda: Note(n, o) in nc)
        ctx.check("queries: membership follows the pitches", st == "ok" and bool(v) == (pitch(n, o) in pitches), dict(w, probe=[n, o]),
                  pitch(n, o) in pitches, repr(v), mechanism="in")
    twin = NoteContainer([Note(x[1], x[2]) for x in m.m])
    st, v = ctx.call(lambda: nc == twin)
    ctx.check("queries: equal to a container rebuilt from the model content", st == "ok" and bool(v) is True, w, True, repr(v),
              mechanism="eq")
    # ... and to a container holding the same pitches under other spellings (content is pitches: enharmonic notes are equal)
    respelt = NoteContainer([Note(x[0]) if k % 2 == 0 else Note(x[1], x[2]) for k, x in enumerate(m.m) if 0 <= x[0] <= 127])
    if len(respelt) == len(m.m):
        st, v = ctx.call(lambda: nc == respelt)
        ctx.check("queries: equal to a container rebuilt from the model content", st == "ok" and bool(v) is True, dict(w, rebuilt="with other spellings"),
                  True, repr(v), mechanism="eq-respelt")
        st, v = ctx.call(lambda: respelt == nc)
        ctx.check("queries: equal to a container rebuilt from the model content", st == "ok" and bool(v) is True, dict(w, rebuilt="with other spellings"),
                  True, repr(v), mechanism="eq-respelt")
    free = 130
    while free in pitches:
        free += 1
    other = NoteContainer([Note(x[1], x[2]) for x in m.m] + [Note(free)])
    st, v = ctx.call(lambda: nc == other)
    ctx.check("queries: not equal to a container with one more note", st == "ok" and bool(v) is False, w, False, repr(v), mechanism="eq")
    if m.m:
        fewer = NoteContainer([Note(x[1], x[2]) for x in m.m[:-1]] + [Note(free)])
        st, v = ctx.call(lambda: nc == fewer)
        ctx.check("queries: not equal to a container with a different note", st == "ok" and bool(v) is False, w, False, repr(v),
                  mechanism="eq")
    names = [x[1] for x in m.m]
    pairs = list(itertools.combinations(names, 2))

    def dist(a, b):
        return (T.pc(b) - T.pc(a)) % 12
    for inc in (True, False):
        perf = all(dist(a, b) in ((0, 7, 5) if inc else (0, 7)) for a, b in pairs)
        cons = all(dist(a, b) in ((0, 7, 5, 3, 4, 8, 9) if inc else (0, 7, 3, 4, 8, 9)) for a, b in pairs)
        st, v = ctx.call(nc.is_perfect_consonant, inc)
        ctx.check("queries: perfect consonance holds exactly when every pair is perfectly consonant", st == "ok" and bool(v) == perf,
                  dict(w, include_fourths=inc), perf, repr(v), mechanism="pred:perfect")
        st, v = ctx.call(nc.is_consonant, inc)
        ctx.check("queries: consonance holds exactly when every pair is consonant", st == "ok" and bool(v) == cons,
                  dict(w, include_fourths=inc), cons, repr(v), mechanism="pred:consonant")
        # is_dissonant(x) is documented as not is_consonant(not x)
        cons_n = all(dist(a, b) in ((0, 7, 5, 3, 4, 8, 9) if not inc else (0, 7, 3, 4, 8, 9)) for a, b in pairs)
        st, v = ctx.call(nc.is_dissonant, inc)
        ctx.check("queries: dissonant is the negation of consonant", st == "ok" and bool(v) == (not cons_n), dict(w, include_fourths=inc),
                  not cons_n, repr(v), mechanism="pred:dissonant")
    imp = all(dist(a, b) in (3, 4, 8, 9) for a, b in pairs)
    st, v = ctx.call(nc.is_imperfect_consonant)
    ctx.check("queries: imperfect consonance holds exactly when every pair is imperfectly consonant", st == "ok" and bool(v) == imp, w,
              imp, repr(v), mechanism="pred:imperfect")


def ascending_ok(notes_, names):
    """root in octave 4, names in order, each next note at or above the previous top, < 12 above it"""
    if [n.name for n in notes_] != names:
        return False
    if not notes_ or notes_[0].octave != 4:
        return False
    for a, b in zip(notes_, notes_[1:]):
        if not 0 <= int(b) - int(a) < 12:
            return False
    return True


def run(shard, ctx):
    kind = shard["kind"]
    if kind == "exh":
        first = shard["first"]
        cnt = 0
        for depth in range(1, shard["depth"] + 1):
            for rest in itertools.product(range(22), repeat=depth - 1):
                seq = (first,) + rest
                nc, m = NoteContainer(), SetModel()
                hist = []
                failed = False
                for i in seq:
                    label, f, g = ALPHABET[i]
                    hist.append(label)
                    st, r = ctx.call(f, nc)
                    g(m)
                    if st != "ok":
                        ctx.check("history: every add/remove form is accepted", False, {"history": hist}, None, repr(r),
                                  mechanism="raise:" + label.split(" ")[0])
                        failed = True
                        break
                if failed:
                    continue
                if check_content(ctx, nc, m, hist) and (depth < shard["depth"] or cnt % 7 == 0):
                    check_queries(ctx, nc, m, hist)
                ctx.case(("exh",) + seq, nontrivial=len(seq) >= 2)
                ctx.state(m.state())
                cnt += 1
        ctx.note_exhaustive("operation sequences of length <= %d starting with %r over the 22-operation alphabet" %
                            (shard["depth"], ALPHABET[first][0]), cnt)
        ctx.sample({"history": [ALPHABET[first][0], ALPHABET[3][0], ALPHABET[17][0]]})
    elif kind == "random":
        rng = ctx.rng("random")
        if shard["name"].endswith("-0"):
            # every top note x every bare name, octave 0 included: where the bare name is voiced
            pool = NAMES16 + ["B##", "Cbb", "A###", "Dbbb", "E#", "Fb"]
            for tn in pool:
                for to in (0, 1, 4):
                    for bare in pool:
                        nc, m = NoteContainer(), SetModel()
                        nc.add_note(tn, to), m.add(tn, to)
                        hist = [("add", tn, to), ("add", bare)]
                        st, r = ctx.call(nc.add_note, bare)
                        m.add(bare)
                        if st != "ok":
                            ctx.check("history: every add/remove form is accepted", False, {"history": hist}, None, repr(r), mechanism="raise:add")
                        else:
                            check_content(ctx, nc, m, hist)
                        ctx.case(("voicing", tn, to, bare))
        for h in range(shard["n"]):
            nc, m = NoteContainer(), SetModel()
            hist = []
            for step in range(rng.randint(1, 40)):
                op = rng.randrange(12) if rng.random() < 0.88 else rng.choice([12, 13, 14, 15, 16, 17, 18, 18, 18])
                n = rng.choice(NAMES16)
                o = rng.choice([0, 1, 2, 3, 4, 5, 6, 3, 4, 5])
                if op == 14:
                    # the container's own list of notes handed back to it
                    f = lambda: nc.remove_notes(nc.notes); m.m = []; hist.append(("remove_notes(its own notes list)",))
                elif op == 15:
                    f = lambda: nc - nc; m.m = []; hist.append(("- itself",))
                elif op == 16:
                    f = lambda: nc.add_notes(nc.notes); hist.append(("add_notes(its own notes list)",))
                elif op == 17:
                    f = lambda: nc + nc; hist.append(("+ itself",))
                elif op == 18:
                    # one list mixing every item form in any order: a bare name after a lower entry that carries its octave is
                    # voiced above the top note the container has by then, not above the entry before it (seed C12-11B)
                    lst, acts = [], []
                    for _ in range(rng.randint(2, 4)):
                        a, b = rng.choice(NAMES16), rng.randint(1, 6)
                        form = rng.choice(["bare", "bare", "str", "pair", "note"])
                        if form == "bare":
                            lst.append(a); acts.append((a,))
                        elif form == "str":
                            lst.append("%s-%d" % (a, b)); acts.append((a, b))
                        elif form == "pair":
                            lst.append([a, b]); acts.append((a, b))
                        else:
                            lst.append(Note(a, b)); acts.append((a, b))
                    via = rng.choice(["add_notes", "+", "ctor"]) if not hist else rng.choice(["add_notes", "+"])
                    if via == "ctor":
                        def f(l_=lst):
                            nc.notes = NoteContainer(l_).notes
                    elif via == "+":
                        f = lambda l_=lst: nc + l_
                    else:
                        f = lambda l_=lst: nc.add_notes(l_)
                    [m.add(*x) for x in acts]
                    hist.append(("%s list of mixed forms" % via, repr(lst)))
                elif op == 12:
                    # the container is emptied and used again
                    f = lambda: nc.empty(); m.m = []; hist.append(("empty",))
                elif op == 13:
                    # a shorthand constructor on a container that already holds notes (it starts over)
                    which = rng.choice(["chord", "chord", "progression", "interval"])
                    if which == "chord":
                        sh = rng.choice(["C", "E", "G", "Bb", "F#"]) + rng.choice(["", "m7", "7", "dim7", "M7", "sus4", "6"])
                        names_ = chords.from_shorthand(sh)
                        f = lambda: nc.from_chord_shorthand(sh)
                    elif which == "progression":
                        sh, key_ = rng.choice(["I", "IV", "V7", "vi", "ii7", "bII"]), rng.choice(["C", "G", "F", "a", "Eb"])
                        from mingus.core import progressions as _P
                        names_ = _P.to_chords(sh, key_)[0]
                        f = lambda a_=sh, b_=key_: nc.from_progression_shorthand(a_, b_)
                        sh = "%s in %s" % (sh, key_)
                    else:
                        start_, ish = rng.choice(["C", "E", "Ab", "F#"]), rng.choice(["3", "b3", "5", "b7", "2", "#4"])
                        from mingus.core import intervals as _I
                        names_ = [start_, _I.from_shorthand(start_, ish)]
                        f = lambda a_=start_, b_=ish: nc.from_interval_shorthand(a_, b_)
                        sh = "%s up %s" % (start_, ish)
                    m.m = []
                    [m.add(x) for x in names_]
                    hist.append(("from_%s_shorthand on the used container" % which, sh))
                elif op == 0:
                    f = lambda: nc.add_note(n); m.add(n); hist.append(("add", n))
                elif op == 1:
                    f = lambda: nc.add_note(n, o); m.add(n, o); hist.append(("add", n, o))
                elif op == 2:
                    # (notes come on any channel and at any velocity: the container is a set of pitches all the same)
                    ch, vel = rng.choice([1, 1, 0, 9, 15]), rng.choice([64, 64, 1, 127])
                    f = lambda: nc.add_note(Note(n, o, channel=ch, velocity=vel)); m.add(n, o); hist.append(("add Note", n, o, {"channel": ch, "velocity": vel}))
                elif op == 3:
                    lst = [rng.choice(NAMES16) for _ in range(rng.randint(1, 3))]
                    f = lambda: nc + lst
                    [m.add(x) for x in lst]
                    hist.append(("+ list", lst))
                elif op == 4:
                    lst = [[rng.choice(NAMES16), rng.randint(2, 6)] for _ in range(2)]
                    f = lambda: nc.add_notes(lst)
                    [m.add(a, b) for a, b in lst]
                    hist.append(("add_notes", lst))
                elif op == 5:
                    # by name: remove_note, '-' with the bare name, remove_notes with the bare name
                    via = rng.choice(["remove", "- name", "remove_notes(name)"])
                    f = {"remove": lambda: nc.remove_note(n), "- name": lambda: nc - n, "remove_notes(name)": lambda: nc.remove_notes(n)}[via]
                    m.remove_name(n); hist.append((via, n))
                elif op == 6:
                    f = lambda: nc.remove_note(n, o); m.remove_name(n, o); hist.append(("remove", n, o))
                elif op == 7:
                    via = rng.choice(["- Note", "remove_notes(Note)", "remove_note(Note)", "- [Note]"])
                    f = {"- Note": lambda: nc - Note(n, o), "remove_notes(Note)": lambda: nc.remove_notes(Note(n, o)),
                         "remove_note(Note)": lambda: nc.remove_note(Note(n, o)), "- [Note]": lambda: nc - [Note(n, o)]}[via]
                    m.remove_pitch(pitch(n, o)); hist.append((via, n, o))
                elif op == 8:
                    other = NoteContainer([Note(rng.choice(NAMES16), rng.randint(2, 6)) for _ in range(2)])
                    for x in other.notes:
                        m.add(x.name, x.octave)
                    f = lambda: nc.add_notes(other)
                    hist.append(("add container", repr(other)))
                elif op == 9:
                    lst = [rng.choice(NAMES16) for _ in range(2)]
                    f = lambda: nc.remove_notes(lst)
                    [m.remove_name(x) for x in lst]
                    hist.append(("remove_notes", lst))
                elif op == 10:
                    f = lambda: nc + n; m.add(n); hist.append(("+", n))
                elif rng.random() < 0.5:
                    lst = [Note(rng.choice(NAMES16), rng.randint(2, 6), channel=rng.choice([1, 2, 10])),
                           [rng.choice(NAMES16), 3, rng.choice([{"velocity": 9}, {"channel": 9}, {"channel": 3, "velocity": 100}])]]
                    m.add(lst[0].name, lst[0].octave), m.add(lst[1][0], 3)
                    f = lambda: nc.add_notes(lst)
                    hist.append(("add_notes mixed", repr(lst)))
                else:
                    # other iterables of names: a tuple, a one-shot iterator
                    names_ = [rng.choice(NAMES16) for _ in range(rng.randint(1, 3))]
                    [m.add(x) for x in names_]
                    if rng.random() < 0.5:
                        f = lambda: nc.add_notes(tuple(names_))
                        hist.append(("add_notes tuple", names_))
                    else:
                        f = lambda: nc.add_notes(iter(names_))
                        hist.append(("add_notes iterator", names_))
                st, r = ctx.call(f)
                if st != "ok":
                    ctx.check("history: every add/remove form is accepted", False, {"history": hist}, None, repr(r),
                              mechanism="raise:" + hist[-1][0])
                    break
                if not check_content(ctx, nc, m, hist):
                    break
                ctx.state(m.state())
                if rng.random() < 0.15:
                    check_queries(ctx, nc, m, hist)
            ctx.case(("random", repr(hist)), nontrivial=len(hist) >= 2)
            if h == 0:
                ctx.sample({"history": hist, "final": m.m})
    elif kind == "ctor-chords":
        roots = list(T.pure_names(shard["acc"]))
        for sh in sorted(chords.chord_shorthand):
            for r in roots:
                names = chords.from_shorthand(r + sh)
                st, nc = ctx.call(NoteContainer().from_chord_shorthand, r + sh)
                ok = st == "ok" and ascending_ok(nc.notes, names)
                ctx.check("constructors: chord shorthand starts on the root in octave 4 and ascends through the chord in order", ok,
                          {"shorthand": r + sh}, names, repr(nc), mechanism="ctor:chord")
                st, nc2 = ctx.call(NoteContainer().from_chord, r + sh)
                ctx.check("constructors: from_chord is the same", st == "ok" and st and nc2 == nc, {"shorthand": r + sh})
                ctx.case(("ctor-chord", r + sh))
        # slash chords whose bass is a chord tone, polychords whose halves share names, the same chord twice: every name of
        # the chord in order, a name that comes again an octave up
        for text in ["C/E", "C/G", "Am/E", "G7/B", "F/A", "Am|C", "C|C", "Dm7|F", "Em/E", "C/C", "G7/F", "Cm/Eb|Ab", "F#m7/C#"]:
            names = chords.from_shorthand(text)
            exp = SetModel()
            for x in names:
                exp.add(x)
            st, nc = ctx.call(NoteContainer().from_chord_shorthand, text)
            ok = st == "ok" and [(int(x), x.name) for x in nc.notes] == [(p, n) for (p, n, _o) in exp.m]
            ctx.check("constructors: chord shorthand starts on the root in octave 4 and ascends through the chord in order", ok,
                      {"shorthand": text}, [(n, o) for (_p, n, o) in exp.m], repr(nc), mechanism="ctor:chord-repeated-names")
            ctx.case(("ctor-chord", text))
        ctx.sample({"from_chord_shorthand('Am')": repr(NoteContainer().from_chord_shorthand("Am"))})
    elif kind == "ctor-intervals":
        for n in T.pure_names(2):
            for sh in T.all_shorthands(2):
                size = T.shorthand_size(sh)
                if not 0 <= size <= 11 or len(n) - 1 + len(sh) - 1 > 5:
                    continue
                for up in (True, False):
                    st, nc = ctx.call(NoteContainer().from_interval_shorthand, n, sh, up)
                    base = pitch(n, 4)
                    exp = sorted(set([base, base + size if up else base - size]))
                    ok = st == "ok" and [int(x) for x in nc.notes] == exp and any(x.name == n and x.octave == 4 for x in nc.notes)
                    ctx.check("constructors: interval shorthand holds the start note in octave 4 and the note that far away", ok,
                              {"start": n, "shorthand": sh, "up": up}, exp, repr(nc), mechanism="ctor:interval")
                    ctx.case(("ctor-interval", n, sh, up))
        ctx.sample({"from_interval_shorthand('C','5',False)": repr(NoteContainer().from_interval_shorthand("C", "5", False))})
    elif kind == "large":
        # one very large container (1 020 notes: C, E and G in 340 octaves) under the interpreter's default recursion limit:
        # length, order and the predicates still follow the content
        import sys
        big, want = NoteContainer(), []
        for o in range(340):
            for nm in ("C", "E", "G"):
                big.add_note(Note(nm, o))
                want.append(pitch(nm, o))
        got = [int(x) for x in big.notes]
        ctx.check("history: the container holds exactly the pitches the set model predicts, low to high, none twice", got == sorted(want),
                  {"history": "C, E, G added in octaves 0..339"}, len(want), len(got), mechanism="content:large")
        old_limit = sys.getrecursionlimit()
        sys.setrecursionlimit(1000)
        try:
            for (fname, exp) in (("is_consonant", True), ("is_perfect_consonant", False)):
                st, v = ctx.call(getattr(big, fname))
                ctx.check("queries: consonance holds exactly when every pair is consonant" if fname == "is_consonant" else
                          "queries: dissonant is the negation of consonant" if fname == "is_dissonant" else
                          "queries: perfect consonance holds exactly when every pair is perfectly consonant" if fname == "is_perfect_consonant" else
                          "queries: imperfect consonance holds exactly when every pair is imperfectly consonant",
                          st == "ok" and bool(v) is exp, {"content": "C, E, G in octaves 0..339", "predicate": fname}, exp, repr(v)[:120],
                          mechanism="pred:large-container")
        finally:
            sys.setrecursionlimit(old_limit)
        ctx.case(("large-container",))
    elif kind == "ctor-prog":
        for (kname, _s, _m) in T.KEYS:
            for nu in ["I", "II", "III", "IV", "V", "VI", "VII"]:
                for suf in ["", "7", "m7", "dim7", "M9"]:
                    for p in ["", "b", "#", "bb"]:
                        s = p + nu + suf
                        names = progressions.to_chords(s, kname)[0]
                        st, nc = ctx.call(NoteContainer().from_progression_shorthand, s, kname)
                        ok = st == "ok" and nc is not False and ascending_ok(nc.notes, names)
                        ctx.check("constructors: progression shorthand starts on the root in octave 4 and ascends in order", ok,
                                  {"numeral": s, "key": kname}, names, repr(nc), mechanism="ctor:progression")
                        ctx.case(("ctor-prog", kname, s))
            for bad in ["IIII", "X", "", "VV"]:
                st, r = ctx.call(NoteContainer().from_progression_shorthand, bad, kname)
                ctx.check("constructors: an unrecognised numeral gives False", st == "ok" and r is False, {"numeral": bad, "key": kname},
                          False, repr(r), mechanism="ctor:progression-bad")
        ctx.sample({"from_progression_shorthand('VI')": repr(NoteContainer().from_progression_shorthand("VI"))})
    elif kind == "repotests":
        from rv import repotests
        repotests.run(ctx, shard["tests"])
