"""C05 Every scale realises its defining step pattern; scale recognition is exact."""
from mingus.core import scales

from rv.models import theory as T

ID = "C05"
ANCHOR_FILES = ["mingus/core/scales.py", "mingus/core/keys.py", "mingus/core/intervals.py"]
REQUIRED_REACH = ["core.scales.determine", "core.scales._Scale.degree", "core.scales._Scale.descending",
                  "core.scales.Diatonic.ascending", "core.scales.Chromatic.descending",
                  "core.scales.MelodicMinor.descending", "core.scales.MinorNeapolitan.descending",
                  "core.scales.Octatonic.ascending", "core.scales.WholeTone.ascending",
                  "core.scales.HarmonicMajor.ascending", "core.scales._Scale.__eq__", "core.scales._Scale.__len__"]
REQUIRED_CLAUSES = ["ascending:", "descending:", "degree:", "len/eq:", "recognition:"]
RULE = ("(scale class, tonic valid for the class, octave count) with every degree in both directions; note sets "
        "(subsets of model scales, scale + foreign note, random name sets, the empty set) for recognition against "
        "a brute-force specification built from the model; non-trivial = tonic other than C or octaves > 1 "
        "(scales) / non-empty set (recognition); distinct by (class, tonic, octaves) or by the note set")

HEPTA = ["Ionian", "Dorian", "Phrygian", "Lydian", "Mixolydian", "Aeolian", "Locrian", "Major", "HarmonicMajor",
         "NaturalMinor", "HarmonicMinor", "MelodicMinor", "Bachian", "MinorNeapolitan"]
FREE_TONIC = ["Ionian", "Dorian", "Phrygian", "Lydian", "Mixolydian", "Aeolian", "Locrian", "WholeTone", "Octatonic"]
ALL = HEPTA + ["WholeTone", "Octatonic", "Chromatic", "Diatonic"]


def shards(tier, seed):
    out = []
    for cls in ALL:
        out.append({"name": "scale-" + cls, "kind": "scale", "cls": cls, "after_history": cls in ("Major", "Dorian", "Chromatic", "HarmonicMinor"),
                    "acc": 2 if tier == "quick" else 3,
                    "octaves": [1, 2, 3] if tier == "quick" else [1, 2, 3, 4, 5, 6], "weight": 3})
    out.append({"name": "cold-order", "kind": "cold", "cold": True, "weight": 3})
    out.append({"name": "equality", "kind": "eq", "weight": 2})
    n = 2000 if tier == "quick" else 60000
    parts = 8 if tier == "quick" else 16
    for i in range(parts):
        out.append({"name": "recognition-%d" % i, "kind": "recog", "part": i, "n": n // parts, "weight": 6})
    return out


def tonics_for(cls, acc):
    if cls in FREE_TONIC or cls == "Diatonic":
        t = list(T.pure_names(acc))
        if acc >= 3:
            t += ["C#b", "Db#", "F#b#", "Gb#b"]
        return t
    if cls in ("Major", "HarmonicMajor"):
        return list(T.MAJOR_KEYS)
    if cls == "Chromatic":
        return [k[0] for k in T.KEYS]
    return [T.minor_tonic(s) for s in range(-7, 8)]


def build(ctx, cls, tonic, octaves, semitones=None):
    C = getattr(scales, cls, None)
    if C is None:
        ctx.unsure("scale class %s is missing" % cls)
        return None
    if cls == "Diatonic":
        st, s = ctx.call(C, tonic, semitones, octaves)
    else:
        st, s = ctx.call(C, tonic, octaves)
    if st != "ok":
        ctx.check("ascending: scale object can be built on a tonic valid for the class", False,
                  {"class": cls, "tonic": tonic, "octaves": octaves}, "scale", repr(s), mechanism="build:" + cls)
        return None
    return s


def check_scale(ctx, cls, tonic, octaves, semitones=None):
    s = build(ctx, cls, tonic, octaves, semitones)
    if s is None:
        return
    pattern = T.SCALE_PATTERNS[T.DIATONIC_SEMITONES[semitones]] if cls == "Diatonic" else T.SCALE_PATTERNS[cls]
    w = {"class": cls, "tonic": tonic, "octaves": octaves}
    if semitones:
        w["semitones"] = list(semitones)
    root = T.notes_of_key(tonic)[0] if cls == "Chromatic" else tonic
    st, asc = ctx.call(s.ascending)
    ok = st == "ok" and isinstance(asc, list) and all(T.valid(x) for x in asc)
    ctx.check("ascending: list of valid names", ok, w, None, repr(asc), mechanism="asc-valid:" + cls)
    if not ok:
        return
    ctx.check("ascending: begins and ends on the tonic", len(asc) >= 2 and asc[0] == root and asc[-1] == root, w, root,
              [asc[0], asc[-1]] if asc else asc, mechanism="asc-tonic:" + cls)
    ctx.check("ascending: exactly the defining step pattern repeated n times", T.steps_of(asc) == pattern * octaves, w,
              pattern * octaves, T.steps_of(asc), mechanism="asc-pattern:" + cls)
    if len(pattern) == 7:
        exp_letters = [T.LETTERS[(T.li(root) + i) % 7] for i in range(7 * octaves + 1)]
        ctx.check("ascending: consecutive letters (heptatonic)", [x[0] for x in asc] == exp_letters, w, exp_letters,
                  [x[0] for x in asc], mechanism="asc-letters:" + cls)
    st, desc = ctx.call(s.descending)
    ok = st == "ok" and isinstance(desc, list) and all(T.valid(x) for x in desc)
    ctx.check("descending: list of valid names", ok, w, None, repr(desc), mechanism="desc-valid:" + cls)
    if not ok:
        return
    if cls in T.DESCENDING_PATTERNS:
        up = desc[::-1]
        dp = T.DESCENDING_PATTERNS[cls]
        ctx.check("descending: melodic minor / minor Neapolitan descend as (altered) natural minor",
                  T.steps_of(up) == dp * octaves and up[0] == root and up[-1] == root
                  and [x[0] for x in up] == [T.LETTERS[(T.li(root) + i) % 7] for i in range(7 * octaves + 1)],
                  w, dp * octaves, desc, mechanism="desc-special:" + cls)
    elif cls == "Chromatic":
        ctx.check("descending: chromatic descends through the reversed pitch classes",
                  [T.pc(x) for x in desc] == [T.pc(x) for x in asc[::-1]] and desc[0] == root and desc[-1] == root,
                  w, [T.pc(x) for x in asc[::-1]], desc, mechanism="desc-chromatic")
    else:
        ctx.check("descending: exact reverse of ascending", desc == asc[::-1], w, asc[::-1], desc,
                  mechanism="desc-reverse:" + cls)
    # degrees
    for k in range(1, len(asc)):
        st, v = ctx.call(s.degree, k)
        ctx.check("degree: ascending lookup agrees with the ascending list", st == "ok" and v == asc[k - 1],
                  dict(w, degree=k), asc[k - 1], repr(v), mechanism="degree-a")
        st, v = ctx.call(s.degree, k, "a")
        ctx.check("degree: ascending lookup agrees with the ascending list", st == "ok" and v == asc[k - 1],
                  dict(w, degree=k), asc[k - 1], repr(v), mechanism="degree-a")
    for k in range(1, len(desc)):
        st, v = ctx.call(s.degree, k, "d")
        ctx.check("degree: descending lookup agrees with the descending list", st == "ok" and v == desc[-k],
                  dict(w, degree=k, direction="d"), desc[-k], repr(v), mechanism="degree-d")
    st, v = ctx.call(len, s)
    ctx.check("len/eq: length follows the note list", st == "ok" and v == len(asc), w, len(asc), v, mechanism="len")
    if octaves == 1 and cls != "Chromatic" and hasattr(s, "octaves"):
        # the same object after its public attributes were changed: lookups follow the lists again
        s.octaves = 2
        st, asc2 = ctx.call(s.ascending)
        if st == "ok" and len(asc2) > 8:
            st, v = ctx.call(s.degree, 8)
            ctx.check("degree: ascending lookup agrees with the ascending list", st == "ok" and v == asc2[7], dict(w, octaves_set_to=2, degree=8),
                      asc2[7], repr(v), mechanism="degree-after-attribute-change")
            st, d2 = ctx.call(s.descending)
            st, v = ctx.call(s.degree, 2, "d")
            ctx.check("degree: descending lookup agrees with the descending list", st == "ok" and isinstance(d2, list) and v == d2[-2],
                      dict(w, octaves_set_to=2, degree=2), d2[-2] if isinstance(d2, list) else None, repr(v), mechanism="degree-after-attribute-change")
        s.octaves = 1
    ctx.case((cls, tonic, octaves, semitones), nontrivial=(tonic not in ("C", "a") or octaves > 1))
    return s, asc, desc


def run(shard, ctx):
    kind = shard["kind"]
    if kind == "scale":
        cls = shard["cls"]
        n = 0
        for tonic in tonics_for(cls, shard["acc"] - 1 if cls == "Diatonic" else shard["acc"]):
            octs = list(shard["octaves"][:2] if cls == "Diatonic" else shard["octaves"])
            ctx.rng("octave-order:" + tonic).shuffle(octs)      # the first use of a tonic is not always the one-octave scale
            for octv in octs:
                if cls == "Diatonic":
                    for sem in T.DIATONIC_SEMITONES:
                        check_scale(ctx, cls, tonic, octv, sem)
                        n += 1
                else:
                    check_scale(ctx, cls, tonic, octv)
                    n += 1
        ctx.note_exhaustive("%s x tonics valid for it (<= %d accidentals) x octaves %s x every degree" %
                            (cls, shard["acc"], shard["octaves"]), n)
        t0 = tonics_for(cls, 1)[1]
        sc = build(ctx, cls, t0, 1, (3, 7) if cls == "Diatonic" else None)
        if sc is not None:
            ctx.sample({"class": cls, "tonic": t0, "ascending": sc.ascending(), "descending": sc.descending()})
    elif kind == "cold":
        # which family a fresh interpreter meets first: a minor-family scale before the scales of its relative major, and the
        # reverse, each order in its own forked child (seed C05-11A: a key table filled for the relative key on first use)
        from rv.props.c15 import forked
        pairs = []
        for (nm, sig, mode) in T.KEYS:
            if mode == "major":
                rel = [k[0] for k in T.KEYS if k[1] == sig and k[2] == "minor"]
                if rel:
                    pairs.append((nm, rel[0][0].upper() + rel[0][1:]))
        MAJ = ["Major", "HarmonicMajor", "Ionian", "Lydian"]
        MIN = ["NaturalMinor", "HarmonicMinor", "MelodicMinor", "Aeolian"]

        def trial(sub, first, second):
            check_scale(sub, first[0], first[1], 1)
            for c in second[0]:
                for octv in (1, 2):
                    check_scale(sub, c, second[1], octv)
            return True

        n = 0
        rng = ctx.rng("cold")
        for (M, m) in pairs:
            for first, second in (((rng.choice(MIN), m), (MAJ, M)), ((rng.choice(MAJ), M), (MIN, m))):
                r = forked(ctx, trial, first, second)
                ctx.check("cold: the trial ran to its end in a fresh child", r is True, {"first": first, "then": second}, True, repr(r),
                          mechanism="cold-trial")
                ctx.case(("cold", first, second[1]), nontrivial=True)
                n += 1
        ctx.sample({"pairs": pairs[:4], "trials": n})
    elif kind == "eq":
        objs = []
        for cls in HEPTA + ["WholeTone", "Octatonic"]:
            for tonic in (["C", "A"] if cls in FREE_TONIC else
                          (["C", "Eb"] if cls in ("Major", "HarmonicMajor") else ["A", "C"])):
                for octv in (1, 2):
                    s = build(ctx, cls, tonic, octv)
                    if s is not None:
                        objs.append(((cls, tonic, octv), s, s.ascending(), s.descending()))
        # chromatic scales are spelled after their key: the major and the minor key of one tonic share the scale's name
        for k in ("C", "a", "Eb", "c", "A", "eb", "F", "f", "Ab", "ab"):
            for octv in (1, 2):
                s = build(ctx, "Chromatic", k, octv)
                if s is not None:
                    objs.append((("Chromatic", k, octv), s, s.ascending(), s.descending()))
        for (da, a, aa, ad) in objs:
            for (db, b, ba, bd) in objs:
                exp = aa == ba and ad == bd
                st, v = ctx.call(lambda: a == b)
                ctx.check("len/eq: equality follows the note lists", st == "ok" and bool(v) == exp, {"a": da, "b": db}, exp, v,
                          mechanism="eq")
                st, v = ctx.call(lambda: a != b)
                ctx.check("len/eq: inequality is the negation", st == "ok" and bool(v) == (not exp), {"a": da, "b": db},
                          not exp, v, mechanism="ne")
                ctx.case(("eq", da, db), nontrivial=da != db)
        ctx.sample({"Major('C') == Ionian('C')": scales.Major("C") == scales.Ionian("C"),
                    "Bachian('A') == MelodicMinor('A')": scales.Bachian("A") == scales.MelodicMinor("A")})
    else:
        SC = T.recognisable_scales()
        rng = ctx.rng("recog")
        N21 = [l + a for l in T.LETTERS for a in ("", "#", "b")]
        N35 = list(T.pure_names(2))
        tests = []
        if shard["part"] == 0:
            tests.append([])
            for (nm, a, d) in SC:
                tests.append(sorted(a))
                tests.append(sorted(d))
        while len(tests) < shard["n"]:
            r = rng.random()
            if r < 0.45:
                nm, a, d = rng.choice(SC)
                src = sorted(rng.choice([a, d]))
                t = rng.sample(src, rng.randint(1, len(src)))
            elif r < 0.65:
                nm, a, d = rng.choice(SC)
                src = sorted(rng.choice([a, d]))
                t = rng.sample(src, rng.randint(2, len(src))) + [rng.choice(N35)]
                rng.shuffle(t)
            elif r < 0.75:
                nm, a, d = rng.choice(SC)
                t = rng.sample(sorted(a | d), rng.randint(2, 6))     # mixes ascending and descending forms
            else:
                t = [rng.choice(N21) for _ in range(rng.randint(1, 8))]
            if rng.random() < 0.1:
                t = t + t[:1]                                        # duplicates must not matter
            tests.append(t)
        for t in tests:
            exp = sorted(nm for (nm, a, d) in SC if set(t) <= a or set(t) <= d)
            arg = list(t)
            form = ("list", "list", "tuple", "set", "iterator", "generator")[len(tests) % 6 if False else (hash(tuple(t)) % 6)]
            given = {"list": arg, "tuple": tuple(arg), "set": set(arg), "iterator": iter(arg), "generator": (x for x in arg)}[form]
            st, got = ctx.call(scales.determine, given)
            ok = st == "ok" and isinstance(got, list) and sorted(got) == exp
            ctx.check("recognition: exactly the major/minor-family scales containing every given note", ok,
                      {"notes": t, "given_as": form}, exp, got if st != "ok" else {"missing": sorted(set(exp) - set(got))[:6],
                                                                "extra": sorted(set(got) - set(exp))[:6],
                                                                "n": len(got)}, mechanism="recognition")
            ctx.check("recognition: argument list unchanged", arg == list(t), {"notes": t}, t, arg)
            ctx.case(("recog", tuple(sorted(set(t)))), nontrivial=len(t) > 0)
            ctx.state(tuple(exp))
        ctx.sample({"notes": ["A", "Bb", "C", "G#"], "determine": scales.determine(["A", "Bb", "C", "G#"])})
