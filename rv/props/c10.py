"""C10 A Note is a totally ordered pitch number with lossless text and Hz forms."""
import operator

from mingus.containers import Note

from rv.models import theory as T

ID = "C10"
ANCHOR_FILES = ["mingus/containers/note.py", "mingus/core/notes.py"]
REQUIRED_REACH = ["containers.note.Note.__init__", "containers.note.Note.__int__", "containers.note.Note.set_note",
                  "containers.note.Note.from_int", "containers.note.Note.to_hertz", "containers.note.Note.from_hertz",
                  "containers.note.Note.to_shorthand", "containers.note.Note.from_shorthand", "containers.note.Note.__lt__",
                  "containers.note.Note.__eq__", "containers.note.Note.__ge__", "containers.note.Note.set_velocity",
                  "containers.note.Note.set_channel"]
REQUIRED_CLAUSES = ["pitch:", "text:", "order:", "hertz:", "helmholtz:", "bounds:", "copy:"]
RULE = ("(name, octave) for names = 7 letters x accidentals and octaves 0..9; integers 0..127 (and beyond); ordered "
        "pairs of notes x 6 comparison operators; (note 0..127, standard pitch, detuning in cents); velocity / channel "
        "integers around the bounds; malformed names; non-trivial = name with an accidental or octave != 4; distinct "
        "by (clause family, input)")

OPS = [("<", operator.lt), ("<=", operator.le), ("==", operator.eq), ("!=", operator.ne), (">", operator.gt),
       (">=", operator.ge)]


def shards(tier, seed):
    out = []
    out.append({"name": "pitch-text", "kind": "pitch", "k": 2 if tier == "quick" else 4, "weight": 3})
    if tier == "quick":
        for L in T.LETTERS:
            out.append({"name": "order-" + L, "kind": "order", "letter": L, "names": "pure2", "octaves": [0, 3, 4, 5, 9], "weight": 4})
    else:
        for L in T.LETTERS:
            for half in (0, 1):
                out.append({"name": "order-%s%d" % (L, half), "kind": "order", "letter": L, "names": "all3", "half": half,
                            "octaves": list(range(10)), "weight": 12})
    sps = [440, 415, 432, 466.16, 392, 380, 480, 443.5, 427.25, 452, 400, 409.9, 436, 445, 470] if tier == "quick" else [380 + 0.5 * i for i in range(201)]
    step = 5 if tier == "quick" else 1
    n = 8 if tier == "quick" else 16
    for i in range(n):
        out.append({"name": "hertz-%d" % i, "kind": "hertz", "sps": sps[i::n], "cent_step": step, "weight": 5})
    out.append({"name": "bounds-copy", "kind": "bounds", "weight": 2})
    for i in range(2 if tier == "quick" else 8):
        out.append({"name": "reuse-%d" % i, "kind": "reuse", "n": 400 if tier == "quick" else 2500, "weight": 3})
    return out


def model_int(name, octave):
    return 12 * octave + T.NAT[name[0]] + T.net(name)


def helm(name, octave):
    """Helmholtz text written independently of the library: C-2 = 'C', C-3 = 'c', C-4 = c'."""
    if octave >= 3:
        return name[0].lower() + name[1:] + "'" * (octave - 3)
    return name + "," * (2 - octave)


def run(shard, ctx):
    kind = shard["kind"]
    if kind == "pitch":
        names = list(T.pure_names(shard["k"])) + ["C#b", "Db#", "E##b", "Bb#", "F#b#"]
        for n in names:
            for o in range(0, 10):
                w = {"name": n, "octave": o}
                exp = model_int(n, o)
                st, x = ctx.call(Note, n, o)
                if st != "ok":
                    ctx.check("pitch: a valid name and octave build a note", False, w, "Note", repr(x))
                    continue
                st, v = ctx.call(int, x)
                ctx.check("pitch: int(note) = 12*octave + natural + sharps - flats", st == "ok" and v == exp, w, exp, repr(v),
                          mechanism="int")
                ctx.check("pitch: name and octave are kept as given", x.name == n and x.octave == o, w, [n, o], [x.name, x.octave])
                # text forms
                st, y = ctx.call(Note, "%s-%d" % (n, o))
                ctx.check("text: 'Name-octave' reproduces the pitch", st == "ok" and int(y) == exp and y.name == n and y.octave == o,
                          w, exp, repr(y), mechanism="dash-text")
                st, y = ctx.call(Note, repr(x)[1:-1])
                ctx.check("text: the printed form reproduces the pitch", st == "ok" and int(y) == exp, dict(w, printed=repr(x)), exp,
                          repr(y), mechanism="printed-form")
                st, y = ctx.call(Note().set_note, n, o)
                ctx.check("text: set_note(name, octave) reproduces the pitch", st == "ok" and int(y) == exp, w, exp, repr(y))
                st, y = ctx.call(Note, x)
                ctx.check("text: a note built from another note has the same pitch", st == "ok" and int(y) == exp and y is not x,
                          w, exp, repr(y), mechanism="from-note")
                # Helmholtz: written by the model, read by the library; written by the library, read back
                st, y = ctx.call(Note().from_shorthand, helm(n, o))
                ok = st == "ok" and getattr(y, "name", None) == n and getattr(y, "octave", None) == o
                ctx.check("helmholtz: reading the Helmholtz text of (name, octave) gives that name and octave", ok,
                          dict(w, text=helm(n, o)), [n, o], repr(y), mechanism="helm-read:" + ("flat" if "b" in n[1:] else "other"))
                st, sh = ctx.call(x.to_shorthand)
                if T.is_pure(n):
                    ctx.check("helmholtz: written text is the Helmholtz form", st == "ok" and sh == helm(n, o), w, helm(n, o), repr(sh),
                              mechanism="helm-write")
                if st == "ok":
                    st, y = ctx.call(Note().from_shorthand, sh)
                    ok = st == "ok" and getattr(y, "name", None) == n and getattr(y, "octave", None) == o
                    ctx.check("helmholtz: shorthand written for any name and octave reads back as the same name and octave",
                              ok, dict(w, text=sh), [n, o], repr(y), mechanism="helm-roundtrip:" + ("flat" if "b" in n[1:] else "other"))
                ctx.case(("note", n, o), nontrivial=(len(n) > 1 or o != 4))
        for i in list(range(0, 128)) + [128, 200, 1000, 12 * 9 + 11]:
            st, x = ctx.call(Note, i)
            ok = st == "ok" and int(x) == i and T.valid(x.name) and len(x.name) <= 2
            ctx.check("pitch: a note set from an integer has that pitch number", ok, {"int": i}, i, repr(x), mechanism="from-int")
            st, y = ctx.call(Note().from_int, i)
            ctx.check("pitch: from_int reproduces the pitch number", st == "ok" and int(y) == i, {"int": i}, i, repr(y))
            if st == "ok":
                st, z = ctx.call(Note, repr(y)[1:-1])
                ctx.check("text: the printed form reproduces the pitch", st == "ok" and int(z) == i, {"int": i}, i, repr(z))
            ctx.case(("int", i))
        ctx.note_exhaustive("pure names with <= %d accidentals x octaves 0..9; integers 0..127" % shard["k"], len(names) * 10 + 128)
        ctx.sample({"Note('Bb', 3)": repr(Note("Bb", 3)), "int": int(Note("Bb", 3)), "helmholtz": Note("Bb", 3).to_shorthand()})
    elif kind == "order":
        L = shard["letter"]
        if shard["names"] == "pure2":
            names = list(T.pure_names(2))
            firsts = [n for n in names if n[0] == L]
        else:
            names = list(T.all_names(3))
            firsts = [n for n in names if n[0] == L]
            firsts = firsts[shard["half"]::2]
        octs = shard["octaves"]
        # (channels and velocities differ from note to note: comparisons are about pitch alone)
        seconds = [(n, o, Note(n, o, velocity=(7 * k) % 128, channel=k % 16), model_int(n, o)) for k, (n, o) in
                   enumerate((n, o) for n in names for o in octs)]
        cnt = 0
        for n in firsts:
            for o in octs:
                a = Note(n, o)
                if (len(n) + o) % 3 == 0:
                    a.set_channel(9), a.set_velocity(100)
                ia = model_int(n, o)
                for (n2, o2, b, ib) in seconds:
                    for sym, op in OPS:
                        st, v = ctx.call(op, a, b)
                        exp = op(ia, ib)
                        if not (st == "ok" and bool(v) == exp):
                            ctx.check("order: all six comparison operators agree with comparing the pitch numbers", False,
                                      {"a": [n, o], "b": [n2, o2], "operator": sym}, exp, repr(v), mechanism="cmp:" + sym)
                    cnt += 6
                ctx.count("order: all six comparison operators agree with comparing the pitch numbers", 6 * len(seconds))
                ctx.case(("order-from", n, o), n=len(seconds))
            # sorting is by pitch
        rng = ctx.rng("sort")
        for i in range(30):
            sample = [rng.choice(seconds) for _ in range(rng.randint(2, 12))]
            st, srt = ctx.call(sorted, [s[2] for s in sample])
            ok = st == "ok" and [int(x) for x in srt] == sorted(s[3] for s in sample)
            ctx.check("order: sorting is by pitch", ok, {"notes": [(s[0], s[1]) for s in sample]}, sorted(s[3] for s in sample),
                      repr(srt))
        st, v = ctx.call(lambda: (Note("C") == None, Note("C") != None))  # noqa: E711
        ctx.check("order: a note is not equal to None", st == "ok" and v == (False, True), {}, (False, True), repr(v))
        ctx.note_exhaustive("ordered pairs (first on %s) of %d notes x 6 operators" % (L, len(seconds)), cnt)
        ctx.sample({"Note('B#',3) == Note('C',4)": Note("B#", 3) == Note("C", 4), "Note('Cb',4) < Note('C',4)": Note("Cb", 4) < Note("C", 4)})
    elif kind == "hertz":
        step = shard["cent_step"]
        # octave-related standard pitches first: note x at 440 and note x+12 at 220 have the very same frequency
        for sp in [220, 440, 880] + list(shard["sps"]):
            st, a4 = ctx.call(Note("A", 4).to_hertz, sp)
            ctx.check("hertz: A-4 sounds at the standard pitch", st == "ok" and abs(a4 - sp) <= 1e-9 * sp, {"standard_pitch": sp}, sp,
                      repr(a4))
            for x in range(0, 128):
                nx = Note(x)
                st, hz = ctx.call(nx.to_hertz, sp)
                if st != "ok":
                    ctx.check("hertz: conversion does not raise", False, {"note": x, "standard_pitch": sp}, None, repr(hz))
                    continue
                if x + 12 <= 127:
                    st, hz2 = ctx.call(Note(x + 12).to_hertz, sp)
                    ctx.check("hertz: frequency doubles per octave", st == "ok" and abs(hz2 - 2 * hz) <= 1e-9 * hz2,
                              {"note": x, "standard_pitch": sp}, 2 * hz, repr(hz2))
                exp_hz = sp * 2 ** ((x - 57) / 12.0)
                ctx.check("hertz: equal-tempered frequency relative to A-4", abs(hz - exp_hz) <= 1e-9 * exp_hz,
                          {"note": x, "standard_pitch": sp}, exp_hz, hz)
                bad = None
                for c in range(-40, 41, step):
                    st, y = ctx.call(Note().from_hertz, hz * 2 ** (c / 1200.0), sp)
                    if not (st == "ok" and int(y) == x):
                        bad = (c, repr(y))
                        break
                ctx.check("hertz: to Hz and back (detuned up to 40 cents) returns a note of the same pitch", bad is None,
                          {"note": x, "standard_pitch": sp, "cents": bad[0] if bad else None}, x, bad[1] if bad else None,
                          mechanism="hz-roundtrip")
                ctx.case(("hz", x, sp), n=len(range(-40, 41, step)))
        st, d = ctx.call(Note("A", 4).to_hertz)
        ctx.check("hertz: default standard pitch is 440", st == "ok" and abs(d - 440) < 1e-9, {}, 440, repr(d))
        ctx.sample({"Note('C',4).to_hertz()": Note("C", 4).to_hertz(), "from_hertz(261.9)": repr(Note().from_hertz(261.9))})
    elif kind == "reuse":
        # one Note object set again and again (every setter, public attributes included) with queries in between: what
        # it answers always follows its current name and octave, whatever it was before
        rng = ctx.rng("reuse")
        names = list(T.pure_names(2)) + ["Cb#", "E#b"]
        for h in range(shard["n"]):
            x = Note(rng.choice(names), rng.randint(0, 8))
            other = Note(rng.choice(names), rng.randint(0, 8))
            hist = [("Note", x.name, x.octave)]
            for step in range(rng.randint(2, 9)):
                # a query first, so that anything the object may remember is there to go stale
                q = rng.choice(["int", "cmp", "hz", "sort", "repr", "none"])
                if q == "int":
                    int(x)
                elif q == "cmp":
                    x < other, x == other, x >= other
                elif q == "hz":
                    x.to_hertz()
                elif q == "sort":
                    sorted([other, x, Note("C", 4)])
                elif q == "repr":
                    repr(x)
                how = rng.choice(["set_note", "set_note-text", "from_int", "from_hertz", "from_shorthand", "attr-name", "attr-octave",
                                  "attr-both", "augment", "diminish", "change_octave", "octave_up", "transpose", "empty+set"])
                nm, oc = rng.choice(names), rng.randint(0, 8)
                exp = None
                if how == "set_note":
                    x.set_note(nm, oc)
                    exp = model_int(nm, oc)
                elif how == "set_note-text":
                    x.set_note("%s-%d" % (nm, oc))
                    exp = model_int(nm, oc)
                elif how == "from_int":
                    k = rng.randint(0, 127)
                    x.from_int(k)
                    exp = k
                elif how == "from_hertz":
                    k = rng.randint(12, 110)
                    x.from_hertz(440.0 * 2 ** ((k - 57) / 12.0))
                    exp = k
                elif how == "from_shorthand":
                    x.from_shorthand(helm(nm, oc))
                    exp = model_int(nm, oc)
                elif how == "attr-name":
                    x.name = nm
                    exp = model_int(nm, x.octave)
                elif how == "attr-octave":
                    x.octave = oc
                    exp = model_int(x.name, oc)
                elif how == "attr-both":
                    x.name, x.octave = nm, oc
                    exp = model_int(nm, oc)
                elif how in ("augment", "diminish"):
                    before = model_int(x.name, x.octave)
                    getattr(x, how)()
                    exp = before + (1 if how == "augment" else -1)
                elif how == "change_octave":
                    d = rng.randint(-2, 2)
                    before = (x.name, x.octave)
                    x.change_octave(d)
                    exp = model_int(before[0], max(0, before[1] + d))
                elif how == "octave_up":
                    before = (x.name, x.octave)
                    x.octave_up()
                    # transposing down from octave 0 leaves a negative octave behind; from there the octave operations
                    # come back to max(0, .), which is what "never goes below octave 0" says (thorough seed 6)
                    exp = model_int(before[0], max(0, before[1] + 1))
                elif how == "transpose":
                    sh = rng.choice(["3", "b3", "5", "4", "b7", "2", "6", "#4"])
                    up = rng.random() < 0.5
                    before = model_int(x.name, x.octave)
                    x.transpose(sh, up)
                    exp = before + (T.shorthand_size(sh) if up else -T.shorthand_size(sh))
                else:
                    x.empty()
                    x.set_note(nm, oc)
                    exp = model_int(nm, oc)
                hist.append((q, how, nm, oc))
                own = model_int(x.name, x.octave)
                w = {"history": hist}
                ctx.check("pitch: a note that is set again answers for its current name and octave", own == exp and int(x) == exp, w,
                          exp, {"name": x.name, "octave": x.octave, "int": int(x)}, mechanism="reuse:" + how)
                oi = model_int(other.name, other.octave)
                got = [f(x, other) for (_s, f) in OPS]
                ctx.check("order: comparisons of a note that was set again follow its current pitch", got == [f(exp, oi) for (_s, f) in OPS],
                          w, [f(exp, oi) for (_s, f) in OPS], got, mechanism="reuse-order:" + how)
                st, hz = ctx.call(x.to_hertz)
                ctx.check("hertz: the frequency of a note that was set again follows its current pitch",
                          st == "ok" and abs(hz - 440.0 * 2 ** ((exp - 57) / 12.0)) <= 1e-9 * hz, w, None, repr(hz), mechanism="reuse-hz:" + how)
            ctx.case(("reuse", tuple(hist)))
        ctx.sample({"reuse": "Note; query; setter (set_note/from_int/from_hertz/from_shorthand/attributes/augment/...); compare with the model"})
    else:
        for v in list(range(-3, 4)) + list(range(124, 131)) + [255, 256, 1000, -128]:
            okv = 0 <= v <= 127
            for how in ("set_velocity", "ctor-velocity", "ctor-dynamics", "set_note-velocity", "set_note-dynamics", "ctor-text-velocity",
                        "ctor-text-dynamics", "set_note-text-velocity"):
                if how == "ctor-text-velocity":
                    st, r = ctx.call(lambda: Note("C-4", velocity=v))
                elif how == "ctor-text-dynamics":
                    st, r = ctx.call(lambda: Note("F#-3", 4, {"velocity": v}))
                elif how == "set_note-text-velocity":
                    st, r = ctx.call(lambda: Note().set_note("Bb-2", velocity=v))
                elif how == "set_velocity":
                    st, r = ctx.call(Note("C", 4).set_velocity, v)
                    got = None
                elif how == "ctor-velocity":
                    st, r = ctx.call(Note, "C", 4, None, v)
                elif how == "ctor-dynamics":
                    st, r = ctx.call(Note, "C", 4, {"velocity": v})
                elif how == "set_note-velocity":
                    st, r = ctx.call(Note().set_note, "D", 3, None, v)
                else:
                    st, r = ctx.call(Note().set_note, "D", 3, {"velocity": v})
                if okv:
                    good = st == "ok" and (how == "set_velocity" or getattr(r, "velocity", None) == v)
                    ctx.check("bounds: velocity 0-127 is accepted and stored", good, {"velocity": v, "via": how}, v, repr(r),
                              mechanism="velocity-accept:" + how)
                else:
                    ctx.check("bounds: velocity outside 0-127 is rejected", st == "exc", {"velocity": v, "via": how}, "exception",
                              repr(r), mechanism="velocity-reject:" + how)
                ctx.case(("velocity", v, how))
        for c in list(range(-3, 4)) + list(range(13, 20)) + [127, 128, 255, -16]:
            okc = 0 <= c <= 15
            for how in ("set_channel", "ctor-channel", "ctor-dynamics", "set_note-channel", "set_note-dynamics", "ctor-text-channel",
                        "ctor-text-dynamics", "set_note-text-channel"):
                if how == "ctor-text-channel":
                    st, r = ctx.call(lambda: Note("C-4", channel=c))
                elif how == "ctor-text-dynamics":
                    st, r = ctx.call(lambda: Note("F#-3", 4, {"channel": c}))
                elif how == "set_note-text-channel":
                    st, r = ctx.call(lambda: Note().set_note("Bb-2", channel=c))
                elif how == "set_channel":
                    st, r = ctx.call(Note("C", 4).set_channel, c)
                elif how == "ctor-channel":
                    st, r = ctx.call(Note, "C", 4, None, None, c)
                elif how == "ctor-dynamics":
                    st, r = ctx.call(Note, "C", 4, {"channel": c})
                elif how == "set_note-channel":
                    st, r = ctx.call(Note().set_note, "D", 3, None, None, c)
                else:
                    st, r = ctx.call(Note().set_note, "D", 3, {"channel": c})
                if okc:
                    good = st == "ok" and (how == "set_channel" or getattr(r, "channel", None) == c)
                    ctx.check("bounds: channel 0-15 is accepted and stored", good, {"channel": c, "via": how}, c, repr(r),
                              mechanism="channel-accept:" + how)
                else:
                    ctx.check("bounds: channel outside 0-15 is rejected", st == "exc", {"channel": c, "via": how}, "exception",
                              repr(r), mechanism="channel-reject:" + how)
                ctx.case(("channel", c, how))
        x = Note("C", 4)
        x.set_velocity(127), x.set_channel(15)
        ctx.check("bounds: setters store the value", x.velocity == 127 and x.channel == 15, {}, [127, 15], [x.velocity, x.channel])
        for bad in ["H", "c", "C#x", "Cis", "C-4-5", "C-x", "C-", "-4", "4", "C 4", "C4", "Cb-", "#C", "c#-4", "C♯", "B#-4.5", " C", "C\n", "Bb\n", "Eb\n-3", "C\t", "C ", "C#\r\n", "\nC",
                    "C-4\n", "C- 4", "C-+4", "C-1_0", "C-4 ", "Eb- 3", "F#-\t2", "C-0x4", "G--2", "A-4-", "{}", "C{0}", "%s", "C%d", "C-%s",
                    # quotes, as around a printed form that was pasted carelessly
                    "C'", "'C", "C-4'", "'C-4", "''F#-3", "\"C-4\"", "C-4\"", "`C`", "C,", "c'"]:
            st, r = ctx.call(Note, bad)
            ctx.check("bounds: malformed names are rejected", st == "exc", {"name": bad}, "exception", repr(r), mechanism="reject-name")
            st, r = ctx.call(Note().set_note, bad)
            ctx.check("bounds: malformed names are rejected", st == "exc", {"name": bad, "via": "set_note"}, "exception", repr(r),
                      mechanism="reject-name")
            ctx.case(("badname", bad))
        for bad in [None, 3.5, [], ("C", 4)]:
            st, r = ctx.call(Note, bad)
            ctx.check("bounds: objects that are not a name, a note or an integer are rejected", st == "exc", {"name": repr(bad)},
                      "exception", repr(r), mechanism="reject-object")
        # copies are independent
        crng = ctx.rng("copies")
        cnames = list(T.pure_names(3))
        drawn = [(crng.choice(cnames), crng.randint(0, 9), crng.randint(0, 127), crng.randint(0, 15)) for _ in range(60)]
        for ci, (n, o, vel, ch) in enumerate([("C", 4, 64, 1), ("F#", 2, 0, 0), ("Bbb", 7, 127, 15), ("E", 0, 100, 9)] + drawn):
            a = Note(n, o)
            a.set_velocity(vel), a.set_channel(ch)
            if ci % 3 == 2:
                st, b = ctx.call(lambda: Note(name=a))
            else:
                st, b = ctx.call(Note, a)
            ok = st == "ok" and b is not a and (b.name, b.octave, b.velocity, b.channel) == (n, o, vel, ch)
            ctx.check("copy: a copy is a distinct object with equal name, octave, channel and velocity", ok,
                      {"note": [n, o, vel, ch]}, [n, o, vel, ch], repr(b) if st != "ok" else [b.name, b.octave, b.velocity, b.channel],
                      mechanism="copy-fields")
            if st == "ok":
                a.transpose("3"), a.set_velocity(1), a.set_channel(2), a.augment(), a.change_octave(1)
                ctx.check("copy: the copy does not follow later changes of the original",
                          (b.name, b.octave, b.velocity, b.channel) == (n, o, vel, ch), {"note": [n, o, vel, ch]}, [n, o, vel, ch],
                          [b.name, b.octave, b.velocity, b.channel], mechanism="copy-follows")
                c = Note(b)
                c.diminish(), c.set_velocity(5)
                ctx.check("copy: changing the copy leaves the original unchanged",
                          (b.name, b.octave, b.velocity, b.channel) == (n, o, vel, ch), {"note": [n, o, vel, ch]})
            ctx.case(("copy", n, o, vel, ch))
        ctx.sample({"Note('C',4,velocity=128)": repr(ctx.call(Note, "C", 4, None, 128)[1])})
