"""C13 Bar time accounting is exact under any placement history."""
import itertools
from fractions import Fraction

from mingus.containers import Note, NoteContainer, Bar
from mingus.core import meter as M

from rv import reach
from rv.models import music as MU
from rv.models.containers import BarModel, pitch

ID = "C13"
ANCHOR_FILES = ["mingus/containers/bar.py", "mingus/core/meter.py"]
REQUIRED_REACH = ["containers.bar.Bar.place_notes", "containers.bar.Bar.place_rest", "containers.bar.Bar.__add__",
                  "containers.bar.Bar.remove_last_entry", "containers.bar.Bar.is_full", "containers.bar.Bar.space_left",
                  "containers.bar.Bar.set_meter", "containers.bar.Bar.__setitem__", "containers.bar.Bar.place_notes_at"]
REQUIRED_CLAUSES = ["accounting:", "accept:", "full:", "content:", "meter:", "M-bar"]
RULE = ("operation histories over {place value, rest value, '+', remove-last, bar[i]=x, place_notes_at} in several meters "
        "checked after every operation against an exact rational model (values built from Fractions, handed over as the "
        "floats the library's constructors give); every fill-to-capacity; meters over integers/floats for set_meter; "
        "non-trivial = history with at least two operations; distinct by (meter, operation sequence); distinct states = "
        "distinct exact (meter, entry lengths) configurations")

EXH_METERS = [(4, 4), (3, 4), (6, 8), (0, 0)]
FILL_METERS = [(4, 4), (3, 4), (6, 8), (12, 8), (5, 4), (2, 2), (7, 8), (3, 8), (1, 1), (0, 0)]
CONTENTS = ["C", ["C", "E"], ("note", "G", 4), ("nc", ["A", "C"]), ["D", ["F", 5]], None, []]


def vocab60():
    return MU.vocabulary(bases=(0.25, 0.5, 1, 2, 4, 8, 16, 32, 64, 128), dots=(0, 1, 2), tuplets=((3, 2), (5, 4), (7, 4)))


def vocab80():
    return MU.vocabulary(bases=(0.25, 0.5, 1, 2, 4, 8, 16, 32, 64, 128), dots=(0, 1, 2, 3, 4), tuplets=((3, 2), (5, 4), (7, 4)))


def vocab24():
    return MU.vocabulary(bases=(1, 2, 4, 8), dots=(0, 1), tuplets=((3, 2), (5, 4), (7, 4))) + \
        [MU.Val(16), MU.Val(32), MU.Val(16, 0, 3, 2), MU.Val(16, 0, 5, 4)]


def shards(tier, seed):
    out = []
    if tier == "quick":
        for mi in range(len(EXH_METERS)):
            for part in range(4):
                out.append({"name": "exhaustive-m%d-p%d" % (mi, part), "kind": "exh", "meter": EXH_METERS[mi], "vocab": 60,
                            "depth": 2, "part": part, "parts": 4, "weight": 5})
    else:
        for mi in range(len(EXH_METERS)):
            for part in range(8):
                out.append({"name": "exhaustive-m%d-p%d" % (mi, part), "kind": "exh", "meter": EXH_METERS[mi], "vocab": 24,
                            "depth": 3, "part": part, "parts": 8, "weight": 12})
        for mi in range(len(EXH_METERS)):
            out.append({"name": "exhaustive2-m%d" % mi, "kind": "exh", "meter": EXH_METERS[mi], "vocab": 60, "depth": 2,
                        "part": 0, "parts": 1, "weight": 8})
    out.append({"name": "fill-to-capacity", "kind": "fill", "mixed": 2000 if tier == "quick" else 20000, "weight": 6})
    n = 2000 if tier == "quick" else 100000
    parts = 4 if tier == "quick" else 16
    for i in range(parts):
        out.append({"name": "random-%d" % i, "kind": "random", "n": n // parts, "maxops": 60 if tier == "quick" else 300, "weight": 8})
    out.append({"name": "set-meter", "kind": "meter", "weight": 2})
    if tier == "thorough":
        out.append({"name": "repo-tests-under-monitors", "kind": "repotests", "mode": "record",
                    "tests": ["tests/unit/containers/test_bar.py", "tests/unit/containers/test_track.py"], "weight": 2})
    return out


def attach(ctx, shard):
    reach.guard_steps(M, ["valid_beat_duration"], clause="M-steps: set_meter / meter check returns within 20000 line events",
                      budget=20000)


def make_content(c):
    """-> (object handed to the library, expected pitches or None for a rest)"""
    if c is None:
        return None, None
    if isinstance(c, str):
        return c, [pitch(c, 4)]
    if isinstance(c, tuple) and c[0] == "note":
        return Note(c[1], c[2]), [pitch(c[1], c[2])]
    if isinstance(c, tuple) and c[0] == "nc":
        nc = NoteContainer(list(c[1]))
        return nc, sorted(pitch(n.name, n.octave) for n in nc.notes)
    nc = NoteContainer(c)         # list forms: the expected voicing is decided by C12; here only the kind and count
    return c, sorted(pitch(n.name, n.octave) for n in nc.notes)


def entry_pitches(e):
    if e[2] is None:
        return None
    if not hasattr(e[2], "notes"):
        return ["content is a %s, not a note container" % type(e[2]).__name__]
    return sorted(pitch(n.name, n.octave) for n in e[2].notes)


def check_state(ctx, bar, model, hist, meter):
    w = {"meter": meter, "history": hist}
    ok = len(bar.bar) == len(model.entries)
    ctx.check("accounting: one entry per accepted placement", ok, w, len(model.entries), len(bar.bar), mechanism="entry-count")
    if not ok:
        return False
    good = True
    for i, (me, e) in enumerate(zip(model.entries, bar.bar)):
        okk = abs(e[0] - float(me[0])) <= 1e-9 and e[1] == me[1] and entry_pitches(e) == me[2] and \
            (e[2] is None or isinstance(e[2], NoteContainer))
        if not okk:
            good = False
            ctx.check("accounting: each entry starts at the sum of the lengths before it, with the given value and content", False,
                      dict(w, entry=i), [float(me[0]), me[1], me[2]], [e[0], e[1], entry_pitches(e)], mechanism="entry")
    if good:
        ctx.check("accounting: each entry starts at the sum of the lengths before it, with the given value and content", True, w)
    ctx.check("accounting: current beat equals the total length", abs(bar.current_beat - float(model.total)) <= 1e-9, w,
              float(model.total), bar.current_beat, mechanism="current_beat")
    st, sl = ctx.call(bar.space_left)
    ctx.check("accounting: current beat plus space left equals the bar length", st == "ok" and
              abs(bar.current_beat + sl - bar.length) <= 1e-9 and abs(bar.length - float(model.length)) <= 1e-12, w,
              float(model.length), [bar.current_beat, sl, bar.length], mechanism="space_left")
    st, f = ctx.call(bar.is_full)
    ctx.check("full: reported exactly when non-empty and the remaining length is zero (within 1/1000)",
              st == "ok" and bool(f) == model.is_full(), w, model.is_full(), repr(f), mechanism="is_full")
    return good


def snapshot(bar):
    return ([(e[0], e[1], entry_pitches(e)) for e in bar.bar], bar.current_beat, bar.length, tuple(bar.meter))


def do_place(ctx, bar, model, val, content, hist, meter, via="place_notes"):
    obj, pitches = make_content(content)
    before = snapshot(bar)
    if via == "place_rest":
        st, r = ctx.call(bar.place_rest, val.value)
        pitches = None
    elif via == "+":
        st, r = ctx.call(lambda: bar + obj)
    else:
        st, r = ctx.call(bar.place_notes, obj, val.value)
    exp = model.fits(val.length)
    w = {"meter": meter, "history": hist}
    if st != "ok":
        ctx.check("accept: placement returns normally", False, w, exp, repr(r), mechanism="raise:" + via)
        return False
    ctx.check("accept: accepted exactly when the exact total does not exceed the bar length", bool(r) == exp, w, exp, repr(r),
              mechanism="accept:%s" % ("refused-but-fits" if exp else "accepted-but-overflows"),
              shape={"exact_fill": (not model.unbounded) and model.total + val.length == model.length})
    if bool(r) != exp:
        return False
    if exp:
        model.place(val.length, val.value, pitches)
    else:
        ctx.check("accept: a refused placement changes nothing", snapshot(bar) == before, w, before, snapshot(bar),
                  mechanism="refused-changed")
    return True


def run(shard, ctx):
    kind = shard["kind"]
    if kind == "exh":
        meter = tuple(shard["meter"])
        vocab = {60: vocab60, 24: vocab24}[shard["vocab"]]()
        ops = []
        for i, v in enumerate(vocab):
            ops.append(("place", v, CONTENTS[i % 5]))
            ops.append(("rest", v, None))
        ops.append(("+", None, "E"))
        ops.append(("remove-last", None, None))
        unit = meter[1] if meter[1] else 4
        plus_val = MU.Val(unit)
        cnt = 0
        firsts = [i for i in range(len(ops)) if i % shard["parts"] == shard["part"]]
        for first in firsts:
            for depth in range(1, shard["depth"] + 1):
                for rest in itertools.product(range(len(ops)), repeat=depth - 1):
                    seq = (first,) + rest
                    bar, model = Bar("C", meter), BarModel(meter)
                    hist = []
                    ok = True
                    for oi in seq:
                        op, v, c = ops[oi]
                        if op == "remove-last":
                            if not model.entries:
                                ok = None
                                break
                            hist.append("remove-last")
                            st, r = ctx.call(bar.remove_last_entry)
                            model.remove_last()
                            if st != "ok":
                                ctx.check("accounting: remove-last returns normally", False, {"meter": meter, "history": hist}, None, repr(r))
                                ok = False
                                break
                        elif op == "+":
                            hist.append("+ 'E'")
                            ok = do_place(ctx, bar, model, plus_val, c, hist, meter, via="+")
                        elif op == "rest":
                            hist.append("rest " + v.label)
                            ok = do_place(ctx, bar, model, v, None, hist, meter, via="place_rest")
                        else:
                            hist.append("place %s %r" % (v.label, c))
                            ok = do_place(ctx, bar, model, v, c, hist, meter)
                        if not ok:
                            break
                    if ok is None:
                        continue
                    if ok:
                        check_state(ctx, bar, model, hist, meter)
                    ctx.case(("exh", meter) + seq, nontrivial=len(seq) >= 2)
                    ctx.state((meter, tuple(e[3] for e in model.entries)))
                    cnt += 1
        ctx.note_exhaustive("sequences of length <= %d over %d operations (first op in part %d/%d) in meter %s" %
                            (shard["depth"], len(ops), shard["part"], shard["parts"], meter), cnt)
        ctx.sample({"meter": meter, "history": ["place 4 'C'", "rest 8.", "+ 'E'", "remove-last"]})
    elif kind == "fill":
        vocab = vocab80()
        cnt = 0
        for meter in FILL_METERS:
            for v in vocab:
                bar, model = Bar("C", meter), BarModel(meter)
                hist = []
                limit = 40 if meter == (0, 0) else 3000
                if meter != (0, 0) and Fraction(meter[0], meter[1]) / v.length > limit:
                    continue
                for i in range(limit):
                    hist = ["%s x %d" % (v.label, i + 1)]
                    willfit = model.fits(v.length)
                    # (rests alternate between the two ways of placing one)
                    if not do_place(ctx, bar, model, v, "C" if i % 2 else None, hist, meter,
                                    via="place_rest" if i % 4 == 0 else "place_notes"):
                        break
                    if not willfit:
                        break
                check_state(ctx, bar, model, hist, meter)
                ctx.case(("fill", meter, v.label), nontrivial=True)
                ctx.state((meter, v.label, len(model.entries)))
                cnt += 1
        ctx.note_exhaustive("each of 80 values repeated until refusal in 10 meters", cnt)
        # random mixed fills that end exactly at capacity, constructed backwards from the exact remainder
        rng = ctx.rng("mixed")
        small = [v for v in vocab if v.length <= Fraction(1, 2)]
        for i in range(shard["mixed"]):
            meter = rng.choice(FILL_METERS[:9])
            L = Fraction(meter[0], meter[1])
            seq, total = [], Fraction(0)
            for _ in range(200):
                rem = L - total
                exact = [v for v in small if v.length == rem]
                if exact and (rng.random() < 0.5 or len(seq) > 40):
                    seq.append(exact[0])
                    total = L
                    break
                fits = [v for v in small if v.length < rem]
                if not fits:
                    break
                v = rng.choice(fits)
                seq.append(v)
                total += v.length
            if total != L:
                continue
            bar, model = Bar("C", meter), BarModel(meter)
            hist = []
            ok = True
            last_as = rng.choice(["place_rest", "place_notes", "+", "any"])      # how the entry that completes the bar arrives
            for k, v in enumerate(seq):
                c = rng.choice(CONTENTS)
                via = "place_rest" if c is None and rng.random() < 0.5 else "place_notes"
                if k == len(seq) - 1 and last_as != "any":
                    if last_as == "place_rest":
                        c, via = None, "place_rest"
                    elif last_as == "+" and meter[1] and v.length == Fraction(1, meter[1]):
                        c, via = "D", "+"
                hist.append((v.label, via))
                if not do_place(ctx, bar, model, v, c, hist, meter, via=via):
                    ok = False
                    break
            if ok:
                check_state(ctx, bar, model, hist, meter)
                extra = rng.choice(vocab)
                hist.append("then " + extra.label)
                do_place(ctx, bar, model, extra, "C", hist, meter)
            ctx.case(("mixedfill", meter, tuple(v.label for v in seq)))
            ctx.state((meter, tuple(sorted(v.label for v in seq))))
        ctx.sample({"meter": (4, 4), "fill": "20 x quintuplet-16th (exactly one whole note)"})
    elif kind == "random":
        rng = ctx.rng("random")
        vocab = vocab80()
        smallv = [v for v in vocab if v.length <= Fraction(1, 4)]
        for h in range(shard["n"]):
            meter = rng.choice(FILL_METERS)
            bar, model = Bar(rng.choice(["C", "Eb", "f#"]), meter), BarModel(meter)
            hist = []
            pool = smallv if rng.random() < 0.6 else vocab
            nops = rng.randint(1, shard["maxops"])
            for step in range(nops):
                r = rng.random()
                ok = True
                if r < 0.55:
                    v = rng.choice(pool)
                    c = rng.choice(CONTENTS)
                    hist.append(("place", v.label, repr(c)))
                    ok = do_place(ctx, bar, model, v, c, hist, meter, via="place_rest" if c is None and rng.random() < 0.5 else "place_notes")
                elif r < 0.65:
                    unit = meter[1] if meter[1] else 4
                    hist.append(("+", "D"))
                    plus_c = rng.choice(["D", "D", None, ["C", "E"], ("nc", ["A", "C"]), []])      # (bar + None is a one-beat rest)
                    hist[-1] = ("+", repr(plus_c))
                    ok = do_place(ctx, bar, model, MU.Val(unit), plus_c, hist, meter, via="+")
                elif r < 0.68:
                    # a placement the library must refuse by raising (malformed content): nothing may be left behind
                    before = snapshot(bar)
                    badc = rng.choice(["H", "C#x", ["C", "H"], ["H"], "c"])
                    v = rng.choice(pool)
                    hist.append(("place (malformed content)", v.label, repr(badc)))
                    st, rr = ctx.call(bar.place_notes, badc, v.value)
                    # (refused = an exception, or False when the bar is found full before the content is looked at)
                    refused = st == "exc" or (st == "ok" and rr is False)
                    ctx.check("accept: a placement refused by an error changes nothing", refused and snapshot(bar) == before,
                              {"meter": meter, "history": hist}, before if refused else "an exception or False",
                              snapshot(bar) if refused else repr(rr), mechanism="raised-placement-changed")
                elif r < 0.72:
                    # the meter is set again on the bar as it stands (same, longer or shorter; to and from the unbounded (0,0))
                    if meter == (0, 0):
                        newm = rng.choice([(3, 4), (4, 4), (6, 8), (0, 0), (2, 2)])
                    else:
                        newm = rng.choice([meter, (meter[0] + 1, meter[1]), (max(1, meter[0] - 1), meter[1]), (meter[0] * 2, meter[1] * 2), (2, 4),
                                           (6, 8), (0, 0)])
                    hist.append(("set_meter", newm))
                    st, rr = ctx.call(bar.set_meter, newm)
                    if st == "ok":
                        meter = newm
                        model.meter = tuple(newm)
                        model.length = Fraction(newm[0], newm[1]) if newm[1] else Fraction(0)
                        model.unbounded = tuple(newm) == (0, 0)
                    else:
                        ctx.check("meter: power-of-two beat units and (0,0) are accepted with length count/unit", False,
                                  {"history": hist}, None, repr(rr), mechanism="set_meter-mid-history")
                        break
                elif r < 0.735 and model.entries:
                    # the bar is emptied and filled again
                    hist.append(("empty",))
                    st, rr = ctx.call(bar.empty)
                    while model.entries:
                        model.remove_last()
                    if st != "ok":
                        ctx.check("accept: placement returns normally", False, {"meter": meter, "history": hist}, None, repr(rr), mechanism="raise:empty")
                        break
                elif r < 0.82 and model.entries:
                    hist.append(("remove-last",))
                    bar.remove_last_entry()
                    model.remove_last()
                elif model.entries:
                    i = rng.randrange(len(model.entries))
                    before = snapshot(bar)
                    if rng.random() < 0.5:
                        c = rng.choice(CONTENTS[:4])       # bar[i] = list takes a flat list of names / Notes
                        obj, pitches = make_content(c)
                        hist.append(("bar[%d] =" % i, repr(c)))
                        st, rr = ctx.call(bar.__setitem__, i, obj)
                        model.entries[i][2] = pitches
                    elif model.entries[i][2] is not None:
                        hist.append(("place_notes_at", "F-4", i))
                        st, rr = ctx.call(bar.place_notes_at, "F", bar.bar[i][0])
                        # the bare name is voiced by the container rule (decided by C12); here: the old pitches stay and
                        # at most one F is added
                        new = entry_pitches(bar.bar[i]) if st == "ok" else None
                        old = model.entries[i][2]
                        okadd = new is not None and set(old) <= set(new) and len(new) - len(old) in (0, 1) and \
                            all(p % 12 == 5 for p in set(new) - set(old))
                        ctx.check("content: adding notes to a sounding entry keeps its notes and adds the new one", okadd,
                                  {"meter": meter, "history": hist}, old, new, mechanism="place_notes_at")
                        if new is not None:
                            model.entries[i][2] = new
                    else:
                        continue
                    after = snapshot(bar)
                    same = (len(before[0]) == len(after[0]) and before[1:] == after[1:] and
                            all(b == a for k, (b, a) in enumerate(zip(before[0], after[0])) if k != i) and
                            before[0][i][:2] == after[0][i][:2])
                    ctx.check("content: assigning or adding content changes only that entry's content", st == "ok" and same,
                              {"meter": meter, "history": hist}, None, repr(rr) if st != "ok" else None, mechanism="content-only")
                else:
                    continue
                if not ok:
                    break
                if not check_state(ctx, bar, model, hist, meter):
                    break
            ctx.case(("random", meter, repr(hist)), nontrivial=len(hist) >= 2)
            ctx.state((meter, tuple(e[3] for e in model.entries)))
            if h == 0:
                ctx.sample({"meter": meter, "history": hist[:12], "exact_total": str(model.total)})
    elif kind == "meter":
        units = list(range(-4, 70)) + [128, 256, 1024, 2 ** 20, 2 ** 40, 96, 100, 4.0, 8.0, 2.0, 1.0, 0.5, 0.25, 1.5, 3.0, 6.0, 2.5,
                                       float("inf"), float("nan"), -2.0, 1e-9]
        for n in list(range(-2, 14)) + [16, 32]:
            for u in units:
                m = (n, u)
                st, b = ctx.call(Bar, "C", m)
                pow2 = M is not None and _pow2(u)
                accept = pow2 or (n == 0 and u == 0)
                if st == "mon":
                    continue
                if accept:
                    exp_len = 0.0 if (n, u) == (0, 0) else n / float(u)
                    ok = st == "ok" and tuple(b.meter) == (n, u) and abs(b.length - exp_len) <= 1e-12
                    ctx.check("meter: power-of-two beat units and (0,0) are accepted with length count/unit", ok, {"meter": [n, repr(u)]},
                              exp_len, repr(b) if st != "ok" else [b.meter, b.length], mechanism="meter-accept")
                    if st == "ok":
                        b2 = Bar("C", (4, 4))
                        st2, r2 = ctx.call(b2.set_meter, m)
                        ctx.check("meter: set_meter on an existing bar sets meter and length", st2 == "ok" and tuple(b2.meter) == (n, u)
                                  and abs(b2.length - exp_len) <= 1e-12, {"meter": [n, repr(u)]}, exp_len, [b2.meter, b2.length])
                else:
                    ctx.check("meter: any other beat unit is refused", st == "exc", {"meter": [n, repr(u)]}, "exception",
                              repr(b) if st != "ok" else [b.meter, b.length], mechanism="meter-refuse")
                    b2 = Bar("C", (3, 4))
                    st2, r2 = ctx.call(b2.set_meter, m)
                    ctx.check("meter: a refused meter leaves the bar's meter unchanged", st2 == "exc" and tuple(b2.meter) == (3, 4)
                              and b2.length == 0.75, {"meter": [n, repr(u)]}, [(3, 4), 0.75], [b2.meter, b2.length],
                              mechanism="meter-refuse-state")
                ctx.case(("meter", n, repr(u)))
        # bars at the edges of "length = count/unit": no room at all (count 0 or below, unit a power of two) and bars shorter
        # than the thousandth of a whole note that `full` is read to
        for m in [(0, 1), (0, 4), (0, 8), (-1, 4), (-3, 8), (1, 1024), (1, 2048), (3, 4096), (1, 2 ** 20)]:
            st, b = ctx.call(Bar, "C", m)
            if st != "ok":
                continue        # (reported by the acceptance clause above)
            w = {"meter": list(m)}
            L = Fraction(m[0], m[1])
            ctx.check("full: reported exactly when non-empty and the remaining length is zero (within 1/1000)", b.is_full() is False, w,
                      False, b.is_full(), mechanism="full:empty-bar")
            before = snapshot(b)
            for v in (4, 1, 128, 1024 * 1024 * 4):
                fits = Fraction(1, v) <= L
                st, r = ctx.call(b.place_notes, "C", v)
                ctx.check("accept: accepted exactly when the exact total does not exceed the bar length", st == "ok" and bool(r) == fits,
                          dict(w, value=v), fits, repr(r), mechanism="accept:%s" % ("refused-but-fits" if fits else "accepted-but-overflows"),
                          shape={"exact_fill": False})
                if st == "ok" and not r:
                    ctx.check("accept: a refused placement changes nothing", snapshot(b) == before, dict(w, value=v), before, snapshot(b),
                              mechanism="refused-changed")
                    ctx.check("full: reported exactly when non-empty and the remaining length is zero (within 1/1000)", b.is_full() is False,
                              dict(w, after_refused=v), False, b.is_full(), mechanism="full:empty-bar")
                elif st == "ok":
                    b.remove_last_entry()
            ctx.case(("edge-meter", m))
        # bars with several beats that are each shorter than that thousandth: every beat still fits ('+' places one beat unit;
        # being reported full - the remaining length is under 1/1000 from the first beat on - does not mean nothing fits)
        for m in [(2, 1024), (3, 1024), (3, 2048), (4, 2048), (7, 4096), (5, 8192), (2, 2 ** 16)]:
            st, b = ctx.call(Bar, "C", m)
            if st != "ok":
                continue
            for how in ("+", "place_notes", "place_rest"):
                b.empty()
                trail = []
                for k in range(m[0] + 2):
                    fits = k < m[0]
                    before = snapshot(b)
                    if how == "+":
                        st, r = ctx.call(lambda: b + "C")
                    elif how == "place_notes":
                        st, r = ctx.call(b.place_notes, "D", m[1])
                    else:
                        st, r = ctx.call(b.place_rest, m[1])
                    trail.append(how)
                    w = {"meter": list(m), "history": list(trail)}
                    ctx.check("accept: accepted exactly when the exact total does not exceed the bar length", st == "ok" and bool(r) == fits, w, fits,
                              repr(r), mechanism="accept:%s" % ("refused-but-fits" if fits else "accepted-but-overflows"), shape={"exact_fill": k == m[0] - 1})
                    if st == "ok" and r:
                        ctx.check("beats: the current beat is the total length", abs(b.current_beat - (k + 1) / m[1]) <= 1e-15 and len(b) == k + 1, w,
                                  (k + 1) / m[1], [b.current_beat, len(b)], mechanism="short-beats")
                    elif st == "ok":
                        ctx.check("accept: a refused placement changes nothing", snapshot(b) == before, w, before, snapshot(b), mechanism="refused-changed")
            ctx.case(("short-beats", m))
        ctx.sample({"Bar('C',(6,8)).length": Bar("C", (6, 8)).length, "Bar('C',(4,3))": repr(ctx.call(Bar, "C", (4, 3))[1])})
    elif kind == "repotests":
        from rv import repotests
        repotests.run(ctx, shard["tests"])


def _pow2(u):
    try:
        if u != u or u in (float("inf"), float("-inf")) or u < 1:
            return False
        f = Fraction(u)
    except (TypeError, ValueError, OverflowError):
        return False
    return f.denominator == 1 and (f.numerator & (f.numerator - 1)) == 0
