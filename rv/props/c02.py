"""C02 Named interval constructors land on the exact letter and semitone distance."""
from mingus.core import intervals, notes

from rv.models import theory as T

ID = "C02"
ANCHOR_FILES = ["mingus/core/intervals.py", "mingus/core/notes.py"]
REQUIRED_REACH = ["core.intervals." + f for f in T.CONSTRUCTORS] + [
    "core.intervals.measure", "core.intervals.is_consonant", "core.intervals.is_perfect_consonant",
    "core.intervals.is_imperfect_consonant", "core.intervals.is_dissonant",
    "core.intervals.augment_or_diminish_until_the_interval_is_right"]
REQUIRED_CLAUSES = ["M-interval", "constructor:", "measure", "consonance"]
RULE = ("(constructor, name) for 17 constructors x every name up to an accidental bound in every order plus pure "
        "names with long accidental runs; ordered pairs of names for measure and the consonance predicates with "
        "both flag values; non-trivial = name has at least one accidental (constructors) / the two names differ "
        "(pairs); distinct by (constructor, name) or (pair)")


def shards(tier, seed):
    out = []
    k = 5 if tier == "quick" else 9
    for L in T.LETTERS:
        out.append({"name": "constructors-" + L, "kind": "cons", "letter": L, "k": k, "after_history": L in "CF", "before_history": L in "DG",
                    "pure": 12 if tier == "quick" else 40, "weight": 8})
    kp = 4 if tier == "quick" else 6
    for L in T.LETTERS:
        out.append({"name": "pairs-" + L, "kind": "pairs", "letter": L, "k": kp, "weight": 10})
    return out


def check_constructor(ctx, fname, n):
    number, semis = T.CONSTRUCTORS[fname]
    f = getattr(intervals, fname)
    st, r = ctx.call(f, n)
    w = {"call": "intervals." + fname, "note": n}
    L, P = T.interval_target(n, number, semis)
    if st != "ok" or not T.valid(r):
        ctx.check("constructor: returns a valid name", False, w, "valid name", repr(r), mechanism="invalid:" + fname)
        return
    ctx.check("constructor: returns a valid name", True, w)
    ctx.check("constructor: letter required by the interval number", T.li(r) == L, w, T.LETTERS[L], r,
              mechanism="letter:" + fname)
    ctx.check("constructor: exact semitone distance mod 12", T.pc(r) == P, w, P, T.pc(r),
              mechanism="distance:" + fname)
    normal = T.is_pure(r) and len(r) - 1 <= 6
    shape = None
    if not normal and number == 1:
        echo = {"minor_unison": notes.diminish, "major_unison": (lambda x: x),
                "augmented_unison": notes.augment}[fname](n)
        shape = {"kind": "unison-normal-form", "constructor": fname, "result_is_echo": r == echo}
    ctx.check("constructor: no mixed accidentals and at most six", normal, w, "pure, <= 6 accidentals", r,
              mechanism="normal-form:" + fname, shape=shape)


def run(shard, ctx):
    if shard["kind"] == "cons":
        L = shard["letter"]
        names = [L + a for a in T.acc_strings(shard["k"])]
        names += [T.spell(T.LETTERS.index(L), n) for n in range(-shard["pure"], shard["pure"] + 1)
                  if abs(n) > shard["k"]]
        # names a thousand and more accidentals long (pure and mixed): "whatever the input's accidentals"
        longs = [L + "#" * 1100, L + "b" * 1300, L + "#b" * 700, L + "b#" * 900 + "b"]
        # ... and longer than the interpreter's recursion limit in these shards (3000)
        longs += [L + "#" * 3400, L + "b#" * 1800 + "b"]
        # ... and names that are instances of a str subclass
        names += [T.SubStr(L + "#"), T.NamedStr(L + "b"), T.SubStr(L + "bb#"), T.NamedStr(L)]
        # ... and long names that agree in letter, first accidental and length and differ in what they add up to
        longs += [L + "#" * (40 - f_) + "b" * f_ for f_ in (0, 5, 1, 20, 39)] + [L + "b" * (64 - f_) + "#" * f_ for f_ in (0, 7, 2)]
        for n in names + longs:
            for fname in T.CONSTRUCTORS:
                check_constructor(ctx, fname, n)
                ctx.case((fname, n if len(n) < 40 else (n[:3], len(n))), nontrivial=len(n) > 1)
        # many distinct long names in one process (more than any bounded memo is likely to hold): each is still measured right
        if L in "CG":
            rng_v = ctx.rng("volume")
            bad = None
            for k in range(shard.get("volume", 6000)):
                body = "".join(rng_v.choice("#b") for _ in range(130 + k % 40))
                nm = L + body
                other = "FA"[k % 2] + "#" * (k % 5)
                d = (T.pc(other) - T.pc(nm)) % 12
                st, v = ctx.call(intervals.measure, nm, other)
                if not (st == "ok" and v == d):
                    bad = (k, repr(v)[:160])
                    break
                if k % 97 == 0:
                    st, r = ctx.call(intervals.major_third, nm)
                    if not (st == "ok" and T.valid(r) and T.pc(r) == (T.pc(nm) + 4) % 12):
                        bad = (k, repr(r)[:160])
                        break
            ctx.check("measure == pc difference mod 12", bad is None, {"distinct_long_names_so_far": bad[0] if bad else None}, None,
                      bad[1] if bad else None, mechanism="measure:many-distinct-long-names")
            ctx.case(("volume", L))
        if L == "D":
            # ... and a six-figure number of distinct short names in one process (all names with up to sixteen accidentals on
            # one letter, in every order): volume alone, where a generous memo comes to its limit
            bad, k = None, 0
            want = shard.get("many", 131071)
            for ln in range(0, 17):
                for bits in range(2 ** ln):
                    nm = L + "".join("#" if (bits >> j) & 1 else "b" for j in range(ln))
                    k += 1
                    sharps = bin(bits).count("1")
                    d = (T.NAT["A"] - T.NAT[L] - sharps + (ln - sharps)) % 12
                    try:
                        v = intervals.measure(nm, "A")
                    except Exception as e:      # noqa
                        v = e
                    if v != d:
                        bad = (k, nm, repr(v)[:160])
                        break
                if bad or k >= want:
                    break
            ctx.count("measure == pc difference mod 12", k)
            ctx.check("measure == pc difference mod 12", bad is None, {"distinct_short_names_so_far": bad[0] if bad else None, "name": bad[1] if bad else None},
                      None, bad[2] if bad else None, mechanism="measure:six-figure-number-of-distinct-names")
            ctx.case(("many-names", L, k))
        for n in longs:
            for other in ("C", "F#", "Bbb", longs[0]):
                for (a, b) in ((n, other), (other, n)):
                    d = (T.pc(b) - T.pc(a)) % 12
                    st, v = ctx.call(intervals.measure, a, b)
                    ctx.check("measure == pc difference mod 12", st == "ok" and v == d, {"note1": a[:4] + "...", "len1": len(a), "note2": b[:4], "len2": len(b)}, d,
                              repr(v)[:120], mechanism="measure:long-names")
                    st, v = ctx.call(intervals.is_consonant, a, b)
                    ctx.check("consonance: default includes fourths", st == "ok" and v == (d in (0, 3, 4, 5, 7, 8, 9)),
                              {"note1": a[:4] + "...", "len1": len(a), "note2": b[:4], "len2": len(b)}, d in (0, 3, 4, 5, 7, 8, 9), repr(v)[:120],
                              mechanism="consonant:long-names")
        ctx.note_exhaustive("17 constructors x names %s... with <= %d accidentals in every order" % (L, shard["k"]),
                            17 * (2 ** (shard["k"] + 1) - 1))
        ctx.sample({"minor_seventh(%s)" % (L + "b"): intervals.minor_seventh(L + "b"),
                    "major_third(%s)" % (L + "####"): intervals.major_third(L + "####")})
    else:
        L = shard["letter"]
        firsts = [L + a for a in T.acc_strings(shard["k"])]
        seconds = list(T.all_names(shard["k"]))
        for a in firsts:
            pa = T.pc(a)
            for b in seconds:
                d = (T.pc(b) - pa) % 12
                w = {"note1": a, "note2": b}
                st, v = ctx.call(intervals.measure, a, b)
                ctx.check("measure == pc difference mod 12", st == "ok" and v == d, w, d, v)
                for inc in (True, False):
                    perfect = d in (0, 7) or (inc and d == 5)
                    imperfect = d in (3, 4, 8, 9)
                    st, v = ctx.call(intervals.is_perfect_consonant, a, b, inc)
                    ctx.check("consonance: perfect = {0,7} (+5 when fourths included)", st == "ok" and bool(v) == perfect, dict(w, include_fourths=inc), perfect, v)
                    st, v = ctx.call(intervals.is_consonant, a, b, inc)
                    ctx.check("consonance: consonant = perfect or imperfect", st == "ok" and bool(v) == (perfect or imperfect), dict(w, include_fourths=inc), perfect or imperfect, v)
                    # is_dissonant(n1, n2, x) is documented as not is_consonant(n1, n2, not x)
                    perfect_n = d in (0, 7) or ((not inc) and d == 5)
                    st, v = ctx.call(intervals.is_dissonant, a, b, inc)
                    ctx.check("consonance: dissonant = not consonant", st == "ok" and bool(v) == (not (perfect_n or imperfect)), dict(w, include_fourths=inc), not (perfect_n or imperfect), v)
                if d == 5 or (pa + len(b)) % 7 == 0:
                    for flag in (0, 1, None, ""):      # truthy / falsy flags that are not bools
                        inc = bool(flag)
                        perfect = d in (0, 7) or (inc and d == 5)
                        st, v = ctx.call(intervals.is_consonant, a, b, flag)
                        ctx.check("consonance: consonant = perfect or imperfect", st == "ok" and bool(v) == (perfect or imperfect),
                                  dict(w, include_fourths=repr(flag)), perfect or imperfect, v, mechanism="flag-form:is_consonant")
                        st, v = ctx.call(intervals.is_perfect_consonant, a, b, flag)
                        ctx.check("consonance: perfect = {0,7} (+5 when fourths included)", st == "ok" and bool(v) == perfect,
                                  dict(w, include_fourths=repr(flag)), perfect, v, mechanism="flag-form:is_perfect_consonant")
                        perfect_n = d in (0, 7) or ((not inc) and d == 5)
                        st, v = ctx.call(intervals.is_dissonant, a, b, flag)
                        ctx.check("consonance: dissonant = not consonant", st == "ok" and bool(v) == (not (perfect_n or imperfect)),
                                  dict(w, include_fourths=repr(flag)), not (perfect_n or imperfect), v, mechanism="flag-form:is_dissonant")
                st, v = ctx.call(intervals.is_imperfect_consonant, a, b)
                ctx.check("consonance: imperfect = {3,4,8,9}", st == "ok" and bool(v) == imperfect, w,
                          imperfect, v)
                # defaults: fourths count as consonant
                st, v = ctx.call(intervals.is_consonant, a, b)
                ctx.check("consonance: default includes fourths", st == "ok" and v == (d in (0, 3, 4, 5, 7, 8, 9)), w,
                          d in (0, 3, 4, 5, 7, 8, 9), v)
                st, v = ctx.call(intervals.is_dissonant, a, b)
                ctx.check("consonance: default dissonant = not default consonant",
                          st == "ok" and v == (d not in (0, 3, 4, 5, 7, 8, 9)), w, d not in (0, 3, 4, 5, 7, 8, 9), v)
            ctx.case(("pairs-from", a), n=len(seconds), nontrivial=True)
        ctx.note_exhaustive("ordered pairs (first letter %s) of names with <= %d accidentals" % (L, shard["k"]),
                            len(firsts) * len(seconds))
        ctx.sample({"measure('%s#','Gb')" % L: intervals.measure(L + "#", "Gb"),
                    "is_dissonant": intervals.is_dissonant(L + "#", "Gb")})
