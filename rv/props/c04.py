"""C04 Keys: signatures, key notes, relatives and diatonic steps are consistent."""
import itertools

from mingus.core import keys, intervals
from mingus.core.mt_exceptions import NoteFormatError, RangeError

from rv.models import theory as T

ID = "C04"
ANCHOR_FILES = ["mingus/core/keys.py", "mingus/core/intervals.py"]
REQUIRED_REACH = ["core.keys.get_notes", "core.keys.get_key", "core.keys.get_key_signature",
                  "core.keys.get_key_signature_accidentals", "core.keys.relative_major", "core.keys.relative_minor",
                  "core.keys.Key.__init__", "core.keys.is_valid_key", "core.intervals.interval",
                  "core.intervals.second", "core.intervals.seventh"]
REQUIRED_CLAUSES = ["key notes:", "signature:", "relative:", "Key object:", "reject:", "diatonic:"]
RULE = ("the 30 keys (every clause); integers as signature numbers; every string up to a length bound over "
        "'A-G a-g # b' plus hostile strings as candidate keys; (key, note spelling, step 1..6) for the diatonic "
        "interval functions; non-trivial = everything except the key of C; distinct by (clause family, input)")

ALPHA = "ABCDEFGabcdefg#b"
STEPFN = ["second", "third", "fourth", "fifth", "sixth", "seventh"]


def shards(tier, seed):
    out = [{"name": "thirty-keys", "kind": "keys", "weight": 2},
           {"name": "caller-edits-first-answers", "kind": "coldedit", "cold": True, "weight": 1},
           {"name": "cold-minors-first", "kind": "coldorder", "order": "minors-first", "cold": True, "weight": 1},
           {"name": "cold-random-order", "kind": "coldorder", "order": "random", "cold": True, "weight": 1},
           {"name": "integers", "kind": "ints", "weight": 1}]
    ln = 3 if tier == "quick" else 4
    for first in ALPHA:
        out.append({"name": "strings-" + first, "kind": "strings", "first": first,
                    "group": first, "maxlen": ln, "weight": 6})
    for L in T.LETTERS:
        out.append({"name": "diatonic-" + L, "kind": "diatonic", "letter": L, "after_history": L in "CE", "before_history": L in "DG", "k": 3 if tier == "quick" else 5,
                    "weight": 4})
    return out


def check_key(ctx, name, sig, mode):
    minor = mode == "minor"
    exp = T.key_notes(sig, minor)
    w = {"key": name}
    for attempt in ("cold", "warm"):
        st, got = ctx.call(keys.get_notes, name)
        ok = st == "ok" and list(got) == exp
        ctx.check("key notes: equal the model key (%s call)" % attempt, ok, w, exp, got, mechanism="get_notes")
    if st == "ok" and isinstance(got, list) and len(got) == 7 and all(T.valid(x) for x in got):
        tonic = name[0].upper() + name[1:]
        ctx.check("key notes: start on the tonic", got[0] == tonic, w, tonic, got[0])
        ctx.check("key notes: every letter once, in order",
                  [x[0] for x in got] == [T.LETTERS[(T.LETTERS.index(tonic[0]) + i) % 7] for i in range(7)], w, None, got)
        steps = T.steps_of(got + [got[0]])
        ctx.check("key notes: major / natural-minor step pattern", steps == (T.MINOR_STEPS if minor else T.MAJOR_STEPS),
                  w, T.MINOR_STEPS if minor else T.MAJOR_STEPS, steps)
        acc = sorted(x for x in got if len(x) > 1)
        ctx.check("key notes: accidentals are exactly the signature's", acc == sorted(T.key_signature_accidentals(sig)),
                  w, sorted(T.key_signature_accidentals(sig)), acc)
    st, v = ctx.call(keys.get_key_signature, name)
    ctx.check("signature: number of the key", st == "ok" and v == sig, w, sig, v)
    st, v = ctx.call(keys.get_key_signature_accidentals, name)
    ctx.check("signature: accidentals in circle-of-fifths order, count and sign = the number",
              st == "ok" and list(v) == T.key_signature_accidentals(sig), w, T.key_signature_accidentals(sig), v)
    st, v = ctx.call(keys.get_key, sig)
    expk = (T.major_tonic(sig), T.minor_tonic(sig)[0].lower() + T.minor_tonic(sig)[1:])
    ctx.check("signature: key lookup is the inverse of signature lookup", st == "ok" and tuple(v) == expk
              and name in tuple(v), {"signature": sig}, expk, v)
    st, v = ctx.call(keys.is_valid_key, name)
    ctx.check("key notes: the 30 keys are valid keys", st == "ok" and v is True, w, True, v)
    # relatives
    if minor:
        st, maj = ctx.call(keys.relative_major, name)
        ok = st == "ok" and maj == T.major_tonic(sig)
        ctx.check("relative: major of a minor key", ok, w, T.major_tonic(sig), maj)
        if ok:
            st, back = ctx.call(keys.relative_minor, maj)
            ctx.check("relative: minor(major(k)) == k", st == "ok" and back == name, w, name, back)
            st, mn = ctx.call(keys.get_notes, maj)
            ctx.check("relative: both keys share one note set", st == "ok" and sorted(mn) == sorted(exp), w,
                      sorted(exp), mn)
            ctx.check("relative: minor tonic lies 9 semitones above the major tonic",
                      (T.pc(exp[0]) - T.pc(maj)) % 12 == 9, w, 9, (T.pc(exp[0]) - T.pc(maj)) % 12)
    else:
        st, mi = ctx.call(keys.relative_minor, name)
        expm = T.minor_tonic(sig)[0].lower() + T.minor_tonic(sig)[1:]
        ok = st == "ok" and mi == expm
        ctx.check("relative: minor of a major key", ok, w, expm, mi)
        if ok:
            st, back = ctx.call(keys.relative_major, mi)
            ctx.check("relative: major(minor(k)) == k", st == "ok" and back == name, w, name, back)
    # Key object
    st, k = ctx.call(keys.Key, name)
    if st != "ok":
        ctx.check("Key object: constructible for each of the 30 keys", False, w, "Key", repr(k))
    else:
        nm = name[0].upper() + ("" if len(name) == 1 else (" sharp" if name[1] == "#" else " flat")) + " " + mode
        ctx.check("Key object: key, mode, signature and name match",
                  k.key == name and k.mode == mode and k.signature == sig and k.name == nm, w,
                  {"key": name, "mode": mode, "signature": sig, "name": nm},
                  {"key": k.key, "mode": k.mode, "signature": k.signature, "name": k.name})
        st, k2 = ctx.call(keys.Key, name)
        ctx.check("Key object: equal keys compare equal, different keys unequal",
                  st == "ok" and k == k2 and not (k != k2) and k != keys.Key("Gb" if name != "Gb" else "C"), w)
    ctx.case(("key", name), nontrivial=name != "C")


def check_candidate(ctx, s):
    if s in T.KEY_BY_NAME:
        k = T.KEY_BY_NAME[s]
        check_key(ctx, k[0], k[1], k[2])
        return
    w = {"candidate": s}
    st, v = ctx.call(keys.is_valid_key, s)
    ctx.check("reject: is_valid_key is false for everything but the 30 keys", st == "ok" and v is False, w, False, v)
    for fname in ("get_notes", "get_key_signature", "get_key_signature_accidentals", "Key", "relative_major",
                  "relative_minor"):
        st, v = ctx.call(getattr(keys, fname), s)
        ctx.check("reject: unknown keys raise the note-format error", st == "exc" and isinstance(v, NoteFormatError),
                  dict(w, call="keys." + fname), "NoteFormatError", repr(v), mechanism="reject:" + fname)
    # ... and through the diatonic functions, which take the key as their second argument (with a valid note)
    if len(s) <= 2 or s[:1] in "Cc{%":
        for fname in STEPFN[(len(s) + (ord(s[0]) if s else 0)) % 6::3]:
            st, v = ctx.call(getattr(intervals, fname), "E", s)
            ctx.check("reject: unknown keys raise the note-format error", st == "exc" and isinstance(v, NoteFormatError),
                      dict(w, call="intervals." + fname), "NoteFormatError", repr(v), mechanism="reject:intervals." + fname)
        st, v = ctx.call(intervals.interval, s, "E", 2)
        ctx.check("reject: unknown keys raise the note-format error", st == "exc" and isinstance(v, NoteFormatError),
                  dict(w, call="intervals.interval"), "NoteFormatError", repr(v), mechanism="reject:intervals.interval")
    ctx.case(("cand", s))


def run(shard, ctx):
    kind = shard["kind"]
    if kind == "keys":
        for (name, sig, mode) in T.KEYS:
            check_key(ctx, name, sig, mode)
        # interleaved: every query again after every other query (memo transparency)
        for (name, sig, mode) in T.KEYS:
            for (other, _s, _m) in T.KEYS:
                keys.get_notes(other)
                st, got = ctx.call(keys.get_notes, name)
                ctx.check("key notes: unchanged after querying another key", st == "ok" and list(got) ==
                          T.key_notes(sig, mode == "minor"), {"key": name, "after": other},
                          T.key_notes(sig, mode == "minor"), got, mechanism="get_notes-interleaved")
            ctx.case(("interleaved", name), n=30)
        # memo transparency under a caller that edits what it was given (last: a library that hands out its
        # tables by reference is corrupted from here on)
        for (name, sig, mode) in T.KEYS:
            exp = T.key_notes(sig, mode == "minor")
            for attempt in range(2):
                st, got = ctx.call(keys.get_notes, name)
                if st == "ok" and isinstance(got, list):
                    got.reverse()
                    got.append("X")
                    if got:
                        got[0] = "Q"
            st, got = ctx.call(keys.get_notes, name)
            ctx.check("key notes: unchanged after a caller edited a previously returned list", st == "ok" and list(got) == exp,
                      {"key": name}, exp, got, mechanism="get_notes-after-caller-edit")
            st, v = ctx.call(intervals.third, exp[0], name)
            ctx.check("diatonic: unchanged after a caller edited a previously returned key", st == "ok" and v == exp[2], {"key": name},
                      exp[2], v, mechanism="diatonic-after-caller-edit")
            st, acc = ctx.call(keys.get_key_signature_accidentals, name)
            if st == "ok" and isinstance(acc, list):
                acc.append("X")
            st, acc = ctx.call(keys.get_key_signature_accidentals, name)
            ctx.check("signature: unchanged after a caller edited a previously returned list", st == "ok" and
                      list(acc) == T.key_signature_accidentals(sig), {"key": name}, T.key_signature_accidentals(sig), acc,
                      mechanism="accidentals-after-caller-edit")
            ctx.case(("caller-edit", name))
        ctx.note_exhaustive("the 30 keys", 30)
        ctx.sample({"get_notes('eb')": keys.get_notes("eb"), "signature": keys.get_key_signature("eb"),
                    "Key('eb').name": keys.Key("eb").name})
    elif kind == "coldedit":
        # the very first answer for each key (cold memo tables) is edited by the caller, then asked again
        for (name, sig, mode) in T.KEYS:
            exp = T.key_notes(sig, mode == "minor")
            st, got = ctx.call(keys.get_notes, name)
            ok = st == "ok" and list(got) == exp
            ctx.check("key notes: equal the model key (cold call)", ok, {"key": name}, exp, got, mechanism="get_notes")
            if st == "ok" and isinstance(got, list):
                got.reverse()
                got.append("X")
            st, got = ctx.call(keys.get_notes, name)
            ctx.check("key notes: unchanged after a caller edited a previously returned list", st == "ok" and list(got) == exp,
                      {"key": name, "edited": "the first answer ever given for this key"}, exp, got, mechanism="get_notes-after-caller-edit")
            st, v = ctx.call(intervals.fifth, exp[0], name)
            ctx.check("diatonic: unchanged after a caller edited a previously returned key", st == "ok" and v == exp[4], {"key": name},
                      exp[4], v, mechanism="diatonic-after-caller-edit")
            ctx.case(("cold-edit", name))
        ctx.sample({"edit": "reverse + append on the first get_notes('Eb') answer", "then get_notes('Eb')": keys.get_notes("Eb")})
    elif kind == "coldorder":
        ks = list(T.KEYS)
        if shard["order"] == "minors-first":
            ks = [k for k in ks if k[2] == "minor"] + [k for k in ks if k[2] == "major"]
        else:
            ctx.rng("order").shuffle(ks)
        for (name, sig, mode) in ks:
            check_key(ctx, name, sig, mode)
        ctx.sample({"order": [k[0] for k in ks][:10]})
    elif kind == "ints":
        # (integers up to what the interpreter itself still writes out in decimal - 4300 digits: beyond that any refusal that
        # mentions the offending value dies of the interpreter's own ValueError, which is a limit of the platform, not of the key table)
        for big in list(range(-40, 41)) + [2 ** k for k in range(6, 40)] + [-2 ** k for k in range(6, 40)] + \
                [10 ** 4299, -(10 ** 4298), 1 << 14000]:
            i = big
            st, v = ctx.call(keys.get_key, i)
            if abs(i) > 10 ** 100:
                i = "about %s2**%d" % ("-" if i < 0 else "", i.bit_length())       # (witnesses stay printable)
                ctx.check("reject: signature numbers outside -7..7 raise the range error",
                          st == "exc" and isinstance(v, RangeError), {"signature": i}, "RangeError", repr(v),
                          mechanism="reject:get_key")
                ctx.case(("int", i))
                continue
            if -7 <= i <= 7:
                exp = (T.major_tonic(i), T.minor_tonic(i)[0].lower() + T.minor_tonic(i)[1:])
                ctx.check("signature: key lookup for -7..7", st == "ok" and tuple(v) == exp, {"signature": i}, exp, v)
                if st == "ok":
                    for nm in v:
                        st2, back = ctx.call(keys.get_key_signature, nm)
                        ctx.check("signature: signature(key(n)) == n", st2 == "ok" and back == i, {"signature": i}, i, back)
            else:
                ctx.check("reject: signature numbers outside -7..7 raise the range error",
                          st == "exc" and isinstance(v, RangeError), {"signature": i}, "RangeError", repr(v),
                          mechanism="reject:get_key")
            ctx.case(("int", i))
        st, v = ctx.call(keys.get_key)
        ctx.check("signature: default is C / a", st == "ok" and tuple(v) == ("C", "a"), {}, ("C", "a"), v)
        ctx.sample({"get_key(-3)": keys.get_key(-3)})
    elif kind == "strings":
        n = 0
        groups = {"A": "ABCDEFG", "a": "abcdefg", "#": "#b"}
        firsts = [shard["first"]] if shard.get("first") else groups[shard["group"]]
        for f in firsts:
            for ln in range(0, shard["maxlen"]):
                for t in itertools.product(ALPHA, repeat=ln):
                    check_candidate(ctx, f + "".join(t))
                    n += 1
        for s in ["H", "c ", " c", "C major", "c minor", "Cm", "cb#", "C♯", "c-", "1", "do", "C\n", "ces", "Cis",
                  "Fb", "fb", "B#", "E#", "cb", "Db ", "g##", "G##"]:
            if s[0] in firsts:
                check_candidate(ctx, s)
        if "C" in firsts:
            check_candidate(ctx, "")        # the empty string is a candidate key like any other
        if "C" in firsts or "c" in firsts or "#" in firsts:
            for s in T.HOSTILE_STRINGS:
                if s[0] in firsts or (s[0] not in "ABCDEFGabcdefg" and "#" in firsts):
                    check_candidate(ctx, s)
        ctx.note_exhaustive("strings starting with %s over %r up to length %d" % ("".join(firsts), ALPHA, shard["maxlen"]), n)
        ctx.sample({"candidate": firsts[0] + "#b", "is_valid_key": keys.is_valid_key(firsts[0] + "#b")})
    else:
        L = shard["letter"]
        names = [L + a for a in T.acc_strings(shard["k"])]
        for (kname, sig, mode) in T.KEYS:
            knotes = T.key_notes(sig, mode == "minor")
            byletter = dict((x[0], x) for x in knotes)
            # entering a new key with a call that must be refused (an invalid note), then the valid ones
            st, v = ctx.call(intervals.second, "H", kname)
            ctx.check("reject: an invalid note is refused by the diatonic functions", st == "exc", {"key": kname, "note": "H"}, "exception",
                      repr(v), mechanism="reject:diatonic-note")
            for n in names:
                for step in range(1, 7):
                    exp = byletter[T.LETTERS[(T.li(n) + step) % 7]]
                    w = {"key": kname, "note": n, "step": step}
                    st, v = ctx.call(getattr(intervals, STEPFN[step - 1]), n, kname)
                    ctx.check("diatonic: second..seventh = the key note that many letters above", st == "ok" and v == exp,
                              w, exp, v, mechanism="diatonic:" + STEPFN[step - 1])
                    st, v = ctx.call(intervals.interval, kname, n, step)
                    ctx.check("diatonic: interval(key, note, step)", st == "ok" and v == exp, w, exp, v,
                              mechanism="diatonic:interval")
                ctx.case(("diatonic", kname, n), n=6, nontrivial=kname != "C")
        ctx.note_exhaustive("30 keys x names on %s with <= %d accidentals x 6 steps" % (L, shard["k"]), 30 * len(names) * 6)
        ctx.sample({"third('%s#','Ab')" % L: intervals.third(L + "#", "Ab")})
