"""C20 Tunings and tablature: exact fret arithmetic; tabs decode to the same pitches."""
import itertools
import os

from mingus.containers import Note, NoteContainer, Bar, Track, Composition
from mingus.core import chords
from mingus.core.mt_exceptions import RangeError, FingerError
from mingus.extra import tunings as TU
from mingus.extra import tablature as TAB

from rv.models import tab
from rv.models import theory as T

ID = "C20"
ANCHOR_FILES = ["mingus/extra/tunings.py", "mingus/extra/tablature.py"]
REQUIRED_REACH = ["extra.tunings.StringTuning.find_frets", "extra.tunings.StringTuning.get_Note", "extra.tunings.StringTuning.find_fingering",
                  "extra.tunings.StringTuning.find_chord_fingering", "extra.tunings.get_tuning", "extra.tunings.get_tunings",
                  "extra.tunings.fingers_needed", "extra.tablature.from_Note", "extra.tablature.from_NoteContainer",
                  "extra.tablature.from_Bar", "extra.tablature.from_Track", "extra.tablature.from_Composition"]
REQUIRED_CLAUSES = ["frets:", "lookup:", "fingering:", "chord-fingering:", "tab:"]
RULE = ("all registered tunings x strings x notes 0..127 x maxfret {0,12,24}; tuning lookups by prefix / string count / course "
        "count; random note sets per tuning against a brute-force fingering specification; chord shorthands x roots on "
        "guitar-family tunings; random notes, containers, bars, tracks and compositions x page widths rendered as tablature "
        "and decoded column by column; non-trivial = every case; distinct by (tuning, input)")


def all_tunings():
    return list(TU.get_tunings())


def opens_of(t):
    return [int(s[0]) if isinstance(s, list) else int(s) for s in t.tuning]


def strings_of(t):
    return len(t.tuning)


def courses_of(t):
    """average number of strings per course, counted here (not by the library)"""
    return sum(len(s) if isinstance(s, list) else 1 for s in t.tuning) / float(len(t.tuning))


def has_courses(t):
    return any(isinstance(s, list) for s in t.tuning)


def tname(t):
    return "%s / %s" % (t.instrument, t.description)


def shards(tier, seed):
    out = []
    for i in range(4):
        out.append({"name": "frets-%d" % i, "kind": "frets", "part": i, "parts": 4, "weight": 6})
    out.append({"name": "lookup", "kind": "lookup", "weight": 3})
    out.append({"name": "lookup-history", "kind": "lookuphist", "n": 40 if tier == "quick" else 400, "weight": 3})
    n = 4000 if tier == "quick" else 40000
    parts = 8 if tier == "quick" else 16
    for i in range(parts):
        out.append({"name": "fingerings-%d" % i, "kind": "fingering", "n": n // parts, "weight": 6})
    parts = 8 if tier == "quick" else 16
    for i in range(parts):
        out.append({"name": "chord-fingerings-%d" % i, "kind": "chordfing", "part": i, "parts": parts, "tier": tier, "weight": 9})
    n = 4800 if tier == "quick" else 60000
    parts = 8 if tier == "quick" else 16
    for i in range(parts):
        out.append({"name": "tabs-%d" % i, "kind": "tab", "n": n // parts, "weight": 8})
    return out


def brute_fingerings(opens, notes, max_distance=4, maxfret=24):
    res = []
    for strings in itertools.permutations(range(len(opens)), len(notes)):
        f = [(s, n - opens[s]) for s, n in zip(strings, notes)]
        if any(not 0 <= x[1] <= maxfret for x in f):
            continue
        nz = [x[1] for x in f if x[1] != 0]
        if nz and max(nz) - min(nz) >= max_distance:
            continue
        res.append(f)
    return res


def run(shard, ctx):
    kind = shard["kind"]
    tun = all_tunings()
    if len(tun) < 10:
        ctx.unsure("only %d tunings registered" % len(tun))
    if kind == "frets":
        mine = tun[shard["part"]::shard["parts"]]
        for t in mine:
            opens = opens_of(t)
            w = {"tuning": tname(t)}
            for n in range(0, 128):
                note = Note(n)
                for mf in (0, 12, 24):
                    st, fr = ctx.call(t.find_frets, note, mf)
                    exp = [(n - o) if 0 <= n - o <= mf else None for o in opens]
                    if not (st == "ok" and list(fr) == exp):
                        ctx.check("frets: the fret on a string is the semitone distance from the open string when within 0..maxfret, else None",
                                  False, dict(w, note=n, maxfret=mf), exp, repr(fr), mechanism="find_frets")
                ctx.count("frets: the fret on a string is the semitone distance from the open string when within 0..maxfret, else None", 3)
            st, fr = ctx.call(t.find_frets, "E-4")
            exp = [(52 - o) if 0 <= 52 - o <= 24 else None for o in opens]
            ctx.check("frets: note strings are accepted and the default maxfret is 24", st == "ok" and list(fr) == exp, w, exp, repr(fr),
                      mechanism="find_frets-default")
            for s, o in enumerate(opens):
                for f in (0, 1, 7, 12, 24):
                    st, nn = ctx.call(t.get_Note, s, f)
                    ctx.check("frets: the note at (string, fret) is the open string raised by fret semitones", st == "ok" and int(nn) == o + f,
                              dict(w, string=s, fret=f), o + f, repr(nn), mechanism="get_Note")
                for f in (-1, 25, 100, -24):
                    st, nn = ctx.call(t.get_Note, s, f)
                    ctx.check("frets: out-of-range frets are rejected with the range error", st == "exc" and isinstance(nn, RangeError),
                              dict(w, string=s, fret=f), "RangeError", repr(nn), mechanism="get_Note-fret-range")
                st, nn = ctx.call(t.get_Note, s, 13, 12)
                ctx.check("frets: out-of-range frets are rejected with the range error", st == "exc" and isinstance(nn, RangeError),
                          dict(w, string=s, fret=13, maxfret=12), "RangeError", repr(nn), mechanism="get_Note-fret-range")
            for s in (-1, len(opens), len(opens) + 5, -7):
                st, nn = ctx.call(t.get_Note, s, 0)
                ctx.check("frets: out-of-range strings are rejected with the range error", st == "exc" and isinstance(nn, RangeError),
                          dict(w, string=s), "RangeError", repr(nn), mechanism="get_Note-string-range")
            ctx.case(("frets", tname(t)), n=128 * 3)
            ctx.case(("frets-b", tname(t)))
        ctx.note_exhaustive("tunings %d/%d x strings x notes 0..127 x maxfret {0,12,24}" % (shard["part"], shard["parts"]), len(mine) * 128 * 3)
        ctx.sample({"tuning": tname(mine[0]), "find_frets(Note(52))": mine[0].find_frets(Note(52))})
    elif kind == "lookup":
        insts = sorted(set(t.instrument for t in tun))
        cnt = 0
        for t in tun:
            I, D = t.instrument, t.description
            for pi in (I[:1], I[:3], I, I.lower(), I.upper(), I[:-1]):
                for ns in (None, strings_of(t), 3, 6):
                    for ncs in (None, courses_of(t), 1, 2):
                        st, rs = ctx.call(TU.get_tunings, pi, ns, ncs)
                        ok = st == "ok" and isinstance(rs, list) and all(
                            r.instrument.upper().startswith(pi.upper()) and (ns is None or strings_of(r) == ns) and
                            (ncs is None or courses_of(r) == ncs) for r in rs)
                        ctx.check("lookup: get_tunings returns only tunings satisfying all given constraints", ok,
                                  {"instrument": pi, "strings": ns, "courses": ncs}, None,
                                  [tname(r) for r in rs][:4] if st == "ok" else repr(rs), mechanism="get_tunings")
                        # completeness for exact instrument names: every matching registered tuning is listed
                        if st == "ok" and pi.upper() == I.upper():
                            want = [x for x in tun if x.instrument.upper() == I.upper() and (ns is None or strings_of(x) == ns)
                                    and (ncs is None or courses_of(x) == ncs)]
                            ctx.check("lookup: an exact instrument name lists that instrument's matching tunings",
                                      all(any(x is r for r in rs) for x in want), {"instrument": pi, "strings": ns, "courses": ncs},
                                      len(want), len(rs), mechanism="get_tunings-complete")
                        for pd in ("", D[:2], D, D.lower()):
                            st, r = ctx.call(TU.get_tuning, pi, pd, ns, ncs)
                            ok = st == "ok" and (r is None or (
                                r.instrument.upper().startswith(pi.upper()) and r.description.upper().startswith(pd.upper()) and
                                (ns is None or strings_of(r) == ns) and (ncs is None or courses_of(r) == ncs)))
                            ctx.check("lookup: get_tuning returns only a tuning satisfying all given constraints", ok,
                                      {"instrument": pi, "description": pd, "strings": ns, "courses": ncs}, None,
                                      tname(r) if st == "ok" and r is not None else repr(r), mechanism="get_tuning")
                            cnt += 1
            st, c1 = ctx.call(t.count_strings)
            st2, c2 = ctx.call(t.count_courses)
            ctx.check("lookup: string and course counts are the number of strings and the strings per course", st == "ok" and st2 == "ok"
                      and c1 == strings_of(t) and abs(c2 - courses_of(t)) < 1e-12, {"tuning": tname(t)}, [strings_of(t), courses_of(t)],
                      [repr(c1), repr(c2)], mechanism="counts")
            st, r = ctx.call(TU.get_tuning, I, D, strings_of(t), courses_of(t))
            ctx.check("lookup: a registered tuning is found by its own instrument, description, string and course count",
                      st == "ok" and r is not None and r.instrument == I, {"instrument": I, "description": D}, tname(t),
                      tname(r) if st == "ok" and r is not None else repr(r), mechanism="get_tuning-self")
            ctx.case(("lookup", tname(t)))
        st, rs = ctx.call(TU.get_tunings)
        ctx.check("lookup: get_tunings() lists every registered tuning", st == "ok" and len(rs) == len(tun), {}, len(tun), repr(rs)[:80])
        ctx.sample({"instruments": insts[:8], "get_tuning('guitar','standard',6,1)": tname(TU.get_tuning("guitar", "standard", 6, 1))})
    elif kind == "lookuphist":
        # the registry after a history of registrations: new instruments, and descriptions registered again with another
        # number of strings or of courses (seed C20-11A); this shard is its own process, so the registry is its own
        rng = ctx.rng("lookuphist")
        model = dict(((t.instrument.upper(), t.description.upper()), t) for t in tun)
        pool = ["E-2", "A-2", "D-3", "G-3", "B-3", "E-4", "A-4", "C-3"]
        hist = []
        for h in range(shard["n"]):
            if rng.random() < 0.5 or not hist:
                I, D = rng.choice(["Travel guitar", "Cigar box", "Guitar", "Bouzouki x"]), rng.choice(["Standard tuning", "Open", "odd"])
            else:
                I, D = hist[-1][0], hist[-1][1]          # the same entry once more, in another shape
                if rng.random() < 0.5:
                    I, D = I.lower(), D.upper()
            k = rng.randint(3, 7)
            names = pool[:k]
            shape = rng.choice([1, 1, 2, 3])
            strs = names if shape == 1 else [[n] + [n[:-1] + str(int(n[-1]) + 1)] * (shape - 1) for n in names]
            st, r = ctx.call(TU.add_tuning, I, D, strs)
            hist.append((I, D, k, shape))
            w = {"registrations": hist[-4:]}
            if st != "ok":
                ctx.check("lookup: a tuning can be registered", False, w, None, repr(r), mechanism="add_tuning")
                break
            model[(I.upper(), D.upper())] = (k, shape)
            reg = TU.get_tunings()
            ctx.check("lookup: get_tunings() lists every registered tuning", len(reg) == len(model), w, len(model), len(reg), mechanism="registered")
            for ns in (None, k, 6):
                for ncs in (None, shape, 1, 2):
                    st, rs = ctx.call(TU.get_tunings, None, ns, ncs)
                    want = [x for x in reg if (ns is None or strings_of(x) == ns) and (ncs is None or courses_of(x) == ncs)]
                    ok = st == "ok" and len(rs) == len(want) and all(any(x is y for y in rs) for x in want)
                    ctx.check("lookup: get_tunings returns only tunings satisfying all given constraints", ok,
                              dict(w, strings=ns, courses=ncs), len(want), len(rs) if st == "ok" else repr(rs), mechanism="get_tunings-history")
                    st, r = ctx.call(TU.get_tuning, I, D, ns, ncs)
                    fits = (ns is None or ns == k) and (ncs is None or ncs == shape)
                    ok = st == "ok" and (r is None or ((ns is None or strings_of(r) == ns) and (ncs is None or courses_of(r) == ncs)))
                    ctx.check("lookup: get_tuning returns only a tuning satisfying all given constraints", ok,
                              dict(w, strings=ns, courses=ncs), None, tname(r) if st == "ok" and r is not None else repr(r),
                              mechanism="get_tuning-history")
                    if fits and I.upper() not in ("GUITAR",):
                        ctx.check("lookup: a registered tuning is found by its own instrument, description, string and course count",
                                  st == "ok" and r is not None and strings_of(r) == k and courses_of(r) == shape,
                                  dict(w, strings=ns, courses=ncs), [k, shape], tname(r) if st == "ok" and r is not None else repr(r),
                                  mechanism="get_tuning-self-history")
            ctx.case(("lookuphist", h, I, D, k, shape), nontrivial=True)
        ctx.sample({"registrations": hist[:5]})
    elif kind == "fingering":
        rng = ctx.rng("fingering")
        for i in range(shard["n"]):
            t = rng.choice(tun)
            opens = opens_of(t)
            lo = min(opens)
            k = rng.randint(1, min(4, len(opens)))
            d = rng.choice([4, 4, 4, 3, 5, 2])
            ps = [rng.randint(max(0, lo - 2), min(127, max(opens) + 26)) for _ in range(k)]
            notes = [Note(p) for p in ps]
            form = rng.choice(["notes", "container", "strings"])
            if form == "container":
                arg = NoteContainer(notes)
                ps = [int(x) for x in arg.notes]
            elif form == "strings":
                arg = ["%s-%d" % (x.name, x.octave) for x in notes]
            else:
                arg = notes
            w = {"tuning": tname(t), "notes": ps, "max_distance": d, "given_as": form}
            st, got = ctx.call(t.find_fingering, arg, d)
            exp = brute_fingerings(opens, ps, d)
            ok = st == "ok" and isinstance(got, list) and sorted(tuple(map(tuple, g)) for g in got) == sorted(tuple(map(tuple, e)) for e in exp)
            ctx.check("fingering: exactly the assignments of distinct strings to the notes whose non-open frets span less than the maximum distance",
                      ok, w, {"count": len(exp), "first": exp[:2]}, {"count": len(got), "first": got[:2]} if st == "ok" else repr(got),
                      mechanism="fingering-set")
            if st == "ok" and isinstance(got, list):
                tot = [sum(f for (_s, f) in g) for g in got]
                ctx.check("fingering: ordered by total fret number", tot == sorted(tot), w, sorted(tot)[:6], tot[:6], mechanism="fingering-order")
            ctx.case(("fingering", tname(t), tuple(ps), d))
        for t in tun[:5]:
            for arg in (None, [], NoteContainer()):
                st, got = ctx.call(t.find_fingering, arg)
                ctx.check("fingering: no notes give no fingerings", st == "ok" and got == [], {"tuning": tname(t), "notes": repr(arg)}, [], repr(got))
        ctx.sample({"tuning": "Guitar / Standard", "find_fingering(['E-4','B-4'])": TU.get_tuning("Guitar", "Standard").find_fingering(["E-4", "B-4"])[:3]})
    elif kind == "chordfing":
        fam = [t for t in tun if not has_courses(t) and t.instrument.upper() in ("GUITAR", "BASS GUITAR", "BANJO", "UKULELE", "MANDOLIN", "VIOLIN",
                                                                                "BARITONE GUITAR", "TENOR GUITAR", "CELLO", "VIOLA", "CAVAQUINHO",
                                                                                "BOUZOUKI", "BALALAIKA")]
        guitars = [t for t in fam if t.instrument.upper() == "GUITAR"]
        if shard["tier"] == "quick":
            tsel = guitars[:7]
            shs = ["", "m", "7", "M7", "m7", "dim", "aug", "sus4", "9", "m11", "6/9", "13", "5", "dim7", "m7b5", "7b9", "sus2", "6", "m6", "hendrix"]
            roots = ["C", "E", "A", "F#", "Bb", "G", "D", "B", "Eb", "Ab", "Db", "F"]
        else:
            tsel = [t for t in fam if t.instrument.upper() in ("GUITAR", "BASS GUITAR", "BANJO", "UKULELE", "MANDOLIN", "BARITONE GUITAR", "TENOR GUITAR")][:18]
            shs = sorted(chords.chord_shorthand.keys())
            roots = ["C", "E", "A", "F#", "Bb", "G", "D", "B", "Eb", "Ab", "Db", "F"]
        cases = [(t, sh, r) for t in tsel for sh in shs for r in roots]
        mine = cases[shard["part"]::shard["parts"]]
        rng = ctx.rng("chordfing")
        for (t, sh, r) in mine:
            opens = opens_of(t)
            nc = NoteContainer().from_chord(r + sh)
            pcs = set(int(n) % 12 for n in nc)
            md, mf, mfi = 4, 18, 4
            if rng.random() < 0.2:
                md, mf, mfi = rng.choice([3, 5]), rng.choice([12, 15]), rng.choice([3, 4])
            w = {"tuning": tname(t), "chord": r + sh, "max_distance": md, "maxfret": mf, "max_fingers": mfi}
            st, fs = ctx.call(t.find_chord_fingering, nc, md, mf, mfi)
            if st != "ok" or not isinstance(fs, list):
                ctx.check("chord-fingering: the search returns a list", False, w, "list", repr(fs), mechanism="chordfing-raise")
                continue
            bad = None
            for f in fs:
                snd = set((opens[i] + x) % 12 for i, x in enumerate(f) if x is not None) if len(f) == len(opens) else None
                nz = [x for x in f if x]
                if len(f) != len(opens):
                    bad = ("one entry per string", f)
                elif not snd <= pcs:
                    bad = ("sounds only pitch classes of the chord", f)
                elif snd != pcs:
                    bad = ("covers all pitch classes of the chord", f)
                elif nz and max(nz) - min(nz) >= md:
                    bad = ("span below the maximum distance", f)
                elif any(x is not None and not 0 <= x <= mf for x in f):
                    bad = ("frets within 0..maxfret", f)
                elif TU.fingers_needed(f) > mfi:
                    bad = ("finger limit", f)
                if bad:
                    break
            ctx.check("chord-fingering: every fingering has one entry per string, sounds exactly the chord's pitch classes, and respects span, "
                      "fret and finger limits", bad is None, w, None, bad, mechanism="chordfing:" + (bad[0] if bad else "ok"))
            ctx.count("chord-fingering: fingerings examined", len(fs))
            if fs and rng.random() < 0.25:
                # the best fingering handed out as the notes it sounds: exactly the chord's pitch classes (the statement speaks of
                # pitch classes; the library re-names the notes after the chord, which moves Cb / B# by an octave - not judged)
                st2, best = ctx.call(t.find_chord_fingering, nc, md, mf, mfi, True)
                got = sorted(set(int(n) % 12 for n in best)) if st2 == "ok" and hasattr(best, "notes") else repr(best)[:120]
                ctx.check("chord-fingering: every fingering has one entry per string, sounds exactly the chord's pitch classes, and respects span, "
                          "fret and finger limits", got == sorted(pcs), dict(w, as_notes=True, first_fingering=fs[0]), sorted(pcs), got,
                          mechanism="chordfing:best-as-notes")
            ctx.case(("chordfing", tname(t), r + sh, md, mf, mfi))
        ctx.sample({"chord": "Am on Guitar / Standard", "fingerings": TU.get_tuning("Guitar", "Standard").find_chord_fingering(NoteContainer().from_chord("Am"))[:3]})
    else:
        run_tabs(ctx, shard, [t for t in tun if not has_courses(t)])


# ------------------------------------------------------------------------------------- tablature
def playable(opens, ps):
    return bool(brute_fingerings(opens, ps))


def random_entry(rng, opens, playable_only=True):
    for _ in range(30):
        k = rng.randint(1, min(3, len(opens)))
        ps = sorted(set(rng.randint(min(opens), max(opens) + 12) for _ in range(k)))
        if playable(opens, ps) or not playable_only:
            return ps
    return [opens[0]]


def make_bar(rng, opens, meter, tuning=None):
    from fractions import Fraction
    b = Bar("C", meter)
    hinted = tuning is not None and rng.random() < 0.3
    exp, lens = [], []
    total, L = Fraction(0), Fraction(meter[0], meter[1])
    for _ in range(rng.randint(1, 5)):
        v = rng.choice([1, 2, 4, 4, 4, 8, 2])
        ln = Fraction(1, v)
        if total + ln > L:
            continue
        if rng.random() < 0.2:
            b.place_rest(v)
            lens.append((ln, None))
        else:
            ps = random_entry(rng, opens)
            if hinted:
                # notes as the tuning hands them out: each carries the string and fret it was asked for (two of them may
                # name the same string; the entry is playable all the same)
                objs = []
                for p in ps:
                    where = [(i, p - o) for i, o in enumerate(opens) if 0 <= p - o <= 24]
                    i, f = rng.choice(where)
                    objs.append(tuning.get_Note(i, f))
                b.place_notes(NoteContainer(objs), v)
            else:
                b.place_notes(NoteContainer([Note(p) for p in ps]), v)
            exp.append(ps)
            lens.append((ln, ps))
        total += ln
    return b, exp, lens


def in_domain(lens, B, opens):
    """every entry has at least one spare column: columns = int(length * 4 * quarter size) > digits"""
    if B is None or B < 2:
        # quarter-note markers one column apart: the quarter size is 0 or 1 column (indistinguishable in the
        # render), so no entry is guaranteed a column of its own
        return False
    for (ln, ps) in lens:
        cols = int(float(ln) * 4 * B)
        digits = 1
        if ps:
            digits = 2          # conservative: a two-digit fret may be needed
        if cols < digits + 1:
            return False
    return True


def run_tabs(ctx, shard, tun):
    rng = ctx.rng("tabs")
    default = TAB.default_tuning
    skipped = 0
    for i in range(shard["n"]):
        t = rng.choice([default, default, rng.choice(tun)])
        opens = opens_of(t)
        what = rng.choice(["note", "container", "bar", "bar", "track", "composition"])
        width = rng.choice([80, 40, 60, 120, 100, 30, rng.randint(30, 200)])
        w = {"tuning": tname(t), "what": what, "width": width}
        if what == "note":
            p = rng.randint(max(0, min(opens) - 3), max(opens) + 27)
            w["note"] = p
            can = any(0 <= p - o <= 24 for o in opens)
            nobj = Note(p)
            if can and rng.random() < 0.4:
                # the note as the tuning hands it out, carrying the string and fret it was asked for
                hs, hf = rng.choice([(k, p - o) for k, o in enumerate(opens) if 0 <= p - o <= 24])
                nobj = t.get_Note(hs, hf)
                w["carries"] = {"string": hs, "fret": hf}
            if t is default and rng.random() < 0.5:
                st, txt = ctx.call(TAB.from_Note, nobj, width)         # (the default tuning, by leaving the argument out)
                w["tuning_argument"] = "left out"
            else:
                st, txt = ctx.call(TAB.from_Note, nobj, width, t)
            if not can:
                ctx.check("tab: an entry with no possible fingering raises the fingering/range error", st == "exc" and
                          isinstance(txt, (RangeError, FingerError)), w, "RangeError", repr(txt)[:200], mechanism="tab-unplayable:note")
            else:
                judge_text(ctx, st, txt, [[[p]]], opens, w, 1)
            ctx.case(("tab-note", tname(t), p, width))
        elif what == "container":
            ps = random_entry(rng, opens, playable_only=rng.random() < 0.85)
            w["notes"] = ps
            nc = NoteContainer([Note(p) for p in ps])
            if playable(opens, ps) and rng.random() < 0.4:
                # notes carrying string and fret, taken from one of the fingerings of the entry (so that the hints can be met together)
                fg = rng.choice(brute_fingerings(opens, ps))
                objs = [t.get_Note(k, f) for (k, f) in fg]
                if objs and sorted(int(x) for x in objs) == sorted(ps):
                    nc = NoteContainer(objs)
                    w["carries"] = [[x.string, x.fret] for x in objs]
            if t is default and rng.random() < 0.5:
                st, txt = ctx.call(TAB.from_NoteContainer, nc, width)
                w["tuning_argument"] = "left out"
            else:
                st, txt = ctx.call(TAB.from_NoteContainer, nc, width, t)
            if not playable(opens, ps):
                ctx.check("tab: an entry with no possible fingering raises the fingering/range error", st == "exc" and
                          isinstance(txt, (RangeError, FingerError)), w, "FingerError", repr(txt)[:200], mechanism="tab-unplayable:container")
            else:
                judge_text(ctx, st, txt, [[ps]], opens, w, 1)
            ctx.case(("tab-nc", tname(t), tuple(ps), width))
        else:
            meter = rng.choice([(4, 4), (3, 4), (2, 4), (4, 4), (5, 4)])
            ntr = 1 if what != "composition" else rng.randint(1, 3)
            nb = 1 if what == "bar" else rng.randint(1, 4)
            tracks, exps, alllens = [], [], []
            for ti in range(ntr):
                tr = Track()
                tr.set_tuning(t) if t is not default or rng.random() < 0.5 else None
                e = []
                for _ in range(nb):
                    while True:
                        b, x, lens = make_bar(rng, opens, meter, t)
                        if len(b):
                            break
                    tr.add_bar(b)
                    e += x
                    alllens += lens
                tracks.append(tr)
                exps.append(e)
            w["bars"] = nb
            w["tracks"] = ntr
            w["entries"] = [[(str(ln), ps) for (ln, ps) in alllens][:6]]
            if what == "bar":
                if rng.random() < 0.1:
                    # an unplayable entry in the bar
                    bad = [min(opens), min(opens) + 1] if len(opens) >= 2 and not playable(opens, [min(opens), min(opens) + 1]) else None
                    if bad:
                        b2 = Bar("C", (4, 4))
                        b2.place_notes(NoteContainer([Note(p) for p in bad]), 4)
                        st, txt = ctx.call(TAB.from_Bar, b2, width, t)
                        ctx.check("tab: an entry with no possible fingering raises the fingering/range error", st == "exc" and
                                  isinstance(txt, (RangeError, FingerError)), dict(w, notes=bad), "FingerError", repr(txt)[:200],
                                  mechanism="tab-unplayable:bar")
                st, txt = ctx.call(TAB.from_Bar, tracks[0].bars[0], width, t)
            elif what == "track":
                if rng.random() < 0.3:
                    # rendered once, then a bar is added and the same track is rendered again
                    ctx.call(TAB.from_Track, tracks[0], width, t)
                    while True:
                        b, x, lens = make_bar(rng, opens, meter)
                        if len(b):
                            break
                    tracks[0].add_bar(b)
                    exps[0] += x
                    alllens += lens
                    w["rendered_before_then_extended"] = True
                if rng.random() < 0.3:
                    # the tuning comes from the track's instrument only; no tuning argument
                    from mingus.containers.instrument import Instrument
                    tracks[0].tuning = None
                    tracks[0].instrument = Instrument()
                    tracks[0].instrument.tuning = t
                    w["tuning_via"] = "track.instrument.tuning"
                    st, txt = ctx.call(TAB.from_Track, tracks[0], width)
                else:
                    if rng.random() < 0.3:
                        # the track has a tuning of its own, another one than the one asked for explicitly
                        other = rng.choice([u for u in tun if u is not t] or [default])
                        tracks[0].set_tuning(other)
                        w["track_tuning"] = tname(other)
                    st, txt = ctx.call(TAB.from_Track, tracks[0], width, t)
            else:
                c = Composition()
                c.set_title("t")
                per_track = [t] * len(tracks)
                if rng.random() < 0.4:
                    # a second track with the very same content as the first (separate objects, equal bars) but on another
                    # tuning that can play it all: each track is drawn on its own strings
                    cands = [u for u in tun if u is not t and all(playable(opens_of(u), ps) for ps in exps[0])]
                    if cands:
                        u = rng.choice(cands)
                        twin = Track()
                        for b in tracks[0].bars:
                            nb_ = Bar("C", meter)
                            for e_ in b:
                                nb_.place_notes(None if e_[2] is None else NoteContainer([Note(int(n_)) for n_ in e_[2].notes]), e_[1])
                            twin.add_bar(nb_)
                        pos = rng.randrange(len(tracks) + 1)
                        pos = max(pos, 1) if rng.random() < 0.5 else pos
                        tracks.insert(pos, twin)
                        exps.insert(pos, list(exps[0]))
                        per_track.insert(pos, u)
                        ntr += 1
                        w["tracks"] = ntr
                        w["twin_of_first_track_on"] = [pos, tname(u)]
                for tr, tu in zip(tracks, per_track):
                    tr.set_tuning(tu)
                    c.add_track(tr)
                st, txt = ctx.call(TAB.from_Composition, c, width)
                opens = [opens_of(tu) for tu in per_track]
            if st == "ok" and isinstance(txt, str):
                ml = tab.marker_lines(txt)
                # (tracks on different tunings have string labels of different widths, hence quarter notes of different widths:
                # the narrowest decides)
                Bs = [tab.beat_width(l) for l in ml]
                B = None if not Bs or any(x is None for x in Bs) else min(Bs)
                # (a render without any marker line although bars were given is not "outside the domain": it is judged)
                if ml and not in_domain(alllens, B, opens):         # (the entry lengths are the same for a twin track)
                    skipped += 1
                    ctx.case(("tab-skip", i), nontrivial=False)
                    continue
            judge_text(ctx, st, txt, exps, opens, w, ntr, what)
            ctx.case(("tab", what, tname(t), width, repr(exps)))
        if i < 2 and st == "ok":
            ctx.sample({"what": what, "tuning": tname(t), "width": width, "text": txt.split(os.linesep)[:8]})
    ctx.count("tab: renders outside the domain (some entry without a spare column) skipped", skipped)


def judge_text(ctx, st, txt, exps, opens, w, ntr, what="single"):
    if st != "ok" or not isinstance(txt, str):
        ctx.check("tab: the renderer returns text", False, w, "text", repr(txt)[:200],
                  mechanism="tab-raise:%s:%s" % (what, type(txt).__name__))
        return
    ctx.check("tab: the renderer returns text", True, w)
    sysl = tab.systems(txt)
    got = [[] for _ in range(ntr)]
    per_track_opens = opens if opens and isinstance(opens[0], list) else [opens] * ntr
    try:
        for i, blk in enumerate(sysl):
            got[i % ntr] += tab.decode_system(blk, per_track_opens[i % ntr])
    except tab.TabError as e:
        ctx.check("tab: equally long lines, one per string", False, w, None, str(e), mechanism="tab-shape:" + what)
        return
    ctx.check("tab: equally long lines, one per string", True, w)
    exp = exps          # per track: the sounding entries in order, each a sorted list of pitches
    ctx.check("tab: reading the fret numbers column by column gives back the pitches of each entry in order", got == exp, w, exp, got,
              mechanism="tab-decode:" + what)
