"""C03 Interval naming and interval shorthand are mutually inverse."""
from mingus.core import intervals

from rv.models import theory as T

ID = "C03"
ANCHOR_FILES = ["mingus/core/intervals.py"]
REQUIRED_REACH = ["core.intervals.determine", "core.intervals.from_shorthand", "core.intervals.invert"]
REQUIRED_CLAUSES = ["naming:", "shorthand:", "invert:"]
RULE = ("ordered pairs of pure names (all-sharp or all-flat spellings) whose ascending distance along the letters "
        "is 0..11, in long and short form; names x interval shorthands (accidentals + degree 1-7) x up/down; "
        "interval lists for invert; non-trivial = pair of different names / shorthand other than '1'; distinct by "
        "(a, b) or (name, shorthand, direction)")


def shards(tier, seed):
    out = []
    ka = 3 if tier == "quick" else 5
    for L in T.LETTERS:
        out.append({"name": "naming-" + L, "kind": "naming", "letter": L, "k": ka, "weight": 5, "after_history": L in "CG", "before_history": L in "DA"})
    for L in T.LETTERS:
        out.append({"name": "shorthand-" + L, "kind": "shorthand", "letter": L, "after_history": L in "CA", "before_history": L in "EB",
                    "grids": [[3, 3]] if tier == "quick" else [[4, 4], [6, 2]], "weight": 6})
    out.append({"name": "invert", "kind": "invert", "n": 1000 if tier == "quick" else 5000, "weight": 1})
    return out


def run(shard, ctx):
    kind = shard["kind"]
    if kind == "naming":
        L, k = shard["letter"], shard["k"]
        firsts = [T.spell(T.LETTERS.index(L), n) for n in range(-k, k + 1)]
        seconds = list(T.pure_names(k))
        inrange = 0
        # pairs outside the 0..11 domain are named too (what they are called is not judged; what naming them leaves behind is:
        # the judged pairs and their inverse applications come afterwards)
        for a in firsts:
            for b in seconds:
                if not 0 <= T.letter_distance(a, b) <= 11:
                    ctx.call(intervals.determine, a, b, True)
                    ctx.call(intervals.determine, a, b)
        for a in firsts:
            for b in seconds:
                d = T.letter_distance(a, b)
                if not 0 <= d <= 11:
                    continue
                inrange += 1
                long_name, sh = T.interval_name(a, b)
                w = {"note1": a, "note2": b, "distance": d}
                st, v = ctx.call(intervals.determine, a, b)
                ctx.check("naming: number from the letters, quality from the offset to the major/perfect size",
                          st == "ok" and v == long_name, w, long_name, repr(v), mechanism="long-name")
                st, v = ctx.call(intervals.determine, a, b, True)
                okform = (st == "ok" and isinstance(v, str) and len(v) >= 1 and v[-1] == sh[-1]
                          and set(v[:-1]) <= set("#b")
                          and v[:-1].count("#") - v[:-1].count("b") == sh[:-1].count("#") - sh[:-1].count("b"))
                ctx.check("naming: shorthand form = accidentals for the offset + the interval number", okform, w, sh,
                          repr(v), mechanism="short-name:" + ("unison" if a[0] == b[0] else "other"))
                if st == "ok" and isinstance(v, str) and v:
                    st2, back = ctx.call(intervals.from_shorthand, a, v)
                    if max(len(a), len(b)) - 1 <= 3:
                        ctx.check("naming: applying the returned shorthand upward reproduces the second note exactly",
                                  st2 == "ok" and back == b, dict(w, shorthand=v), b, repr(back),
                                  mechanism="inverse:" + ("unison" if a[0] == b[0] else "other"))
                    else:
                        # beyond the statement's quantifier (double accidentals) the constructors' documented
                        # +-6 re-spelling may legitimately return an enharmonic name on the same letter
                        ctx.check("naming: (beyond triple accidentals) the shorthand leads to the second note's "
                                  "letter and pitch class", st2 == "ok" and T.valid(back) and back[0] == b[0]
                                  and T.pc(back) == T.pc(b), dict(w, shorthand=v), b, repr(back),
                                  mechanism="inverse-enharmonic")
                ctx.case(("pair", a, b), nontrivial=a != b)
        ctx.note_exhaustive("pairs (first letter %s) of pure names with <= %d accidentals, distance 0..11" % (L, k), inrange)
        ctx.sample({"determine('%s','%s')" % (L, "Gb"): intervals.determine(L, "Gb"),
                    "short": intervals.determine(L, "Gb", True)})
    elif kind == "shorthand":
        L = shard["letter"]
        seen = set()
        # every pair starting on this letter is named first, in both forms, whether or not it lies in the 0..11 domain of the
        # naming clause (what naming leaves behind must not show in the applications judged below)
        # ... and whatever shorthand comes back is applied at once and judged as a shorthand in its own right
        for n in [T.spell(T.LETTERS.index(L), k_) for k_ in range(-3, 4)]:
            for b in T.pure_names(2):
                for (x, y) in ((n, b), (b, n)):
                    st, v = ctx.call(intervals.determine, x, y, True)
                    if st == "ok" and isinstance(v, str) and 1 <= len(v) <= 4 and v[-1] in "1234567" and set(v[:-1]) <= set("#b"):
                        st2, r = ctx.call(intervals.from_shorthand, x, v)
                        EL, EP = T.shorthand_apply(x, v, True)
                        ok = st2 == "ok" and T.valid(r) and T.li(r) == EL and T.pc(r) == EP
                        ctx.check("shorthand: exactly major size + sharps - flats semitones away", ok, {"note": x, "shorthand": v, "up": "True",
                                  "asked_right_after": "determine(%r, %r, True)" % (x, y)}, [T.LETTERS[EL], EP], repr(r),
                                  mechanism="distance:right-after-naming")
        for (kn, ks) in shard["grids"]:
            names = [T.spell(T.LETTERS.index(L), n) for n in range(-kn, kn + 1)]
            for n in names:
                shs = T.all_shorthands(ks, mixed=True)
                shs.sort(key=lambda s_: (hash((n, s_)) & 0xffff))       # order varies per name (memo keys are not warmed in a fixed order)
                for sh in shs:
                    if (n, sh) in seen:
                        continue
                    seen.add((n, sh))
                    for up in ((True, False, 1, 0, None) if (len(seen) % 5 == 0) else (True, False)):
                        EL, EP = T.shorthand_apply(n, sh, bool(up))
                        w = {"note": n, "shorthand": sh, "up": repr(up)}
                        st, r = ctx.call(intervals.from_shorthand, n, sh, up)
                        ok = st == "ok" and T.valid(r)
                        ctx.check("shorthand: result is a valid name", ok, w, "valid name", repr(r))
                        if ok:
                            ctx.check("shorthand: lands on the letter the degree requires", T.li(r) == EL, w,
                                      T.LETTERS[EL], r, mechanism="letter:" + ("up" if up else "down") + sh[-1] + ("" if isinstance(up, bool) else ":flag-form"))
                            ctx.check("shorthand: exactly major size + sharps - flats semitones away", T.pc(r) == EP,
                                      w, EP, T.pc(r), mechanism="distance:" + ("up" if up else "down") + sh[-1] + ("" if isinstance(up, bool) else ":flag-form"))
                        ctx.case(("sh", n, sh, repr(up)), nontrivial=sh != "1")
                    # identity only where re-spelling (+-6 normal form) cannot legitimately intervene
                    if len(n) - 1 + len(sh) - 1 <= 5:
                        st, r = ctx.call(intervals.from_shorthand, n, sh, True)
                        if st == "ok" and T.valid(r):
                            st, back = ctx.call(intervals.from_shorthand, r, sh, False)
                            ctx.check("shorthand: up followed by down returns the starting name",
                                      st == "ok" and back == n, {"note": n, "shorthand": sh, "up_result": r}, n,
                                      repr(back), mechanism="updown:" + sh[-1])
        ctx.note_exhaustive("names on %s x shorthands x up/down, grids %s" % (L, shard["grids"]), 2 * len(seen))
        ctx.sample({"from_shorthand('%s','b3')" % L: intervals.from_shorthand(L, "b3"),
                    "down": intervals.from_shorthand(L, "b3", False)})
    else:
        rng = ctx.rng("invert")
        pool = list(T.pure_names(2))
        for i in range(shard["n"]):
            ln = rng.choice([0, 1, 2, 2, 2, 3, 5, 9])
            lst = [rng.choice(pool) for _ in range(ln)]
            before = list(lst)
            st, r = ctx.call(intervals.invert, lst)
            ctx.check("invert: returns the reversed list", st == "ok" and r == before[::-1], {"list": before},
                      before[::-1], r)
            ctx.check("invert: leaves the argument unchanged", lst == before, {"list": before}, before, lst)
            ctx.check("invert: result is a new list", st == "ok" and r is not lst, {"list": before})
            ctx.case(("invert", tuple(before)), nontrivial=ln >= 2)
        ctx.sample({"invert(['C','E'])": intervals.invert(["C", "E"])})
