"""C08 Diatonic harmony: functions, numerals and substitutions denote the right chords."""
from mingus.core import chords, progressions as P

from rv.models import theory as T
from rv.models import chordtab as CT

ID = "C08"
ANCHOR_FILES = ["mingus/core/chords.py", "mingus/core/progressions.py", "mingus/core/keys.py"]
REQUIRED_REACH = ["core.chords.triads", "core.chords.sevenths", "core.chords.tonic", "core.chords.subtonic7",
                  "core.chords.vii7", "core.chords.VII7", "core.progressions.to_chords", "core.progressions.determine",
                  "core.progressions.parse_string", "core.progressions.tuple_to_string", "core.progressions.substitute",
                  "core.progressions.substitute_harmonic", "core.progressions.substitute_minor_for_major",
                  "core.progressions.substitute_major_for_minor", "core.progressions.substitute_diminished_for_diminished",
                  "core.progressions.substitute_diminished_for_dominant"]
REQUIRED_CLAUSES = ["diatonic:", "prefix:", "suffix:", "function:", "roundtrip:", "substitution:"]
RULE = ("(key, degree, triad|seventh, spelling of the function) over the 30 keys; accidental prefixes; chord suffixes; "
        "harmonic-function lookup in the 15 major keys; numeral strings for parse/format; (rule, numeral, suffix, "
        "prefix, key, depth) for substitutions; non-trivial = key other than C or a non-empty prefix/suffix; distinct "
        "by (clause family, key, numeral string)")

FN = ["tonic", "supertonic", "mediant", "subdominant", "dominant", "submediant", "subtonic"]
NUM = ["I", "II", "III", "IV", "V", "VI", "VII"]
LOWER_DOCUMENTED = {"II": "ii", "III": "iii", "VI": "vi", "VII": "vii"}
FUNC_NUM = {"I": "I", "II": "ii", "III": "iii", "IV": "IV", "V": "V", "VI": "vi", "VII": "vii"}
RULES = ["substitute_harmonic", "substitute_minor_for_major", "substitute_major_for_minor",
         "substitute_diminished_for_diminished", "substitute_diminished_for_dominant"]


def pre(p):
    return "#" * p if p > 0 else "b" * (-p)


def shards(tier, seed):
    out = []
    for i in range(0, 30, 5):
        out.append({"name": "diatonic-%d" % (i // 5), "kind": "diatonic", "keys": [k[0] for k in T.KEYS[i:i + 5]], "after_history": i in (0, 15), "before_history": i in (5, 20),
                    "weight": 3})
    out.append({"name": "suffixes", "kind": "suffix", "weight": 3,
                "keys": ["C", "Eb", "f#"] if tier == "quick" else [k[0] for k in T.KEYS]})
    out.append({"name": "functions", "kind": "function", "weight": 3})
    out.append({"name": "parse-format", "kind": "parse", "weight": 1})
    mk = ["C", "Ab", "F#"] if tier == "quick" else T.MAJOR_KEYS
    for k in mk:
        out.append({"name": "substitution-" + k, "kind": "subst", "key": k, "weight": 8,
                    "depth2": 12 if tier == "quick" else 140})
    return out


def degree_chords(kname):
    kn = T.notes_of_key(kname)
    tri = [[kn[i], kn[(i + 2) % 7], kn[(i + 4) % 7]] for i in range(7)]
    sev = [t + [kn[(i + 6) % 7]] for i, t in enumerate(tri)]
    return kn, tri, sev


def shifted(chord, p):
    """letters kept, every pitch class moved by p"""
    return [(n[0], (T.pc(n) + p) % 12) for n in chord]


def sig(chord):
    return [(n[0], T.pc(n)) for n in chord] if isinstance(chord, list) and all(T.valid(x) for x in chord) else None


def wellformed(s):
    st_ok = isinstance(s, str)
    if not st_ok:
        return None
    i = 0
    while i < len(s) and s[i] in "#b":
        i += 1
    j = i
    while j < len(s) and s[j] in "IV":
        j += 1
    num, suf = s[i:j], s[j:]
    if num not in NUM:
        return None
    if suf not in ("", "7") and suf not in chords.chord_shorthand:
        return None
    return (num, s[:i].count("#") - s[:i].count("b"), suf)


MAJOR_DEG = {"I": 0, "II": 2, "III": 4, "IV": 5, "V": 7, "VI": 9, "VII": 11}
_SIMPLE = [("I", "III"), ("I", "VI"), ("IV", "II"), ("IV", "VI"), ("V", "VII"), ("V", "VIIdim7"), ("V", "IIdim7"),
           ("V", "IVdim7"), ("V", "bVIIdim7")]


def _nskip(num, k):
    return NUM[(NUM.index(num) + k) % 7]


def substitute_model(num, pc, suf, depth):
    """What `substitute` documents, in pitch-class space: (numeral, root pitch class relative to the tonic, suffix) of every
    substitute of the chord (num, pc, suf); pc carries the accidental prefix. Independent of how prefixes are written."""
    shift = (pc - MAJOR_DEG[num]) % 12
    res = []
    if suf in ("", "7"):
        for a, b in _SIMPLE:
            r = b if num == a else a if num == b else None
            if r is None:
                continue
            own = r.count("#") - r.count("b") if r[0] in "#b" else 0
            body = r.lstrip("#b")
            rnum = body.rstrip("dim7") if body.endswith("dim7") else body
            rs = body[len(rnum):]
            rpc = (MAJOR_DEG[rnum] + own + shift) % 12
            res.append((rnum, rpc, rs))
            res.append((rnum, rpc, "7") if rs == "" else (rnum, rpc, rs[:-1]))
    if suf in ("", "M", "m"):
        res.append((num, pc, suf + "7"))
    if suf in ("m", "m7"):
        n = _nskip(num, 2)
        res += [(n, (pc + 3) % 12, "M"), (n, (pc + 3) % 12, "M7")]
    if suf in ("M", "M7"):
        n = _nskip(num, 5)
        res += [(n, (pc + 9) % 12, "m"), (n, (pc + 9) % 12, "m7")]
    if suf in ("dim7", "dim"):
        n = _nskip(num, 5)
        res.append((n, (MAJOR_DEG[n] + shift) % 12, "dom7"))
        res.append((_nskip(num, 1), (pc + 1) % 12, "dom7"))
        last, q = num, pc
        for _ in range(4):
            last, q = _nskip(last, 2), (q + 3) % 12
            res.append((last, q, suf))
    out = list(res)
    if depth > 0:
        for (n2, p2, s2) in res:
            out += substitute_model(n2, p2, s2, depth - 1)
    return out


def denote(r):
    """(numeral, root pitch class relative to the tonic, suffix) a well-formed numeral string stands for"""
    wf = wellformed(r)
    if wf is None:
        return None
    return (wf[0], (MAJOR_DEG[wf[0]] + wf[1]) % 12, wf[2])


def run(shard, ctx):
    kind = shard["kind"]
    if kind == "diatonic":
        for kname in shard["keys"]:
            kn, tri, sev = degree_chords(kname)
            st, v = ctx.call(chords.triads, kname)
            ctx.check("diatonic: the seven triads are stacked thirds inside the key", st == "ok" and [list(x) for x in v] == tri,
                      {"key": kname}, tri, repr(v), mechanism="triads")
            st, v = ctx.call(chords.sevenths, kname)
            ctx.check("diatonic: the seven sevenths are stacked thirds inside the key", st == "ok" and [list(x) for x in v] == sev,
                      {"key": kname}, sev, repr(v), mechanism="sevenths")
            for i in range(7):
                names = [(FN[i], tri[i]), (FN[i] + "7", sev[i]), (NUM[i], tri[i]), (NUM[i] + "7", sev[i])]
                if NUM[i] in LOWER_DOCUMENTED:
                    names += [(LOWER_DOCUMENTED[NUM[i]], tri[i]), (LOWER_DOCUMENTED[NUM[i]] + "7", sev[i])]
                for nm, exp in names:
                    f = getattr(chords, nm, None)
                    if f is None:
                        ctx.unsure("chords.%s is missing" % nm)
                        continue
                    st, v = ctx.call(f, kname)
                    ctx.check("diatonic: function names and numeral aliases denote the key's chords",
                              st == "ok" and list(v) == exp, {"key": kname, "function": nm}, exp, repr(v), mechanism="alias:" + nm)
                    ctx.case(("alias", kname, nm), nontrivial=kname != "C")
                for s, exp in [(NUM[i], tri[i]), (NUM[i].lower(), tri[i]), (NUM[i] + "7", sev[i]), (NUM[i].lower() + "7", sev[i])]:
                    st, v = ctx.call(P.to_chords, s, kname)
                    ctx.check("diatonic: numeral strings in either case denote the key's chords", st == "ok" and v == [exp],
                              {"key": kname, "numeral": s}, [exp], repr(v), mechanism="to_chords")
                    st, v = ctx.call(P.to_chords, [s, NUM[(i + 3) % 7]], kname)
                    ctx.check("diatonic: a list of numerals maps element-wise", st == "ok" and v == [exp, tri[(i + 3) % 7]],
                              {"key": kname, "numerals": [s, NUM[(i + 3) % 7]]}, None, repr(v), mechanism="to_chords-list")
                    ctx.case(("numeral", kname, s), nontrivial=kname != "C")
                    for p in range(-3, 4):
                        if p == 0:
                            continue
                        st, v = ctx.call(P.to_chords, pre(p) + s, kname)
                        ok = st == "ok" and isinstance(v, list) and len(v) == 1 and sig(v[0]) == shifted(exp, p)
                        ctx.check("prefix: each accidental shifts every chord note by one semitone, letters kept", ok,
                                  {"key": kname, "numeral": pre(p) + s}, shifted(exp, p), repr(v), mechanism="prefix")
                        ctx.case(("prefix", kname, pre(p) + s))
            # longer progressions, with the same degree more than once under different prefixes, cases and suffixes: each
            # element is what the numeral denotes on its own
            rng = ctx.rng("progression:" + kname)
            for _ in range(12):
                prog, exp = [], []
                degs = [rng.randrange(7) for _ in range(rng.randint(1, 3))]
                for _j in range(rng.randint(2, 7)):
                    i = rng.choice(degs)
                    p = rng.choice([0, 0, -1, 1, -2, 2])
                    seventh = rng.random() < 0.4
                    num = NUM[i] if rng.random() < 0.7 else NUM[i].lower()
                    prog.append(pre(p) + num + ("7" if seventh else ""))
                    exp.append(shifted(sev[i] if seventh else tri[i], p))
                form = rng.choice(["list", "tuple", "iterator"])
                arg = list(prog) if form == "list" else tuple(prog) if form == "tuple" else iter(list(prog))
                st, v = ctx.call(P.to_chords, arg, kname)
                ok = st == "ok" and isinstance(v, list) and len(v) == len(prog) and [sig(c) for c in v] == exp
                ctx.check("diatonic: a list of numerals maps element-wise", ok, {"key": kname, "numerals": prog, "given_as": form}, exp,
                          repr(v), mechanism="to_chords-progression")
                # the same numerals one by one afterwards, and the string made of a list's items (and the other way round)
                for one, e in zip(prog, exp):
                    st, v1 = ctx.call(P.to_chords, one, kname)
                    ctx.check("prefix: each accidental shifts every chord note by one semitone, letters kept",
                              st == "ok" and isinstance(v1, list) and len(v1) == 1 and sig(v1[0]) == e, {"key": kname, "numeral": one,
                              "after_progression": prog}, e, repr(v1), mechanism="prefix-after-progression")
                ctx.case(("progression", kname, tuple(prog), form))
            for whole, parts in (("IV", ["I", "V"]), ("VI", ["V", "I"]), ("II", ["I", "I"]), ("VII", ["V", "I", "I"]), ("bII", ["b", "II"])):
                first_string = (len(kname) % 2 == 0)
                calls = [("string", whole), ("list", list(parts))] if first_string else [("list", list(parts)), ("string", whole)]
                for form, arg in calls:
                    st, v = ctx.call(P.to_chords, arg, kname)
                    if form == "string":
                        i = NUM.index(whole.lstrip("b"))
                        e = [shifted(tri[i], -1 if whole.startswith("b") else 0)]
                        ok = st == "ok" and isinstance(v, list) and [sig(c) for c in v] == e
                    elif "b" in parts:
                        e, ok = [], st == "ok" and v == []
                    else:
                        e = [shifted(tri[NUM.index(x)], 0) for x in parts]
                        ok = st == "ok" and isinstance(v, list) and [sig(c) for c in v] == e
                    ctx.check("diatonic: a list of numerals maps element-wise", ok, {"key": kname, "numerals": arg, "given_as": form,
                              "asked_first": calls[0][0]}, e, repr(v), mechanism="to_chords-string-vs-its-letters")
            for bad in ["IIII", "VV", "IIV", "VIIII", "IVI", "", "X", "m7", "7", "bb", "#", "VX"[:1] + "VV", "iiii", "vv"]:
                st, v = ctx.call(P.to_chords, bad, kname)
                ctx.check("diatonic: an unrecognised numeral yields the empty answer", st == "ok" and v == [],
                          {"key": kname, "numeral": bad}, [], repr(v), mechanism="unrecognised-numeral")
                for lst in ([bad], ["I", bad], [bad, "V"], ["I", "IV", bad, "V"], ["ii7", "V7", bad]):
                    st, v = ctx.call(P.to_chords, list(lst), kname)
                    ctx.check("diatonic: an unrecognised numeral yields the empty answer", st == "ok" and v == [],
                              {"key": kname, "numerals": lst}, [], repr(v), mechanism="unrecognised-numeral-in-list")
                ctx.case(("badnumeral", kname, bad))
        ctx.sample({"to_chords('bVII7','Eb')": P.to_chords("bVII7", "Eb"), "chords.vii7('C')": chords.vii7("C")})
    elif kind == "suffix":
        sufs = sorted(k for k in chords.chord_shorthand if k in CT.FORMULA and k not in ("", "7"))
        for kname in shard["keys"]:
            kn, tri, sev = degree_chords(kname)
            for i in range(7):
                for suf in sufs:
                    for p in ((0,) if suf not in ("m7", "dim7", "M", "6/9") else (-2, -1, 0, 1, 2)):
                        s = pre(p) + NUM[i] + suf
                        st, v = ctx.call(P.to_chords, s, kname)
                        ok = st == "ok" and isinstance(v, list) and len(v) == 1 and sig(v[0]) is not None
                        if ok:
                            base = [(kn[i][0], T.pc(kn[i]))] + [(T.LETTERS[L], pcv) for (L, pcv) in CT.targets(kn[i], suf)]
                            ok = sig(v[0]) == [(l, (q + p) % 12) for (l, q) in base]
                        ctx.check("suffix: a chord suffix rebuilds that chord type on the degree's root", ok,
                                  {"key": kname, "numeral": s}, None, repr(v), mechanism="suffix:" + suf)
                        ctx.case(("suffix", kname, s))
        ctx.sample({"to_chords('#IVdim7','C')": P.to_chords("#IVdim7", "C")})
    elif kind == "function":
        for kname in T.MAJOR_KEYS:
            kn, tri, sev = degree_chords(kname)
            for i in range(7):
                for ch, sh, lg in [(tri[i], FUNC_NUM[NUM[i]], FN[i]), (sev[i], FUNC_NUM[NUM[i]] + "7", FN[i] + " seventh")]:
                    w = {"key": kname, "chord": ch}
                    arg = list(ch)
                    if (i + len(kname)) % 2:
                        from mingus.core import chords as _ch
                        ctx.call(_ch.determine, list(ch), True)       # naming the chord first must not change its function
                        ctx.call(_ch.determine, list(ch))
                    st, a = ctx.call(P.determine, arg, kname, True)
                    ctx.check("function: numeral of a diatonic chord", st == "ok" and isinstance(a, list) and sh in a, w, sh, repr(a),
                              mechanism="determine-short")
                    st, b = ctx.call(P.determine, arg, kname)
                    ctx.check("function: function name of a diatonic chord", st == "ok" and isinstance(b, list) and lg in b, w, lg,
                              repr(b), mechanism="determine-long")
                    ctx.check("function: chord argument unchanged", arg == ch, w, ch, arg)
                    if st == "ok" and isinstance(a, list) and sh in a:
                        st, back = ctx.call(P.to_chords, sh, kname)
                        ctx.check("function: numeral-to-chord inverts chord-to-numeral", st == "ok" and back == [ch], w, [ch],
                                  repr(back), mechanism="inverse")
                    ctx.case(("function", kname, tuple(ch)), nontrivial=kname != "C")
            st, v = ctx.call(P.determine, [tri[0], sev[4]], kname, True)
            ctx.check("function: lists of chords map element-wise", st == "ok" and isinstance(v, list) and len(v) == 2
                      and "I" in v[0] and "V7" in v[1], {"key": kname}, [["I"], ["V7"]], repr(v), mechanism="determine-list")
        ctx.sample({"determine(['G','B','D','F'],'C',True)": P.determine(["G", "B", "D", "F"], "C", True)})
    elif kind == "parse":
        sufs = ["", "7"] + sorted(k for k in chords.chord_shorthand if k != "")
        n = 0
        for num in NUM:
            for p in range(-6, 7):
                for suf in sufs:
                    s = pre(p) + num + suf
                    st, t = ctx.call(P.parse_string, s)
                    ok = st == "ok" and tuple(t) == (num, p, suf)
                    ctx.check("roundtrip: parse gives (numeral, accidentals, suffix)", ok, {"string": s}, (num, p, suf), repr(t),
                              mechanism="parse")
                    if st == "ok":
                        st, back = ctx.call(P.tuple_to_string, t)
                        ctx.check("roundtrip: numeral strings survive parse followed by format", st == "ok" and back == s,
                                  {"string": s}, s, repr(back), mechanism="format-after-parse")
                    st, s2 = ctx.call(P.tuple_to_string, (num, p, suf))
                    if st == "ok":
                        st, t2 = ctx.call(P.parse_string, s2)
                        ctx.check("roundtrip: format followed by parse returns the tuple", st == "ok" and tuple(t2) == (num, p, suf),
                                  {"tuple": (num, p, suf)}, (num, p, suf), repr(t2), mechanism="parse-after-format")
                    ctx.case(("parse", s), nontrivial=bool(p or suf))
                    n += 1
            st, t = ctx.call(P.parse_string, num.lower() + "m7")
            ctx.check("roundtrip: lower-case numerals are read as the numeral", st == "ok" and tuple(t) == (num, 0, "m7"),
                      {"string": num.lower() + "m7"}, (num, 0, "m7"), repr(t), mechanism="parse-lower")
        ctx.note_exhaustive("7 numerals x prefixes -6..6 x every suffix", n)
        ctx.sample({"parse_string('bbIIIm7')": P.parse_string("bbIIIm7")})
    else:
        key = shard["key"]
        kn, tri, sev = degree_chords(key)
        sufs = ["", "7"] + sorted(k for k in chords.chord_shorthand if k != "")
        rng = ctx.rng("subst")

        def root_and_triad(num, p):
            i = NUM.index(num)
            return (kn[i][0], (T.pc(kn[i]) + p) % 12), shifted(tri[i], p)

        def judge_results(rule, s, num, p, res, w):
            (rl, rpc), otri = root_and_triad(num, p)
            roots = [rpc]
            for r in res:
                wf = wellformed(r)
                ctx.check("substitution: every result is a well-formed numeral", wf is not None, dict(w, result=r),
                          "prefix + I..VII + known suffix", repr(r), mechanism="illformed:" + rule)
                if wf is None:
                    continue
                st, ch = ctx.call(P.to_chords, r, key)
                ok = st == "ok" and isinstance(ch, list) and len(ch) == 1 and sig(ch[0]) is not None
                ctx.check("substitution: every result denotes exactly one chord", ok, dict(w, result=r), "one chord", repr(ch),
                          mechanism="nochord:" + rule)
                if not ok:
                    continue
                rr = T.pc(ch[0][0])
                roots.append(rr)
                if rule == "substitute_harmonic":
                    (_x, stri) = root_and_triad(wf[0], wf[1])
                    common = len(set(otri) & set(stri))
                    # (exactly two: a "substitute" sharing all three is the chord itself)
                    ctx.check("substitution: harmonic substitutes share two notes with the original triad", common == 2,
                              dict(w, result=r), ">= 2 common notes", {"original": otri, "substitute": stri}, mechanism="harmonic")
                elif rule == "substitute_minor_for_major":
                    ctx.check("substitution: minor-for-major roots lie a minor third above", (rr - rpc) % 12 == 3,
                              dict(w, result=r), 3, (rr - rpc) % 12, mechanism="minor-for-major")
                elif rule == "substitute_major_for_minor":
                    ctx.check("substitution: major-for-minor roots lie a major sixth above", (rr - rpc) % 12 == 9,
                              dict(w, result=r), 9, (rr - rpc) % 12, mechanism="major-for-minor")
            if rule == "substitute_diminished_for_diminished" and len(roots) > 1:
                steps = [(roots[i + 1] - roots[i]) % 12 for i in range(len(roots) - 1)]
                ctx.check("substitution: diminished substitutes cycle by minor thirds", all(x == 3 for x in steps), w,
                          [3] * len(steps), steps, mechanism="dim-cycle")

        def judge_substitute(s, res, depth, w):
            # the substitutes of `substitute`, recursion included, against the pitch-class model (written prefixes are free,
            # what a numeral denotes is not)
            d0 = denote(s)
            got = [denote(r) for r in res]
            if d0 is None or any(g is None for g in got):
                return      # ill-formed results are reported by judge_results
            exp = substitute_model(d0[0], d0[1], d0[2], depth)
            ok = sorted(got) == sorted(exp)
            detail = None
            if not ok:
                detail = {"missing": [x for x in exp if x not in got][:4], "unexpected": [x for x in got if x not in exp][:4],
                          "counts": [len(exp), len(got)]}
            ctx.check("substitution: substitute (with its recursion) returns the numerals its rules denote", ok, w, None, detail,
                      mechanism="substitute-model:depth%d" % depth)

        n = 0
        for num in NUM:
            for suf in sufs:
                for p in range(-3, 4):
                    s = pre(p) + num + suf
                    orig = [s, "IV", "V"]
                    for rule in RULES:
                        f = getattr(P, rule)
                        for ign in (False, True):
                            arg = list(orig)
                            w = {"rule": rule, "progression": orig, "index": 0, "ignore_suffix": ign, "key": key}
                            st, res = ctx.call(f, arg, 0, ign)
                            ok = st == "ok" and isinstance(res, list)
                            ctx.check("substitution: rule returns a list", ok, w, "list", repr(res), mechanism="raise:" + rule)
                            ctx.check("substitution: the caller's progression is unchanged", arg == orig, w, orig, arg,
                                      mechanism="mutated:" + rule)
                            if ok:
                                judge_results(rule, s, num, p, res, w)
                            ctx.case((rule, key, s, ign), nontrivial=True)
                            n += 1
                    for depth in (0, 1):
                        if depth == 1 and suf not in ("", "7", "m", "M", "dim", "dim7", "m7", "M7"):
                            continue
                        arg = list(orig)
                        w = {"rule": "substitute", "progression": orig, "index": 0, "depth": depth, "key": key}
                        st, res = ctx.call(P.substitute, arg, 0, depth)
                        ok = st == "ok" and isinstance(res, list)
                        ctx.check("substitution: rule returns a list", ok, w, "list", repr(res), mechanism="raise:substitute")
                        ctx.check("substitution: the caller's progression is unchanged", arg == orig, w, orig, arg,
                                  mechanism="mutated:substitute")
                        if ok:
                            judge_results("substitute", s, num, p, res, w)
                            judge_substitute(s, res, depth, w)
                        ctx.case(("substitute", key, s, depth), nontrivial=True)
                        n += 1
        for i in range(shard["depth2"]):
            s = pre(rng.randint(-3, 3)) + rng.choice(NUM) + rng.choice(["", "7", "m", "M", "dim", "dim7", "m7", "M7"])
            idx = rng.randrange(3)
            orig = ["I", "IV", "V"]
            orig[idx] = s
            arg = list(orig)
            w = {"rule": "substitute", "progression": orig, "index": idx, "depth": 2, "key": key}
            st, res = ctx.call(P.substitute, arg, idx, 2)
            ok = st == "ok" and isinstance(res, list)
            ctx.check("substitution: rule returns a list", ok, w, "list", repr(res), mechanism="raise:substitute")
            ctx.check("substitution: the caller's progression is unchanged", arg == orig, w, orig, arg, mechanism="mutated:substitute")
            if ok:
                wfp = wellformed(s)
                judge_results("substitute", s, wfp[0], wfp[1], res, w)
                judge_substitute(s, res, 2, w)
            ctx.case(("substitute2", key, tuple(orig), idx))
        # negative indices address the progression from its end
        for s in ("I", "V7", "IIm", "VIIdim7", "bIIIM"):
            for depth in (0, 1):
                prog = ["IV", "I", s]
                st, r1 = ctx.call(P.substitute, list(prog), -1, depth)
                st2, r2 = ctx.call(P.substitute, list(prog), 2, depth)
                ctx.check("substitution: a negative index gives the same substitutes as the equivalent non-negative one",
                          st == "ok" and st2 == "ok" and r1 == r2, {"progression": prog, "depth": depth}, r2 if st2 == "ok" else None,
                          {"count": len(r1)} if st == "ok" and isinstance(r1, list) else repr(r1), mechanism="negative-index")
        ctx.note_exhaustive("5 rules x ignore_suffix + substitute depth 0/1, x 7 numerals x suffixes x prefixes -3..3 in key " + key, n)
        ctx.sample({"substitute(['I','IV','V','I'],0)": P.substitute(["I", "IV", "V", "I"], 0),
                    "substitute_minor_for_major(['Vm'],0)": P.substitute_minor_for_major(["Vm"], 0)})
