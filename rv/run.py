"""Driver: ./check Cxx [--tier quick|thorough] [--seed N] [--replay file] [--jobs N]

Splits the property's workload into shards, runs each in a fresh interpreter against /repo's
current working tree (or $VERIF_REPO), merges what the monitors observed, decides the three-valued
verdict and writes evidence/Cxx.json.

exit 0 held (KNOWN-FINDING lines allowed) | 1 violated (VIOLATION lines) | 2 inconclusive
"""
import argparse
import array
import concurrent.futures
import hashlib
import json
import os
import shutil
import subprocess
import sys
import tempfile
import time

ROOT = os.path.dirname(os.path.dirname(os.path.abspath(__file__)))
sys.path.insert(0, ROOT)
from rv import known  # noqa: E402

PY = sys.executable
DEPS = os.path.join(ROOT, ".deps")
WHEELS = "/opt/veriftools/wheels"


def ensure_deps():
    """icontract beside the repository's interpreter (MANIFEST.setup_cmd does the same). Two checks started at the same moment in
    a fresh checkout must not install into the same directory at once: the installation is serialised with a file lock."""
    if os.path.isdir(os.path.join(DEPS, "icontract")) and os.path.isdir(os.path.join(DEPS, "asttokens")):
        return None
    import fcntl
    try:
        lock = open(os.path.join(ROOT, ".deps.lock"), "w")
    except OSError:
        lock = None
    try:
        if lock is not None:
            fcntl.flock(lock, fcntl.LOCK_EX)
        if os.path.isdir(os.path.join(DEPS, "icontract")) and os.path.isdir(os.path.join(DEPS, "asttokens")):
            return None
        cmd = [PY, "-m", "pip", "install", "--quiet", "--no-index", "--find-links", WHEELS,
               "--target", DEPS, "--upgrade", "icontract"]
        p = subprocess.run(cmd, stdout=subprocess.PIPE, stderr=subprocess.STDOUT, text=True)
        if p.returncode != 0 or not os.path.isdir(os.path.join(DEPS, "icontract")):
            return "cannot install icontract offline: " + p.stdout[-400:]
        return None
    finally:
        if lock is not None:
            lock.close()


def shard_env(repo):
    env = dict(os.environ)
    env["PYTHONDONTWRITEBYTECODE"] = "1"
    env["PYTHONHASHSEED"] = "0"
    env["MINGUS_VERIF"] = "1"
    env["PYTHONPATH"] = os.pathsep.join([repo, ROOT, DEPS])
    env.pop("PYTHONSTARTUP", None)
    return env


def run_proc(args, env, timeout, cwd):
    try:
        p = subprocess.run(args, env=env, cwd=cwd, timeout=timeout, stdout=subprocess.PIPE,
                           stderr=subprocess.STDOUT, text=True, errors="replace")
        return p.returncode, p.stdout
    except subprocess.TimeoutExpired as e:
        return "timeout", (e.stdout or b"")[-500:] if isinstance(e.stdout, bytes) else str(e.stdout)[-500:]


def main():
    ap = argparse.ArgumentParser()
    ap.add_argument("prop")
    ap.add_argument("--tier", default=os.environ.get("VERIF_TIER", "quick"), choices=["quick", "thorough"])
    ap.add_argument("--seed", type=int, default=int(os.environ.get("VERIF_SEED", "0") or 0))
    ap.add_argument("--replay", default=None)
    ap.add_argument("--jobs", type=int, default=int(os.environ.get("VERIF_JOBS", "16")))
    ap.add_argument("--only", default=None, help="run only shards whose name contains this text")
    ap.add_argument("--no-evidence", action="store_true")
    a = ap.parse_args()
    prop = a.prop.upper()
    repo = os.path.realpath(os.environ.get("VERIF_REPO", "/repo"))
    t0 = time.time()
    inconclusive = []

    err = ensure_deps()
    if err:
        return finish(prop, a, t0, None, [], [err], {}, repo)

    work = tempfile.mkdtemp(prefix="rv-%s-" % prop)
    try:
        env = shard_env(repo)
        shard_py = os.path.join(ROOT, "rv", "shard.py")
        base = [PY, "-B", shard_py, ROOT, repo, prop]

        if a.replay:
            rp = json.load(open(a.replay))
            a.tier, a.seed = rp.get("tier", a.tier), rp.get("seed", a.seed)
            shards = [rp["shard"]]
            meta = {"rule": "replay of %s" % a.replay, "anchors": [], "required_reach": [],
                    "required_clauses": []}
        else:
            out = os.path.join(work, "list.json")
            rc, txt = run_proc(base + ["list", a.tier, str(a.seed), out], env, 120, work)
            lst = json.load(open(out)) if os.path.exists(out) else {"ok": False}
            if not lst.get("ok"):
                inconclusive.extend(lst.get("inconclusive") or ["cannot enumerate shards: %s" % str(txt)[-800:]])
                return finish(prop, a, t0, None, [], inconclusive, {}, repo)
            shards, meta = lst["shards"], lst["meta"]
            if a.only:
                shards = [s for s in shards if a.only in s.get("name", "")]

        timeout = 900 if a.tier == "quick" else 7200

        def one(i_s):
            i, s = i_s
            sf = os.path.join(work, "s%d.json" % i)
            of = os.path.join(work, "o%d.json" % i)
            json.dump(s, open(sf, "w"))
            rc, txt = run_proc(base + ["run", a.tier, str(a.seed), of, sf], env, s.get("timeout", timeout), work)
            if not os.path.exists(of):
                return s, {"ok": False, "inconclusive": ["shard %s: %s: %s" % (s.get("name"), rc, str(txt)[-600:])]}, None, None
            r = json.load(open(of))
            hs, ss = array.array("Q"), array.array("Q")
            for arr, suffix in ((hs, ".hashes"), (ss, ".states")):
                p = of + suffix
                if os.path.exists(p):
                    with open(p, "rb") as f:
                        arr.frombytes(f.read())
            if txt and txt.strip() and not r.get("ok"):
                r.setdefault("inconclusive", []).append("output: " + txt[-300:])
            for f in (sf, of, of + ".hashes", of + ".states"):
                if os.path.exists(f):
                    os.remove(f)
            return s, r, hs, ss

        # longest first
        order = sorted(enumerate(shards), key=lambda x: -x[1].get("weight", 1))
        merged = {"evaluations": 0, "hashes": set(), "states": set(), "counters": {}, "violations": [],
                  "vio_total": 0, "samples": [], "reach": {}, "lines": {}, "exhaustive": {}, "attached": [],
                  "extra": {}, "shards": [], "rule": meta["rule"]}
        with concurrent.futures.ThreadPoolExecutor(max_workers=max(1, a.jobs)) as ex:
            for s, r, hs, ss in ex.map(one, order):
                if not r.get("ok"):
                    inconclusive.extend(r.get("inconclusive") or ["shard %s failed" % s.get("name")])
                    continue
                inconclusive.extend(r.get("inconclusive", []))
                merged["evaluations"] += r["evaluations"]
                merged["hashes"].update(hs)
                merged["states"].update(ss)
                for k, v in r["counters"].items():
                    merged["counters"][k] = merged["counters"].get(k, 0) + v
                for k, v in r.get("reach", {}).items():
                    merged["reach"][k] = merged["reach"].get(k, 0) + v
                for k, v in r.get("lines", {}).items():
                    merged["lines"].setdefault(k, set()).update(v)
                merged["violations"].extend(r["violations"])
                merged["vio_total"] += r["vio_total"]
                if len(merged["samples"]) < 12:
                    merged["samples"].extend(r["samples"][:3])
                merged["exhaustive"].update(r.get("exhaustive", {}))
                for k, v in r.get("extra", {}).items():
                    if isinstance(v, (int, float)) and not isinstance(v, bool):
                        merged["extra"][k] = merged["extra"].get(k, 0) + v
                    else:
                        merged["extra"][k] = v
                if not merged["attached"]:
                    merged["attached"] = r.get("attached", [])
                merged["shards"].append({"name": s.get("name"), "evaluations": r["evaluations"],
                                         "wall_s": round(r.get("wall_s", 0), 2)})
        if not a.replay and not a.only:
            for need in meta.get("required_reach", []):
                if not any(k.endswith(need) and v > 0 for k, v in merged["reach"].items()):
                    inconclusive.append("anchored mechanism never entered: " + need)
            for need in meta.get("required_clauses", []):
                if not any(k.startswith(need) and v > 0 for k, v in merged["counters"].items()):
                    inconclusive.append("monitor never evaluated: " + need)
            if merged["evaluations"] == 0:
                inconclusive.append("no case was executed")
        merged["line_coverage"] = line_coverage(repo, meta.get("anchors", []), merged["lines"])
        return finish(prop, a, t0, merged, merged["violations"], inconclusive, meta, repo)
    finally:
        shutil.rmtree(work, ignore_errors=True)


def line_coverage(repo, anchors, seen):
    """Per anchored file: function-body lines executed by this run / all of them, and the functions holding lines that
    never ran (what the run says nothing about)."""
    sys.path.insert(0, ROOT)
    from rv import lines as L
    out = {}
    for rel in anchors:
        short = rel.split("mingus/", 1)[-1]
        fl = L.function_lines(os.path.join(repo, rel))
        if not fl:
            continue
        got = set(seen.get(short, ())) & set(fl)
        missing = {}
        for l in sorted(set(fl) - got):
            missing.setdefault(fl[l], []).append(l)
        out[short] = {"function_lines": len(fl), "executed": len(got),
                      "never_executed": dict((k, v if len(v) <= 12 else v[:12] + ["+%d more" % (len(v) - 12)]) for k, v in sorted(missing.items()))}
    return out


def finish(prop, a, t0, merged, violations, inconclusive, meta, repo):
    listed_all, _fixed = known.load(ROOT)
    listed = listed_all.get(prop, [])
    known_seen, fresh = {}, []
    for v in violations:
        kid = known.classify(v, listed)
        if kid:
            known_seen.setdefault(kid, []).append(v)
        else:
            fresh.append(v)
    # one VIOLATION line per distinct (clause, mechanism)
    seen, uniq = set(), []
    for v in fresh:
        k = (v["clause"], v.get("mechanism"))
        if k not in seen:
            seen.add(k)
            uniq.append(v)
    lines = []
    os.makedirs(os.path.join(ROOT, "replays"), exist_ok=True)
    for v in uniq:
        dig = hashlib.blake2b(json.dumps([v["clause"], v.get("mechanism"), v["witness"]], sort_keys=True,
                                         default=str).encode(), digest_size=6).hexdigest()
        path = os.path.join(ROOT, "replays", "%s-%s.json" % (prop, dig))
        if not a.replay:
            json.dump(v, open(path, "w"), indent=1, default=str)
        else:
            path = os.path.abspath(a.replay)
        lines.append("VIOLATION property=%s replay=%s" % (prop, path))
    text = dict(listed)
    for kid, vs in sorted(known_seen.items()):
        print("KNOWN-FINDING: property=%s %s [%s; %d observation(s), e.g. %s]" % (
            prop, text.get(kid, kid), kid, sum(x.get("count", 1) for x in vs),
            json.dumps(vs[0]["witness"], default=str)[:160]))
    wall = time.time() - t0
    if merged is not None:
        print("%s %s seed=%d: %d cases, %d distinct non-trivial, %d distinct states, %d shards, %.1fs" % (
            prop, a.tier, a.seed, merged["evaluations"], len(merged["hashes"]), len(merged["states"]),
            len(merged["shards"]), wall))
        for k in sorted(merged["counters"]):
            print("   monitor %-70s %9d evaluations" % (k[:70], merged["counters"][k]))
        for k, v in sorted(merged.get("line_coverage", {}).items()):
            print("   lines   %-40s %4d of %4d function-body lines executed; functions with lines never executed: %d" % (
                k, v["executed"], v["function_lines"], len(v["never_executed"])))
    for v in uniq:
        print("   violated clause: %s | mechanism: %s | x%d" % (v["clause"], v.get("mechanism"), v.get("count", 1)))
        print("      witness : %s" % json.dumps(v["witness"], default=str)[:600])
        print("      expected: %s" % json.dumps(v.get("expected"), default=str)[:300])
        print("      observed: %s" % json.dumps(v.get("observed"), default=str)[:300])
    for ln in lines:
        print(ln)
    for r in inconclusive[:10]:
        print("INCONCLUSIVE property=%s reason=%s" % (prop, str(r).replace("\n", " ")[:700]))
    if merged is not None and not a.no_evidence and not a.replay and not a.only:
        write_evidence(prop, a, merged, uniq, known_seen, inconclusive, wall, repo)
    if lines:
        verdict, code = "violated", 1
    elif inconclusive:
        verdict, code = "inconclusive", 2
    else:
        verdict, code = "held on everything observed", 0
    print("VERDICT %s: %s" % (prop, verdict))
    sys.stdout.flush()
    return code


def write_evidence(prop, a, m, uniq, known_seen, inconclusive, wall, repo):
    os.makedirs(os.path.join(ROOT, "evidence"), exist_ok=True)
    try:
        head = subprocess.run(["git", "-C", repo, "rev-parse", "HEAD"], stdout=subprocess.PIPE,
                              stderr=subprocess.DEVNULL, text=True).stdout.strip()
        dirty = bool(subprocess.run(["git", "-C", repo, "status", "--porcelain", "--untracked-files=no"],
                                    stdout=subprocess.PIPE, stderr=subprocess.DEVNULL, text=True).stdout.strip())
    except Exception:
        head, dirty = "", False
    reach = dict(sorted(m["reach"].items(), key=lambda kv: -kv[1])[:80])
    ev = {
        "property_id": prop,
        "tier": a.tier,
        "seed": a.seed,
        "level": "exploration",
        "coverage": {
            "evaluations": m["evaluations"],
            "distinct_nontrivial": len(m["hashes"]),
            "rule": m["rule"],
            "samples": m["samples"][:12],
            "distinct_states": len(m["states"]),
            "contract_evaluations": m["counters"],
            "reach": reach,
            "functions_reached": len(m["reach"]),
            "line_coverage_of_anchored_files": m.get("line_coverage", {}),
            "exhaustive_subspaces": m["exhaustive"],
            "exhaustive": False,
            "monitors_attached": m["attached"],
            "shards": m["shards"],
            "known_findings_seen": dict((k, sum(x.get("count", 1) for x in v)) for k, v in known_seen.items()),
            "violations": [{"clause": v["clause"], "mechanism": v.get("mechanism"), "witness": v["witness"],
                            "count": v.get("count", 1)} for v in uniq],
            "inconclusive_reasons": inconclusive,
            "extra": m["extra"],
            "repo": {"path": repo, "head": head, "dirty": dirty},
        },
        "assumptions": [
            "verdict covers only the executions produced by this run (runtime monitoring, not proof)",
            "the reference models/readers under rv/models and CPython 3.12 + icontract are trusted",
        ],
        "wall_s": round(wall, 2),
        "violations": len(uniq),
    }
    path = os.path.join(ROOT, "evidence", "%s.json" % prop)
    tmp = path + ".tmp"
    json.dump(ev, open(tmp, "w"), indent=1, default=str)
    os.replace(tmp, path)


if __name__ == "__main__":
    sys.exit(main())
