"""Run part of the repository's own test suite inside this interpreter while the monitors are
attached in record mode: a realistic extra workload, and a regression test that the monitors do not
object to legitimate usage. Test outcomes themselves are not judged here."""
import io
import os
import contextlib


def run(ctx, tests):
    import mingus
    import pytest
    repo = os.path.dirname(os.path.dirname(os.path.abspath(mingus.__file__)))
    cwd = os.getcwd()
    os.chdir(repo)

    class Plugin(object):
        def __init__(self):
            self.passed = 0
            self.failed = 0

        def pytest_runtest_logreport(self, report):
            if report.when == "call":
                ctx.case(("repo-test", report.nodeid))
                if report.passed:
                    self.passed += 1
                elif report.failed:
                    self.failed += 1

    p = Plugin()
    buf = io.StringIO()
    try:
        with contextlib.redirect_stdout(buf), contextlib.redirect_stderr(buf):
            pytest.main(["-q", "-p", "no:cacheprovider", "--no-header", "-o", "addopts="] + list(tests), plugins=[p])
    finally:
        os.chdir(cwd)
    ctx.extra["repo_tests_passed_under_monitors"] = p.passed
    ctx.extra["repo_tests_failed_under_monitors"] = p.failed
    ctx.sample({"repo tests run under record-mode monitors": list(tests), "passed": p.passed, "failed": p.failed})
    if p.passed == 0:
        ctx.unsure("no repository test ran under the monitors")
