"""Regenerate /verif/MANIFEST.json from the table below (python3 rv/mkmanifest.py)."""
import json
import os

ROOT = os.path.dirname(os.path.dirname(os.path.abspath(__file__)))

BASE = ("cd /repo && /venv/bin/python -m pytest -ra -q -p no:cacheprovider --timeout=900 "
        "--continue-on-collection-errors tests")

# id -> (technique, level text, level note, design ref)
CHECKS = {
    "C01": ("runtime contracts (icontract) on notes.* + exhaustive bounded sweep judged by a spelled-pitch model",
            "Exploration: every name with <= 10 (quick) / <= 15 (thorough) accidentals in every order, all pairs of pure names up to 13 accidentals for the enharmonic clause, hostile "
            "strings by class, integers and styles are executed against the real functions; postconditions "
            "attached to the real functions observe every internal call as well. Exhaustive inside the bound, "
            "sampled beyond (accidental strings up to 2000 long).",
            "trusted: rv/models/theory.py (3 tables), CPython 3.12, icontract 2.7.3", "4 C01"),
    "C02": ("runtime contracts on the 17 interval constructors + measure, exhaustive bounded sweep judged by the model",
            "Exploration: 17 constructors x every name with <= 5 (quick) / <= 9 (thorough) accidentals in every order plus "
            "pure names up to 40 accidentals; all ordered pairs of names with <= 4 / <= 6 accidentals for measure and the "
            "consonance predicates with both flag values. The letter/distance contracts stay attached in every other check.",
            "trusted: interval table (number, semitones) in rv/models/theory.py", "4 C02"),
    "C03": ("recorded calls of determine/from_shorthand/invert compared with an independent interval-name model",
            "Exploration: all ordered pairs of pure names up to triple (quick) / quintuple (thorough) accidentals whose "
            "letter distance is 0..11, both forms, inverse application; names x shorthands x up/down with the "
            "up-then-down identity; random interval lists for invert (result and argument integrity).",
            "trusted: rv/models/theory.py interval_name / shorthand_apply", "4 C03"),
    "C04": ("contracts on keys.get_notes + exhaustive sweep of keys, integers and candidate strings against a circle-of-fifths model",
            "Exploration, exhaustive inside the stated bounds: all 30 keys (every clause, cold/warm/interleaved), integers "
            "-40..40 and powers of two, every string of length <= 3 (quick) / <= 4 (thorough) over 'A-G a-g # b' as a candidate "
            "key through six entry points, 30 keys x note spellings (<= 3 / <= 5 accidentals in every order) x 6 diatonic steps, and the same queries after a caller edited the lists it was given (cold and warm). Selected shards of C02-C08 are run a second time after ~560 unrelated read-only calls (after-history pass).",
            "trusted: line-of-fifths key model in rv/models/theory.py", "4 C04"),
    "C05": ("scale objects driven over all classes/tonics/octaves/degrees with structural oracles; recognition vs brute-force spec",
            "Exploration: 18 scale classes x tonics valid for the class (<= 2 / <= 3 accidentals) x octaves 1..3 / 1..6 x every "
            "degree in both directions; equality over pairs of scale objects; 2 000 / 60 000 note sets for recognition "
            "compared with a brute-force specification built from the model's step patterns.",
            "trusted: step-pattern table and spell_scale in rv/models/theory.py", "4 C05"),
    "C06": ("contracts on chord builders + sweep of the live shorthand table against an independent chord-formula table",
            "Exploration: every key of the live chord_shorthand table x roots (pure <= 3; thorough: every order <= 3 and pure <= 6), "
            "named builders, alias spellings, slash basses, polychord pairs, lists, NC, three classes of malformed strings, "
            "key-set equality of the two tables and same-meaning => same-chord.",
            "trusted: rv/models/chordtab.py (formula per shorthand, following the library's documented meaning text)", "4 C06"),
    "C07": ("recorded determine() answers in both forms checked by reconstruction through from_shorthand",
            "Exploration: every shorthand with >= 3 notes x 21 (quick) / 35 (thorough) roots x every rotation x both forms x flag "
            "combinations; all 9 261 three-note inputs; 0/1/2-note inputs; 3 000 / 60 000 structured 4-7 note inputs and "
            "(thorough) 5 000 8-14 note inputs for no-raise / same-length / constructible-name clauses.",
            "trusted: chord formula table, the library's own from_shorthand as the reconstruction step (itself decided by C06)", "4 C07"),
    "C08": ("recorded calls of the harmony API compared with stacked-thirds model; argument-integrity monitor (M-args)",
            "Exploration: 30 keys x 7 degrees x triad/seventh x function names, numeral aliases, numeral strings in both cases, "
            "prefixes -3..3, every suffix; harmonic-function lookup and its inverse in 15 major keys; parse/format on 7 x 13 x all "
            "suffixes; five substitution rules + substitute(depth 0,1; thorough: 2) on every numeral x suffix x prefix in 3 / 15 "
            "major keys with per-rule semantic oracles and caller-list integrity.",
            "trusted: key model + chord formula table", "4 C08"),
    "C09": ("sys.monitoring LINE step-budget watchdog on meter predicates + value sweeps against exact rational arithmetic",
            "Exploration with bounded-progress restatement of termination: every meter predicate call runs under a 20 000 "
            "line-event budget (2^1023 needs 3 074); units over integers -64..4096, 2^k up to 2^1023, floats, fractions, "
            "non-finite values; counts -10..60; value analysis on 80 constructed values and the +-1% neighbourhood at step "
            "0.0005 / 0.0001; add/subtract on 3 000 / 20 000 pairs; 3 000 / 20 000 random units.",
            "trusted: fractions.Fraction, sys.monitoring; 'terminates' is decided only as 'returns within the step budget'", "4 C09"),
    "C10": ("Note objects driven over names/octaves/integers/pairs/Hz grid; oracles = integer model, independent Helmholtz writer",
            "Exploration: pure names <= 2 / <= 4 accidentals x octaves 0..9 (pitch, four text forms, Helmholtz both ways), integers "
            "0..127+, all ordered pairs of 175 / 1 050 notes x 6 operators, 128 notes x 15 / 201 standard pitches x detuning grid "
            "-40..40 cents (step 5 / 1), velocity/channel bounds through five entry points, malformed names, copy independence.",
            "trusted: integer pitch model, math.pow for the Hz expectation", "4 C10"),
    "C11": ("Note.transpose and container/bar/track transposition driven and compared entry by entry with deep snapshots and an integer pitch model",
            "Exploration: names (<= 6 / <= 9 accidentals for the pitch, letter and restore-pitch clauses; <= 3 for the exact-name "
            "restore identity) x octaves {0,1,4,8} / 0..9 x shorthands of size 0..11 x up/down; 1 600 / 8 000 random tracks (some with containers built from other containers) x 1-5 transposition / augment / diminish steps at track, bar or container "
            "level (accidental growth bounded so the documented +-6 re-spelling cannot intervene); octave changes around 0.",
            "trusted: integer pitch model; snapshots taken through public attributes", "4 C11"),
    "C12": ("recorded operation histories checked offline against a pitch-set model; OLD-guarded sortedness contract (M-sorted) on the add/remove family",
            "Exploration: every operation sequence of length <= 3 (quick; 10 648 + shorter) / <= 4 (thorough; 234 256) over a 22-operation "
            "alphabet with enharmonic names and three octaves, 3 000 / 150 000 random histories of up to 40 operations over 16 names "
            "(content after every operation, queries sampled), constructors from every chord shorthand x root, 35 names x interval "
            "shorthands x up/down, numerals x 30 keys. Thorough also runs the repository's container tests under the monitors (record mode).",
            "trusted: 25-line SetModel (rv/models/containers.py)", "4 C12"),
    "C13": ("recorded placement histories checked after every operation against an exact rational bar model; M-bar contract; step watchdog on set_meter",
            "Exploration: every sequence of length <= 2 over 122 operations (60 values x place/rest, '+', remove-last) in 4 meters (quick) / "
            "length <= 3 over 50 operations (thorough), every value repeated to capacity in 10 meters, 2 000 / 20 000 mixed fills that end "
            "exactly at capacity, 2 000 / 100 000 random histories of up to 60 / 300 operations incl. bar[i]=x and place_notes_at, meters "
            "over integers/floats/non-finite units for set_meter.",
            "trusted: fractions.Fraction BarModel; float tolerance 1e-9 only for reported positions, decisions are judged exactly", "4 C13"),
    "C14": ("recorded track/composition histories checked after every step against a model track of exact rational bars",
            "Exploration: 6 400 / 100 000 random add histories over 5 instrument choices, keys, meters incl. (0,0), rests, in- and out-of-range notes in "
            "four argument forms; every sequence of length <= 3 / <= 4 over 12 operations in 4/4 and 3/4; 500 / 20 000 nested chord lists "
            "for from_chords; instrument range boundaries; 150 / 3 000 composition scripts incl. equality of rebuilt compositions.",
            "trusted: TrackModel/BarModel; the rule that a bar may be opened before a refused placement (DESIGN 5.6)", "4 C14"),
    "C15": ("fresh-interpreter (forked) cold-vs-warm comparison of a 900-query battery after random call histories; per-result poison trials; "
            "sibling-instance snapshots; argument-integrity wrapper (M-args)",
            "Exploration: 60 / 600 random histories of 200-2 000 calls each started from a cold forked interpreter, battery answers compared "
            "with a cold interpreter's; 150 / all (~500) poison trials, one forked interpreter each; 19 public classes under operation "
            "scripts on sibling instances (object state, class-level mutables, fresh instance); copies and constructor arguments; "
            "2 000 / 100 000 frequency-lookup histories concentrated at the top of the table.",
            "trusted: os.fork as the source of cold interpreter states; canonical repr of answers", "4 C15"),
    "C16": ("bytes written by the five write_* functions decoded by an independent Standard MIDI File reader and compared with a tick timeline model",
            "Exploration: 4 000 / 60 000 random notes/containers/bars/tracks/compositions (30 keys, 8 meters, rounding and integral tick "
            "lengths, rests everywhere incl. empty containers, channels 0-15, velocity 0 class, MIDI instruments and plain instruments carrying instrument_nr, names up to 300 characters, repeat 0-2), systematic 30 keys x 12 meters, "
            "every value x 6 rest patterns x bar/track x repeat, bpm grid; VLQ encoder on [0, 70 000) / all of [0, 2^21) + boundaries + "
            "random up to 2^28.",
            "trusted: rv/models/smf.py (strict structure, permissive content), rv/models/midimodel.py timeline", "4 C16"),
    "C17": ("write_Composition -> MIDI_to_Composition round trip compared as merged (ticks, pitch set) sequences; corrupted-file fault injection",
            "Exploration: 2 400 / 40 000 random compositions restricted to whole-tick values and velocity >= 1; every bpm 4..1000 (+ sample "
            "to 7 000); 30 keys x 8 meters; VLQ writer->reader on [0, 40 000) / all of [0, 2^21) + boundaries + random; files that are not "
            "MIDI made by editing valid files: every value of every header/track tag byte, format words 3..300 and 2^k, truncations 0..13, "
            "empty file (300 sampled / all ~10^4).",
            "trusted: the sequence-merging rule stated in the property; smf.py to confirm the base files are valid before corruption", "4 C17"),
    "C18": ("hook events of a recording Sequencer subclass and a recording observer checked offline against a per-voice interval model in virtual time",
            "Exploration: 6 400 / 80 000 playbacks (note, container, bar, track, parallel bars/tracks/compositions with 1-4 tracks, equal and "
            "unequal rhythms, tuplets, rests, tempo-carrying containers), control-change grid around the bounds, attach/detach scripts; the "
            "two former findings of play_Bars (unequal rhythms, float tick drift) are replayed as fixed regression inputs in every run.",
            "trusted: interval model (rv/props/c18.py model_parallel); virtual time = running sum of sleep arguments", "4 C18"),
    "C19": ("LilyPond and MusicXML text decoded by independent readers (own tokenizer/parser; xml.etree) and compared with the written specification",
            "Exploration: 8 000 / 100 000 random notes, containers, bars, tracks, compositions (names to double accidentals, octaves 0-8, 30 "
            "keys, 7 meters incl. (0,0), dots to 3, three tuplets, longa/breve, chords 1-5, rests, empty bars, markup characters in "
            "texts) + systematic every value x rest/note/chord, 30 keys x 7 meters x empty/non-empty, every name x octave.",
            "trusted: rv/models/ly.py, rv/models/mxml.py", "4 C19"),
    "C20": ("fret arithmetic swept over all tunings; fingerings vs brute-force specification; tablature text decoded column by column",
            "Exploration: 76 tunings x strings x notes 0..127 x maxfret {0,12,24}, get_Note ranges, tuning lookups over prefixes x string x "
            "course constraints, 4 000 / 40 000 note sets vs brute force, 1 680 / ~10 000 chord-fingering searches judged per result, "
            "4 800 / 60 000 tablature renders (note, container, bar, track, composition; widths 30-200; non-course tunings) decoded by "
            "an independent reader; renders where an entry has no spare column are skipped and counted.",
            "trusted: brute-force enumeration, rv/models/tab.py; domain rule read off the rendered beat markers", "4 C20"),
}

PENDING = {}


COMMON = (" Every shard starts after ~95 calls the library must refuse; every third call hands its optional arguments over by "
          "their documented keyword.")
MORE = {
    "C01": " A pool of 41 format / regex / line-break strings, names of 1 100-6 600 accidentals (beyond the shards' recursion limit) and str-subclass instances go through every clause.",
    "C02": " Names of 1 100-3 600 accidentals (pure and mixed) and str-subclass instances go through the constructors, measure and the predicates; 131 071 distinct names in one process.",
    "C04": " The 41 hostile strings go through the six entry points; integers up to the interpreter's 4 300-digit limit.",
    "C06": " Slash basses inside polychord halves; the 41 hostile strings and dash-between-digits tails on valid chords and in place of the root.",
    "C08": " substitute at depth 0/1 (sampled 2) is compared with a pitch-class model of its rules; progressions repeat degrees.",
    "C10": " One Note object driven through every setter (methods and public attributes) with queries in between (reuse shards).",
    "C11": " Notes renamed in place between steps, instruments attached, octaves up to 10^20, names to 6 / 9 accidentals.",
    "C12": " Histories hand the container its own list and itself, empty it, run constructors on used containers, add notes on any channel; one 1 020-note container under the default recursion limit.",
    "C13": " Edge meters (count 0 or negative, bars and beats shorter than 1/1000) and completing entries through each placement path.",
    "C14": " Plain lists of names / Notes with an out-of-range note at any position; names that climb octaves; instrument ranges changed mid-history; assignment by index; odd pre-filled lengths for from_chords.",
    "C15": " Colliding argument pairs split between battery and histories; writer scripts compared with forked children; built siblings.",
    "C16": " 30 % of tracks / compositions are written, changed in place and written again; 20 % assembled by hand through MidiFile([track]); tempo-carrying containers and zero-tick values.",
    "C17": " 30 % of compositions are written, read, changed in place, written and read again; compositions without tracks or bars.",
    "C18": " 40 % of samples reuse the previous sequencer and observer; bars of unequal length (balance only); tempo on empty containers; bars without a meter; attach/detach histories on two sequencers.",
    "C19": " 40 % of tracks / compositions are exported, changed in place and exported again.",
    "C20": " Notes carrying string/fret hints; a track tuning other than the explicit one; twin tracks on other tunings; tracks rendered, extended and rendered again.",
}


def main():
    for k in CHECKS:
        tech, text, note, ref = CHECKS[k]
        CHECKS[k] = (tech, text + MORE.get(k, "") + COMMON, note, ref)
    props = [json.loads(l) for l in open(os.path.join(ROOT, "properties.jsonl"))]
    checks, na = [], []
    for p in props:
        pid = p["id"]
        if pid in CHECKS:
            tech, text, note, ref = CHECKS[pid]
            checks.append({
                "property_id": pid,
                "quick_cmd": "./check %s --tier quick" % pid,
                "thorough_cmd": "./check %s --tier thorough" % pid,
                "evidence_file": "/verif/evidence/%s.json" % pid,
                "replay_cmd_template": "./check %s --replay {path}" % pid,
                "engine": "rv",
                "level_claimed": {"category": "exploration", "text": text, "design_ref": "DESIGN.md section " + ref},
                "level_note": note,
                "technique": tech,
            })
        else:
            na.append({"property_id": pid, "reason": PENDING.get(
                pid, "runtime monitor designed (DESIGN.md section 4) but not yet implemented in this commit; "
                     "no claim is made until the check exists")})
    man = {
        "version": 1,
        "setup_cmd": "/venv/bin/pip install --quiet --no-index --find-links /opt/veriftools/wheels "
                     "--target /verif/.deps icontract",
        "hooks": {
            "guard": "MINGUS_VERIF",
            "enable": "no source hooks: every monitor is attached from outside by the harness (contracts rebound "
                      "onto the real functions, sys.monitoring); ./check sets MINGUS_VERIF=1 for its shard "
                      "processes, nothing in /repo reads it",
            "baseline_off_cmd": BASE,
            "source_commits": [],
            "add_only": True,
        },
        "engines": [{
            "name": "rv", "path": "/verif/rv",
            "serves_properties": [c["property_id"] for c in checks],
            "kind_free_text": "runtime monitoring: icontract contracts + sys.monitoring reach/step watchdog + "
                              "recorded histories checked offline against small executable models and "
                              "independent format readers; one fresh interpreter per shard",
        }],
        "checks": checks,
        "not_applicable": na,
        "notes": "Verdicts are three-valued: exit 0 held on what was observed (KNOWN-FINDING lines allowed), "
                 "exit 1 with VIOLATION lines, exit 2 INCONCLUSIVE (a monitor never evaluated, an anchored "
                 "function never entered, a shard crashed). VERIF_SEED / VERIF_TIER / VERIF_JOBS are honoured.",
    }
    json.dump(man, open(os.path.join(ROOT, "MANIFEST.json"), "w"), indent=1)
    print("MANIFEST.json: %d checks, %d not_applicable" % (len(checks), len(na)))


if __name__ == "__main__":
    main()
