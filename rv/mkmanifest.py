"""Regenerate /verif/MANIFEST.json from the table below (python3 rv/mkmanifest.py)."""
import json
import os

ROOT = os.path.dirname(os.path.dirname(os.path.abspath(__file__)))

BASE = ("cd /repo && /venv/bin/python -m pytest -ra -q -p no:cacheprovider --timeout=900 "
        "--continue-on-collection-errors tests")

# id -> (technique, level text, level note, design ref)
CHECKS = {
    "C01": ("runtime contracts (icontract) on notes.* + exhaustive bounded sweep judged by a spelled-pitch model",
            "Exploration: every name with <= 8 (quick) / <= 14 (thorough) accidentals in every order, hostile "
            "strings by class, integers and styles are executed against the real functions; postconditions "
            "attached to the real functions observe every internal call as well. Exhaustive inside the bound, "
            "sampled beyond (accidental strings up to 2000 long).",
            "trusted: rv/models/theory.py (3 tables), CPython 3.12, icontract 2.7.3", "4 C01"),
}

PENDING = {}


def main():
    props = [json.loads(l) for l in open(os.path.join(ROOT, "properties.jsonl"))]
    checks, na = [], []
    for p in props:
        pid = p["id"]
        if pid in CHECKS:
            tech, text, note, ref = CHECKS[pid]
            checks.append({
                "property_id": pid,
                "quick_cmd": "./check %s --tier quick" % pid,
                "thorough_cmd": "./check %s --tier thorough" % pid,
                "evidence_file": "/verif/evidence/%s.json" % pid,
                "replay_cmd_template": "./check %s --replay {path}" % pid,
                "engine": "rv",
                "level_claimed": {"category": "exploration", "text": text, "design_ref": "DESIGN.md section " + ref},
                "level_note": note,
                "technique": tech,
            })
        else:
            na.append({"property_id": pid, "reason": PENDING.get(
                pid, "runtime monitor designed (DESIGN.md section 4) but not yet implemented in this commit; "
                     "no claim is made until the check exists")})
    man = {
        "version": 1,
        "setup_cmd": "/venv/bin/pip install --quiet --no-index --find-links /opt/veriftools/wheels "
                     "--target /verif/.deps icontract",
        "hooks": {
            "guard": "MINGUS_VERIF",
            "enable": "no source hooks: every monitor is attached from outside by the harness (contracts rebound "
                      "onto the real functions, sys.monitoring); ./check sets MINGUS_VERIF=1 for its shard "
                      "processes, nothing in /repo reads it",
            "baseline_off_cmd": BASE,
            "source_commits": [],
            "add_only": True,
        },
        "engines": [{
            "name": "rv", "path": "/verif/rv",
            "serves_properties": [c["property_id"] for c in checks],
            "kind_free_text": "runtime monitoring: icontract contracts + sys.monitoring reach/step watchdog + "
                              "recorded histories checked offline against small executable models and "
                              "independent format readers; one fresh interpreter per shard",
        }],
        "checks": checks,
        "not_applicable": na,
        "notes": "Verdicts are three-valued: exit 0 held on what was observed (KNOWN-FINDING lines allowed), "
                 "exit 1 with VIOLATION lines, exit 2 INCONCLUSIVE (a monitor never evaluated, an anchored "
                 "function never entered, a shard crashed). VERIF_SEED / VERIF_TIER / VERIF_JOBS are honoured.",
    }
    json.dump(man, open(os.path.join(ROOT, "MANIFEST.json"), "w"), indent=1)
    print("MANIFEST.json: %d checks, %d not_applicable" % (len(checks), len(na)))


if __name__ == "__main__":
    main()
