import mingus, os; assert os.path.realpath(mingus.__file__).startswith(os.path.realpath(os.path.dirname(__file__)))
import random
import sys

from mingus.containers import Note, NoteContainer, Bar, Track
from mingus.core import intervals as core_intervals

LETTERS = "CDEFGAB"
BASE = {"C": 0, "D": 2, "E": 4, "F": 5, "G": 7, "A": 9, "B": 11}
MAJOR = {1: 0, 2: 2, 3: 4, 4: 5, 5: 7, 6: 9, 7: 11}
ACCS = ["bb", "b", "", "#", "##"]
NAMES = [l + a for l in LETTERS for a in ACCS]
SHORTHANDS = [a + str(n) for n in range(1, 8) for a in ACCS]  # 35
assert len(SHORTHANDS) == 35 and len(NAMES) == 35

failures = []


def fail(msg):
    failures.append(msg)
    if len(failures) > 20:
        report()


def report():
    for f in failures:
        print("FAIL:", f)
    print("property C11 violated (%d failures shown)" % len(failures))
    sys.exit(1)


def pitch(name, octave):
    return octave * 12 + BASE[name[0]] + name.count("#") - name.count("b")


def size(sh):
    return MAJOR[int(sh[-1])] + sh.count("#") - sh.count("b")


def aug(name):
    return name[:-1] if name.endswith("b") else name + "#"


def dim(name):
    return name[:-1] if name.endswith("#") else name + "b"


IN_RANGE = [s for s in SHORTHANDS if 0 <= size(s) <= 11]

# ---------------------------------------------------------------- notes
cases = 0
for name in NAMES:
    for octave in range(0, 9):
        for sh in IN_RANGE:
            semis = size(sh)
            steps = int(sh[-1]) - 1
            for up in (True, False):
                if not up and octave == 0:
                    # would need an octave below 0 for some inputs; skip
                    continue
                cases += 1
                n = Note(name, octave)
                before = pitch(name, octave)
                n.transpose(sh, up)
                want = before + semis if up else before - semis
                got = pitch(n.name, n.octave)
                if got != want or int(n) != want:
                    fail("%s-%d %s up=%s: pitch %r (int %r), wanted %d"
                         % (name, octave, sh, up, got, int(n), want))
                li = LETTERS.index(name[0])
                wl = LETTERS[(li + steps) % 7] if up else LETTERS[(li - steps) % 7]
                if n.name[0] != wl:
                    fail("%s-%d %s up=%s: letter %s, wanted %s" % (name, octave, sh, up, n.name, wl))
                # same name as the core function gives
                if n.name != core_intervals.from_shorthand(name, sh, up):
                    fail("%s %s up=%s: name differs from intervals.from_shorthand" % (name, sh, up))
                if up:
                    n.transpose(sh, False)
                    if (n.name, n.octave) != (name, octave):
                        fail("%s-%d up/down %s gives %s-%d" % (name, octave, sh, n.name, n.octave))

# default direction is up
n = Note("A", 4)
n.transpose("3")
if (n.name, n.octave) != ("C#", 5):
    fail("A-4 up 3 -> %r" % n)
n.transpose("3", False)
if (n.name, n.octave) != ("A", 4):
    fail("back down 3 -> %r" % n)

# change_octave never goes below 0
for start in range(0, 6):
    for diff in range(-9, 5):
        n = Note("E", start)
        n.change_octave(diff)
        if n.octave != max(0, start + diff):
            fail("change_octave(%d) from %d -> %d" % (diff, start, n.octave))
n = Note("D", 1)
n.octave_down(); n.octave_down(); n.octave_down()
if n.octave != 0:
    fail("octave_down below 0: %d" % n.octave)
n.octave_up()
if n.octave != 1:
    fail("octave_up: %d" % n.octave)

# note-level augment / diminish
for name in NAMES:
    n = Note(name, 4)
    n.augment()
    if (n.name, n.octave) != (aug(name), 4):
        fail("augment %s -> %r" % (name, n))
    n.diminish()
    if (n.name, n.octave) != (name, 4):
        fail("augment+diminish %s -> %r" % (name, n))

# ---------------------------------------------------------------- containers
rng = random.Random(11)
SIMPLE_NAMES = [l + a for l in LETTERS for a in ("b", "", "#")]


def random_track():
    t = Track()
    for _ in range(rng.randint(1, 4)):
        b = Bar("C", (4, 4))
        while not b.is_full():
            dur = rng.choice([1, 2, 4, 8, 8, 16])
            kind = rng.random()
            if kind < 0.25:
                ok = b.place_rest(dur)
            elif kind < 0.6:
                ok = b.place_notes(Note(rng.choice(SIMPLE_NAMES), rng.randint(2, 6)), dur)
            else:
                nc = NoteContainer()
                for _ in range(rng.randint(2, 4)):
                    nc.add_note(Note(rng.choice(SIMPLE_NAMES), rng.randint(2, 6)))
                ok = b.place_notes(nc, dur)
            if not ok:
                continue
        t.add_bar(b)
    return t


def snapshot(obj):
    """[(beat, duration, None | [(name, octave), ...]), ...] per bar."""
    if isinstance(obj, Track):
        return [snapshot(b) for b in obj.bars]
    if isinstance(obj, Bar):
        return [(e[0], e[1], None if e[2] is None else snapshot(e[2])) for e in obj.bar]
    return [(n.name, n.octave) for n in obj.notes]


def expect_note(op, no):
    name, octave = no
    if op[0] == "aug":
        return (aug(name), octave)
    if op[0] == "dim":
        return (dim(name), octave)
    ref = Note(name, octave)
    ref.transpose(op[1], op[2])
    want = pitch(name, octave) + (size(op[1]) if op[2] else -size(op[1]))
    if pitch(ref.name, ref.octave) != want:
        fail("reference transpose wrong for %s-%d %r" % (name, octave, op))
    return (ref.name, ref.octave)


def expect(op, snap):
    if isinstance(snap, list) and snap and isinstance(snap[0], list):
        return [expect(op, s) for s in snap]  # track
    if isinstance(snap, list) and snap and len(snap[0]) == 3:
        return [(b, d, None if c is None else [expect_note(op, x) for x in c]) for (b, d, c) in snap]
    return [expect_note(op, x) for x in snap]


def in_domain(snap):
    if isinstance(snap, tuple) and len(snap) == 2 and isinstance(snap[0], str):
        return snap[0] in NAMES and snap[1] >= 1
    if isinstance(snap, tuple):
        return snap[2] is None or in_domain(snap[2])
    return all(in_domain(x) for x in snap)


def apply(obj, op):
    if op[0] == "aug":
        obj.augment()
    elif op[0] == "dim":
        obj.diminish()
    else:
        if op[2] is True and rng.random() < 0.3:
            obj.transpose(op[1])
        else:
            obj.transpose(op[1], op[2])


def random_op():
    r = rng.random()
    if r < 0.15:
        return ("aug",)
    if r < 0.3:
        return ("dim",)
    return ("tr", rng.choice(IN_RANGE), rng.random() < 0.5)


steps_done = 0
for trial in range(120):
    t = random_track()
    level = trial % 3
    if level == 0:
        target = t
    elif level == 1:
        target = rng.choice(t.bars)
    else:
        ncs = [e[2] for b in t.bars for e in b.bar if e[2] is not None]
        if not ncs:
            continue
        target = rng.choice(ncs)
    whole_before = snapshot(t)
    for step in range(rng.randint(1, 5)):
        before = snapshot(target)
        if not before:
            break
        # keep the walk inside the property's domain: names with at most two
        # accidentals (before and after), octaves >= 1
        for _attempt in range(50):
            op = random_op()
            want = expect(op, before)
            if in_domain(want):
                break
        else:
            break
        apply(target, op)
        steps_done += 1
        got = snapshot(target)
        if got != want:
            fail("trial %d level %d op %r:\n   before %r\n   got    %r\n   want   %r"
                 % (trial, level, op, before, got, want))
            break
    # rests / durations / beats in the whole track unchanged
    after = snapshot(t)
    shape = lambda s: [[(b, d, None if c is None else len(c)) for (b, d, c) in bar] for bar in s]
    if shape(after) != shape(whole_before):
        fail("trial %d: rests/durations/beats changed" % trial)

# augment followed by diminish is the identity on names; up then down too
for trial in range(60):
    t = random_track()
    before = snapshot(t)
    t.augment()
    t.diminish()
    if snapshot(t) != before:
        fail("track augment+diminish not identity")
    sh = rng.choice(IN_RANGE)
    t.transpose(sh, True)
    t.transpose(sh, False)
    if snapshot(t) != before:
        fail("track up/down %s not identity" % sh)
    for b in t.bars:
        b.augment(); b.diminish()
        b.transpose(sh); b.transpose(sh, False)
        for e in b.bar:
            if e[2] is not None:
                e[2].augment(); e[2].diminish()
                e[2].transpose(sh); e[2].transpose(sh, False)
    if snapshot(t) != before:
        fail("bar/container round trips not identity")

if failures:
    report()
if steps_done < 150:
    fail("too few container steps exercised: %d" % steps_done)
    report()
print("C11 holds on %d note cases + %d container steps" % (cases, steps_done))
sys.exit(0)
