import mingus, os; assert os.path.realpath(mingus.__file__).startswith(os.path.realpath(os.path.dirname(__file__)))
"""Direct check of property C15 (no hidden shared state) through the public API.

Exit 0 when the statement holds on all cases, 1 with a message otherwise.
"""
import copy
import json
import random
import subprocess
import sys

from mingus.core import keys, chords, progressions, intervals, notes
from mingus.containers import Note, NoteContainer, Bar, Track, Composition, Suite
from mingus.containers.instrument import MidiInstrument
from mingus.midi.midi_track import MidiTrack
from mingus.midi.midi_file_out import MidiFile
from mingus.midi.sequencer import Sequencer
from mingus.extra import fft

FAILS = []
CASES = [0]


def check(cond, msg):
    CASES[0] += 1
    if not cond:
        FAILS.append(msg)


def outcome(f, *a, **k):
    """Value of a call, or the class of the exception it raises."""
    try:
        return ("ok", f(*a, **k))
    except Exception as e:  # noqa
        return ("raised", type(e).__name__, str(e))


# ---------------------------------------------------------------- battery
ALL_KEYS = keys.major_keys + keys.minor_keys
NOTE_NAMES = ["C", "C#", "Db", "D", "E", "Fb", "F#", "G", "Ab", "A", "Bb", "B", "B#", "Cbb", "F##"]
SHORTHANDS = ["C", "Am", "Cmin7", "Gdom7", "F#m7b5", "BbM7", "Dm|G", "A/G", "Am/M7", "C6/9",
              "Ebhendrix", "G7#11", "C13", "Bdim7", "NC", "Dsus4", "E7b9", "Amin", "Cmaj7",
              "Dm/C|G", "H", "C{", "C%s", "C\n", "Cé"]
CHORD_LISTS = [["C", "E", "G"], ["A", "C", "E"], ["G", "B", "D", "F"], ["C", "Eb", "G", "Bb"],
               ["C", "E", "G", "B", "D"], ["C", "E", "G", "B", "D", "F"],
               ["C", "E", "G", "B", "D", "F", "A"], ["C", "E"], ["C"], [],
               ["C", "E", "G", "B", "D", "F", "A", "C#"], ["F", "A", "C"], ["D", "F#", "A"]]
PROGS = ["I", "V7", "bIIdim7", "#ivm7", "VIIM7", "iii", "IIm6", "X", "", "IV7", "bbVI"]
FREQS = [0.5, 8.0, 8.1757989156, 8.18, 16.35, 27.5, 55.0, 110.0, 220.0, 261.6255653, 261.63,
         439.9, 440.0, 440.1, 466.16, 880.0, 1000.0, 4186.0, 10000.0, 12543.85, 12543.86, 20000.0]


def battery():
    """A fixed list of (label, thunk) queries on the theory API."""
    q = []
    for k in ALL_KEYS + ["", "H", "c#b", "C{", "Cé", "\n"]:
        q.append(("get_notes %r" % k, lambda k=k: keys.get_notes(k)))
        q.append(("get_notes kw %r" % k, lambda k=k: keys.get_notes(key=k)))
        q.append(("sig %r" % k, lambda k=k: keys.get_key_signature(k)))
        q.append(("sigacc %r" % k, lambda k=k: keys.get_key_signature_accidentals(k)))
        q.append(("triads %r" % k, lambda k=k: chords.triads(k)))
        q.append(("sevenths %r" % k, lambda k=k: chords.sevenths(k)))
        q.append(("tonic %r" % k, lambda k=k: chords.tonic(k)))
        q.append(("V7 %r" % k, lambda k=k: chords.V7(k)))
        q.append(("vii %r" % k, lambda k=k: chords.vii(key=k)))
        q.append(("valid %r" % k, lambda k=k: keys.is_valid_key(k)))
        q.append(("relmaj %r" % k, lambda k=k: keys.relative_major(k)))
        q.append(("relmin %r" % k, lambda k=k: keys.relative_minor(k)))
    for i in range(-8, 9):
        q.append(("get_key %d" % i, lambda i=i: keys.get_key(i)))
    for s in SHORTHANDS:
        q.append(("from_shorthand %r" % s, lambda s=s: chords.from_shorthand(s)))
        q.append(("from_shorthand slash %r" % s, lambda s=s: chords.from_shorthand(s, "E")))
        q.append(("from_shorthand poly %r" % s, lambda s=s: chords.from_shorthand(s, ["G", "B", "D"])))
    q.append(("from_shorthand list", lambda: chords.from_shorthand(list(SHORTHANDS[:8]))))
    for c in CHORD_LISTS:
        for sh in (False, True):
            q.append(("determine %r %r" % (c, sh), lambda c=c, sh=sh: chords.determine(list(c), sh)))
            q.append(("pdetermine %r %r" % (c, sh),
                      lambda c=c, sh=sh: progressions.determine(list(c), "C", sh) if c else None))
    for n in NOTE_NAMES:
        for k in ("C", "Eb", "f#"):
            q.append(("interval %r %r" % (n, k), lambda n=n, k=k: intervals.interval(k, n, 3)))
            q.append(("third %r %r" % (n, k), lambda n=n, k=k: intervals.third(n, k)))
        q.append(("major_third %r" % n, lambda n=n: intervals.major_third(n)))
        q.append(("minor_seventh %r" % n, lambda n=n: intervals.minor_seventh(n)))
        q.append(("M7 chord %r" % n, lambda n=n: chords.major_seventh(n)))
        q.append(("dom13 %r" % n, lambda n=n: chords.dominant_thirteenth(n)))
        for m in NOTE_NAMES[::3]:
            q.append(("idet %r %r" % (n, m), lambda n=n, m=m: intervals.determine(n, m)))
            q.append(("idet sh %r %r" % (n, m), lambda n=n, m=m: intervals.determine(n, m, shorthand=True)))
            q.append(("measure %r %r" % (n, m), lambda n=n, m=m: intervals.measure(n, m)))
        for iv in ("3", "b3", "#4", "bb7", "5", "9", ""):
            q.append(("ifs %r %r" % (n, iv), lambda n=n, iv=iv: intervals.from_shorthand(n, iv)))
            q.append(("ifs dn %r %r" % (n, iv), lambda n=n, iv=iv: intervals.from_shorthand(n, iv, up=False)))
    for p in PROGS:
        for k in ("C", "Ab", "e"):
            q.append(("to_chords %r %r" % (p, k), lambda p=p, k=k: progressions.to_chords(p, k)))
        q.append(("to_chords list %r" % p, lambda p=p: progressions.to_chords([p, "I", "V7"], key="D")))
        q.append(("parse %r" % p, lambda p=p: progressions.parse_string(p)))
        q.append(("subst %r" % p, lambda p=p: progressions.substitute([p, "IV"], 0)))
        q.append(("subst d1 %r" % p, lambda p=p: progressions.substitute(["I", p], 1, depth=1)))
        q.append(("subh %r" % p, lambda p=p: progressions.substitute_harmonic([p], 0)))
        q.append(("subh ign %r" % p, lambda p=p: progressions.substitute_harmonic([p], 0, ignore_suffix=True)))
        q.append(("smm %r" % p, lambda p=p: progressions.substitute_minor_for_major([p], 0)))
        q.append(("sMm %r" % p, lambda p=p: progressions.substitute_major_for_minor([p], 0)))
        q.append(("sdd %r" % p, lambda p=p: progressions.substitute_diminished_for_diminished([p], 0)))
        q.append(("sdD %r" % p, lambda p=p: progressions.substitute_diminished_for_dominant([p], 0)))
    for a in numerals_():
        for b in numerals_():
            q.append(("idiff %s %s" % (a, b), lambda a=a, b=b: progressions.interval_diff(a, b, 3)))
        q.append(("skip %s" % a, lambda a=a: progressions.skip(a, 5)))
    q.append(("invert", lambda: intervals.invert(["C", "E"])))
    q.append(("cinvert", lambda: chords.third_inversion(["C", "E", "G", "B"])))
    # frequency-to-note index through the public find_notes
    order = list(FREQS)
    random.Random(4).shuffle(order)
    for f in [4186.0, 30.0, 12000.0] + order:
        q.append(("fft %r" % f, lambda f=f: freq_index(f)))
    q.append(("fft table", lambda: [freq_index(f) for f in FREQS]))
    q.append(("fft table rev", lambda: [freq_index(f) for f in reversed(FREQS)]))
    return q


def numerals_():
    return list(progressions.numerals)


def freq_index(f, maxNote=128):
    """Index of the table slot find_notes puts frequency f in (public API only)."""
    res = fft.find_notes([(f, 1.0)], maxNote)
    hit = [i for i, (n, a) in enumerate(res) if a != 0]
    return hit


def run_battery():
    return [json.dumps(outcome(t), default=repr) for (_, t) in battery()]


def mutate(v):
    """Vandalise a returned value in place as deeply as we can."""
    if isinstance(v, list):
        for x in v:
            mutate(x)
        v.append("ZZ")
        v.reverse()
        if len(v) > 2:
            del v[1]
    elif isinstance(v, dict):
        v.clear()


def random_history(rng, n):
    """n random calls over the public theory API; every result is vandalised."""
    pool_keys = ALL_KEYS + ["H", "", "C{"]
    for _ in range(n):
        c = rng.randrange(16)
        k = rng.choice(pool_keys)
        nt = rng.choice(NOTE_NAMES)
        try:
            if c == 0:
                r = keys.get_notes(k)
            elif c == 1:
                r = chords.triads(k)
            elif c == 2:
                r = chords.sevenths(k)
            elif c == 3:
                r = chords.from_shorthand(rng.choice(SHORTHANDS))
            elif c == 4:
                r = chords.from_shorthand(rng.choice(SHORTHANDS), rng.choice(["E", ["G", "B"], None]))
            elif c == 5:
                r = chords.determine(list(rng.choice(CHORD_LISTS)), rng.random() < 0.5)
            elif c == 6:
                r = progressions.to_chords([rng.choice(PROGS) for _ in range(rng.randrange(4))], k)
            elif c == 7:
                r = progressions.substitute([rng.choice(PROGS), "V"], 0, rng.randrange(2))
            elif c == 8:
                r = intervals.determine(nt, rng.choice(NOTE_NAMES), rng.random() < 0.5)
            elif c == 9:
                r = keys.get_key_signature_accidentals(k)
            elif c == 10:
                r = getattr(chords, rng.choice(["tonic", "V7", "ii", "subtonic7", "IV"]))(k)
            elif c == 11:
                r = freq_index(rng.choice(FREQS) * rng.choice([0.5, 1.0, 1.01, 2.0]))
            elif c == 12:
                r = fft.find_notes([(f * rng.random() * 2, 0.5) for f in FREQS], rng.choice([50, 100, 128]))
            elif c == 13:
                r = getattr(chords, rng.choice(["major_triad", "minor_ninth", "hendrix_chord"]))(nt)
            elif c == 14:
                r = progressions.determine(list(rng.choice(CHORD_LISTS[:4])), rng.choice(ALL_KEYS), True)
            else:
                r = intervals.from_shorthand(nt, rng.choice(["3", "b5", "#2", "7"]), rng.random() < 0.5)
            mutate(r)
        except Exception:
            pass


# ---------------------------------------------------------------- snapshots
def snap(o, seen=None):
    """Structural snapshot of a value (objects by class name and attributes)."""
    if seen is None:
        seen = set()
    if isinstance(o, (str, bytes, int, float, bool, type(None))):
        return o
    if id(o) in seen:
        return "<cycle>"
    seen = seen | {id(o)}
    if isinstance(o, (list, tuple)):
        return (type(o).__name__,) + tuple(snap(x, seen) for x in o)
    if isinstance(o, dict):
        return ("dict",) + tuple(sorted((repr(k), snap(v, seen)) for k, v in o.items()))
    if isinstance(o, Note):
        # (channel and velocity live on the class until they are set)
        extra = dict((k, v) for k, v in vars(o).items() if k not in ("name", "octave", "channel", "velocity"))
        return ("Note", snap(o.name, seen), snap(o.octave, seen), o.channel, o.velocity, snap(extra, seen))
    if hasattr(o, "__dict__") and not callable(o):
        return (type(o).__name__, snap(vars(o), seen))
    return repr(o)


def class_defaults(cls):
    d = {}
    for k, v in vars(cls).items():
        if k.startswith("__") or callable(v) or isinstance(v, (property, staticmethod, classmethod)):
            continue
        d[k] = v
    return snap(d)


# ---------------------------------------------------------------- part 1
def part_history():
    cold = subprocess.run([sys.executable, os.path.abspath(__file__), "--cold"],
                          capture_output=True, text=True, env=os.environ)
    if cold.returncode != 0:
        FAILS.append("cold run failed: %s" % cold.stderr[-500:])
        return
    cold = json.loads(cold.stdout)
    labels = [l for (l, _) in battery()]
    # first contact in this process: every query, its result vandalised at once
    for (l, t) in battery():
        r = outcome(t)
        if r[0] == "ok":
            mutate(r[1])
    first = run_battery()
    for l, a, b in zip(labels, cold, first):
        check(a == b, "answer after vandalised first contact differs from a cold interpreter: %s: %s vs %s" % (l, a, b))
    for seed in range(6):
        rng = random.Random(seed)
        random_history(rng, 400)
        warm = run_battery()
        bad = [(l, a, b) for l, a, b in zip(labels, cold, warm) if a != b]
        check(not bad, "history seed %d changed answers: %r" % (seed, bad[:3]))
    # interleaved: every query twice with a vandalised result between
    for (l, t) in battery():
        a = outcome(t)
        snap_a = copy.deepcopy(a)
        if a[0] == "ok":
            mutate(a[1])
        b = outcome(t)
        check(snap_a == b, "result of %s changed after its result was modified: %r vs %r" % (l, snap_a, b))


# ---------------------------------------------------------------- part 2
def part_aliasing():
    calls = []
    for c in CHORD_LISTS:
        if c:
            calls.append((chords.determine, [c], {}))
            calls.append((chords.determine, [c, True, True, True], {}))
            calls.append((chords.invert, [c], {}))
            calls.append((chords.first_inversion, [c], {}))
            calls.append((chords.second_inversion, [c], {}))
            calls.append((chords.third_inversion, [c], {}))
            calls.append((intervals.invert, [c], {}))
            calls.append((progressions.determine, [c, "C"], {"shorthand": True}))
        if len(c) == 3:
            calls.append((chords.determine_triad, [c], {"shorthand": True}))
        if len(c) == 4:
            calls.append((chords.determine_seventh, [c, False, False, False], {}))
        if len(c) == 5:
            calls.append((chords.determine_extended_chord5, [c], {}))
        if len(c) == 6:
            calls.append((chords.determine_extended_chord6, [c], {}))
        if len(c) == 7:
            calls.append((chords.determine_extended_chord7, [c], {}))
        if len(c) > 7:
            calls.append((chords.determine_polychords, [c], {}))
    calls.append((progressions.determine, [[["C", "E", "G"], ["G", "B", "D"]], "C", True], {}))
    for s in SHORTHANDS[:20]:
        calls.append((chords.from_shorthand, [s, ["G", "B", "D"]], {}))
        calls.append((chords.from_shorthand, [s], {"slash": ["A", "C#"]}))
    calls.append((chords.from_shorthand, [list(SHORTHANDS[:6])], {}))
    for p in (["I", "IV", "V7"], ["bII", "VIIdim7", "im7"], ["Idim", "IVM7"], []):
        calls.append((progressions.to_chords, [p], {}))
        calls.append((progressions.to_chords, [p, "Ab"], {}))
        for i in range(len(p)):
            for f in (progressions.substitute, progressions.substitute_harmonic,
                      progressions.substitute_minor_for_major, progressions.substitute_major_for_minor,
                      progressions.substitute_diminished_for_diminished,
                      progressions.substitute_diminished_for_dominant):
                calls.append((f, [p, i], {}))
            calls.append((progressions.substitute, [p, i, 2], {}))
    for k in ALL_KEYS:
        calls.append((keys.get_notes, [k], {}))
        calls.append((keys.get_key_signature_accidentals, [k], {}))
        calls.append((chords.triads, [k], {}))
        calls.append((chords.sevenths, [k], {}))
        calls.append((chords.dominant7, [k], {}))
        calls.append((chords.iii, [k], {}))
    for n in NOTE_NAMES:
        calls.append((chords.augmented_triad, [n], {}))
        calls.append((chords.suspended_fourth_ninth, [n], {}))
    for i in range(-7, 8):
        calls.append((keys.get_key, [i], {}))
    calls.append((fft.find_notes, [[(f, 0.25) for f in FREQS]], {}))
    calls.append((fft.find_notes, [[(f, 0.25) for f in FREQS], 60], {}))
    calls.append((fft.find_frequencies, [[0, 100, -100, 50, 3, -7, 9, 1]], {"freq": 8000}))

    for (f, a, k) in calls:
        a0, k0 = copy.deepcopy(a), copy.deepcopy(k)
        r1 = outcome(f, *a, **k)
        check(snap(a) == snap(a0) and snap(k) == snap(k0),
              "%s modified its arguments: %r -> %r" % (f.__name__, a0, a))
        keep = snap(r1)
        if r1[0] == "ok":
            mutate(r1[1])
        r2 = outcome(f, *copy.deepcopy(a0), **copy.deepcopy(k0))
        check(snap(r2) == keep,
              "modifying the result of %s%r changed a later call: %r vs %r" % (f.__name__, tuple(a0), keep, r2))
    # module tables are not handed out
    before = snap([keys.keys, keys.major_keys, keys.minor_keys, keys.base_scale, notes.fifths,
                   progressions.numerals, progressions.numeral_intervals,
                   sorted(chords.chord_shorthand_meaning.items()), sorted(chords.chord_shorthand)])
    random_history(random.Random(99), 300)
    after = snap([keys.keys, keys.major_keys, keys.minor_keys, keys.base_scale, notes.fifths,
                  progressions.numerals, progressions.numeral_intervals,
                  sorted(chords.chord_shorthand_meaning.items()), sorted(chords.chord_shorthand)])
    check(before == after, "public tables changed")


# ---------------------------------------------------------------- part 3
def make(cls):
    if cls is Note:
        return Note("E", 3)
    return cls()


def scripts():
    """(class, list of operation scripts on an instance)."""
    nc_ops = [
        lambda o: o.add_note("C"),
        lambda o: o.add_notes(["E", "G", ["B", 5], ["D", 6, {"velocity": 20}]]),
        lambda o: o.add_notes(("A", "C")),
        lambda o: o.add_notes(iter(["F#", "Bb"])),
        lambda o: o + "B",
        lambda o: o.from_chord("Am7"),
        lambda o: o.from_interval("C", "5"),
        lambda o: o.from_progression("V7", "D"),
        lambda o: o.transpose("3"),
        lambda o: o.augment(),
        lambda o: o.remove_note("C"),
        lambda o: o.remove_notes(o),
        lambda o: o.add_notes(o),
        lambda o: o.add_note(object()),
        lambda o: o.add_note("H"),
        lambda o: o.sort(),
        lambda o: o.__setitem__(0, "D"),
        lambda o: o.notes.append(Note("G", 7)),
        lambda o: o.empty(),
        lambda o: o.add_notes(["C", "E"]),
    ]
    bar_ops = [
        lambda o: o.place_notes("C", 4),
        lambda o: o.place_notes(["E", "G"], 8),
        lambda o: o.place_notes(NoteContainer(["A", "C"]), 8),
        lambda o: o.place_rest(4),
        lambda o: o + "D",
        lambda o: o.place_notes("C", 1),
        lambda o: o.transpose("b3", up=False),
        lambda o: o.augment(),
        lambda o: o.__setitem__(0, ["C", "E"]),
        lambda o: o.place_notes_at(["B"], 0.0),
        lambda o: o.remove_last_entry(),
        lambda o: o.set_meter((3, 4)),
        lambda o: o.set_meter((3, 5)),
        lambda o: o.bar.append([0.0, 4, None]),
        lambda o: o.empty(),
        lambda o: o.place_notes("F#", 2),
    ]
    track_ops = [
        lambda o: o.add_notes("C"),
        lambda o: o.add_notes(["E", "G"], 2),
        lambda o: o.add_notes(None, 4),
        lambda o: o + "A",
        lambda o: o + Bar("D", (3, 4)),
        lambda o: o.add_bar(Bar()),
        lambda o: o.from_chords(["C", ["Am", "Dm"], "G7"], 1),
        lambda o: o.from_chords(["C", "F"], 2),
        lambda o: o.transpose("5"),
        lambda o: o.augment(),
        lambda o: o.diminish(),
        lambda o: o.__setitem__(0, Bar("F")),
        lambda o: o.__setitem__(0, "x"),
        lambda o: o.bars.append(Bar()),
        lambda o: setattr(o, "name", "lead"),
        lambda o: o.set_tuning("fake"),
    ]
    comp_ops = [
        lambda o: o.add_track(Track()),
        lambda o: o + Track(),
        lambda o: o.add_note("C"),
        lambda o: o + "E",
        lambda o: o.add_track("x"),
        lambda o: o.set_title("T", "S"),
        lambda o: o.set_author("A", "a@b"),
        lambda o: o.selected_tracks.append(0) if o.tracks else None,
        lambda o: o.__setitem__(0, Track()),
        lambda o: o.tracks.append(Track()),
        lambda o: o.reset(),
        lambda o: o.add_track(Track(MidiInstrument())),
        lambda o: o.add_note(NoteContainer(["C", "E"])),
    ]
    suite_ops = [
        lambda o: o.add_composition(Composition()),
        lambda o: o + Composition(),
        lambda o: o.add_composition("x"),
        lambda o: o.set_title("T"),
        lambda o: o.set_author("A", email="e"),
        lambda o: o.__setitem__(0, Composition()),
        lambda o: o.compositions.append(Composition()),
        lambda o: o.__setitem__(0, 3),
    ]
    note_ops = [
        lambda o: o.set_note("D", 5, {"velocity": 99}),
        lambda o: o.set_note("D-2", velocity=3, channel=9),
        lambda o: o.transpose("b7"),
        lambda o: o.augment(),
        lambda o: o.octave_up(),
        lambda o: o.from_int(30),
        lambda o: o.from_hertz(1000),
        lambda o: o.from_shorthand("c#''"),
        lambda o: o.set_channel(3),
        lambda o: o.set_velocity(200),
        lambda o: o.dynamics.update(velocity=1),
        lambda o: o.set_note("H"),
        lambda o: o.empty(),
    ]
    mt_ops = [
        lambda o: o.play_Note(Note("C", 4)),
        lambda o: o.set_deltatime(72),
        lambda o: o.stop_Note(Note("C", 4)),
        lambda o: o.play_NoteContainer(NoteContainer(["C", "E", "G"])),
        lambda o: o.stop_NoteContainer(NoteContainer(["C", "E", "G"])),
        lambda o: o.play_Bar(filled_bar()),
        lambda o: o.play_Track(filled_track()),
        lambda o: o.set_instrument(1, 25),
        lambda o: o.set_tempo(90),
        lambda o: o.set_meter((6, 8)),
        lambda o: o.set_key("eb"),
        lambda o: o.set_key("H"),
        lambda o: o.set_track_name("x{%s}"),
        lambda o: o.get_midi_data(),
        lambda o: o.reset(),
        lambda o: o.play_Bar(filled_bar()),
    ]
    mf_ops = [
        lambda o: o.tracks.append(MidiTrack()),
        lambda o: o.get_midi_data(),
        lambda o: o.header(),
        lambda o: [t.play_Note(Note("A")) for t in o.tracks],
        lambda o: o.reset(),
        lambda o: setattr(o, "tracks", [MidiTrack(100)]),
        lambda o: o.get_midi_data(),
    ]
    seq_ops = [
        lambda o: o.attach(object()),
        lambda o: o.attach(Listener()),
        lambda o: o.play_Note(Note("C")),
        lambda o: o.play_NoteContainer(NoteContainer(["C", "E"])),
        lambda o: o.stop_Note(Note("C")),
        lambda o: o.set_instrument(1, 5),
        lambda o: o.control_change(1, 7, 100),
        lambda o: o.detach(o.listeners[0]),
        lambda o: o.stop_everything(),
    ]
    return [(NoteContainer, nc_ops), (Bar, bar_ops), (Track, track_ops), (Composition, comp_ops),
            (Suite, suite_ops), (Note, note_ops), (MidiTrack, mt_ops), (MidiFile, mf_ops),
            (Sequencer, seq_ops)]


class Listener(object):
    def notify(self, msg_type, params):
        pass


def filled_bar():
    b = Bar("G", (4, 4))
    b.place_notes(["C", "E"], 4)
    b.place_rest(4)
    b.place_notes("G", 2)
    return b


def filled_track():
    t = Track(MidiInstrument())
    t.instrument.instrument_nr = 12
    t.add_bar(filled_bar())
    t.add_notes("C", 4)
    return t


def part_siblings():
    for cls, ops in scripts():
        for order in (0, 1, 2):
            rng = random.Random(order)
            seq = list(ops)
            if order:
                rng.shuffle(seq)
            defaults0 = class_defaults(cls)
            before_b = make(cls)          # created before a
            a = make(cls)
            s_before = snap(before_b)
            fresh0 = snap(make(cls))
            for i, op in enumerate(seq):
                try:
                    op(a)
                except Exception:
                    pass
                check(snap(before_b) == s_before,
                      "%s: operation %d (order %d) on one instance changed a sibling" % (cls.__name__, i, order))
                check(class_defaults(cls) == defaults0,
                      "%s: operation %d (order %d) changed the class defaults" % (cls.__name__, i, order))
            check(snap(make(cls)) == fresh0,
                  "%s: a freshly created instance differs after operating on another" % cls.__name__)
    # refused calls repeated leave everything as it was
    for cls, bad in ((NoteContainer, lambda o: o.add_note(5)), (Composition, lambda o: o.add_track(1)),
                     (Suite, lambda o: o.add_composition(1)), (Track, lambda o: o.__setitem__(0, 1)),
                     (Bar, lambda o: o.set_meter((4, 7))), (Note, lambda o: o.set_note("C-4-4"))):
        o = make(cls)
        s0, d0 = snap(o), class_defaults(cls)
        for _ in range(3):
            try:
                bad(o)
            except Exception:
                pass
        check(snap(o) == s0 and class_defaults(cls) == d0, "%s: refused call changed something" % cls.__name__)


def part_copies():
    for name in ["C", "F#", "Bbb", "E-2", "Ab-7"]:
        for dyn in (None, {"velocity": 10, "channel": 2}):
            src = Note(name, 5, dyn) if "-" not in name else Note(name, dynamics=dyn)
            s0 = snap(src)
            cp = Note(src)
            check(snap(cp) == s0 and cp is not src, "copy of Note %r differs from the original" % name)
            cp.transpose("4"); cp.set_velocity(1); cp.set_channel(7); cp.octave_down()
            check(snap(src) == s0, "changing a Note copy changed the original %r" % name)
            cp2 = Note(src)
            s2 = snap(cp2)
            src.augment(); src.set_velocity(77); src.octave_up()
            check(snap(cp2) == s2, "changing the original Note changed its copy %r" % name)
            if dyn is not None:
                check(dyn == {"velocity": 10, "channel": 2}, "Note() modified its dynamics argument")
    for dyn in ({}, {"velocity": 10}, {"velocity": 10, "channel": 2, "other": [1]}):
        d0 = copy.deepcopy(dyn)
        n1 = Note("C", 4, dyn, velocity=5, channel=3)
        n2 = Note("D", 4, dyn)
        n1.set_note("E", 3, dyn, velocity=9)
        NoteContainer().add_note("C", 4, dyn)
        NoteContainer([["C", 4, dyn]])
        check(dyn == d0, "a dynamics dictionary was modified: %r -> %r" % (d0, dyn))
        check((n2.velocity, n2.channel) == (d0.get("velocity", 64), d0.get("channel", 1)),
              "Note built after another one got its dynamics")
    for spec in (["C", "E", "G"], ["A-2", "C-3"], [["C", 5], ["E", 5, {"velocity": 3}]], "Bb", []):
        spec0 = copy.deepcopy(spec)
        src = NoteContainer(spec)
        check(spec == spec0, "NoteContainer() modified its argument %r" % (spec0,))
        s0 = snap(src)
        cp = NoteContainer(src)
        check(snap(cp) == s0, "NoteContainer copy differs")
        check(all(x is not y for x in cp.notes for y in src.notes), "NoteContainer copy shares Note objects")
        cp.transpose("5"); cp.augment(); cp.add_note("D", 7); cp.remove_note("C")
        for n in cp.notes:
            n.set_velocity(5)
        check(snap(src) == s0, "changing a NoteContainer copy changed the original %r" % (spec0,))
        cp2 = NoteContainer().add_notes(src) and None
        cp2 = NoteContainer(); cp2.add_notes(src)
        s2 = snap(cp2)
        src.transpose("2"); src.empty()
        check(snap(cp2) == s2, "changing the original NoteContainer changed its copy")
        own = NoteContainer(spec)
        own.add_notes(own)
        check(snap(own) == snap(NoteContainer(spec)), "container handed itself changed")
    # the lists returned by add_note(s) / Track.from_chords pieces
    t = Track()
    t.add_bar(Bar("C", (3, 4)))
    t.from_chords(["C", "Am"], 1)
    conts = [c for (_, _, c) in t.get_notes() if c is not None]
    check(len(set(id(c) for c in conts)) == len(conts), "Track.from_chords reuses a container")
    allnotes = [n for c in conts for n in c.notes]
    check(len(set(id(n) for n in allnotes)) == len(allnotes), "Track.from_chords reuses Note objects")
    # bars made by a track for a new bar do not share their entries
    t2 = Track()
    for i in range(9):
        t2.add_notes("C", 4)
    check(len(set(id(b.bar) for b in t2.bars)) == len(t2.bars) == 3, "bars of a track share their list")
    # writers: same input, same bytes whatever was written before
    ref = MidiTrack(120); ref.play_Track(filled_track()); ref = ref.get_midi_data()
    other = MidiTrack(60); other.play_Bar(filled_bar()); other.set_deltatime(500); other.delay = 7
    again = MidiTrack(120); again.play_Track(filled_track())
    check(again.get_midi_data() == ref, "MidiTrack output depends on another MidiTrack")
    lst = [MidiTrack(), MidiTrack()]
    lst0 = list(lst)
    m1 = MidiFile(lst); m2 = MidiFile()
    check(lst == lst0 and all(x is y for x, y in zip(lst, lst0)), "MidiFile() modified its list argument")
    m2.tracks.append(MidiTrack())
    check(len(m1.tracks) == 2 and len(MidiFile().tracks) == 0 and MidiFile.tracks == [],
          "MidiFile instances share tracks")
    for tup in ((MidiTrack(),), iter([MidiTrack()])):
        try:
            MidiFile(tup)
        except Exception:
            pass
    check(MidiFile.tracks == [] and len(MidiFile().tracks) == 0, "MidiFile default changed")


def part_fft():
    rng = random.Random(8)
    fs = sorted(set([round(10 ** rng.uniform(0.5, 4.15), 3) for _ in range(250)] + FREQS))
    maps = []
    for order in range(5):
        seq = list(fs)
        if order == 1:
            seq.reverse()
        elif order > 1:
            rng.shuffle(seq)
        maps.append(dict((f, tuple(freq_index(f))) for f in seq))
    for f in fs:
        got = set(m[f] for m in maps)
        check(len(got) == 1, "frequency %r lands in different slots depending on earlier lookups: %r" % (f, got))
    # a whole table gives the same amplitudes whatever its order
    table = [(f, 1.0) for f in fs]
    a = [amp for (_, amp) in fft.find_notes(table)]
    b = [amp for (_, amp) in fft.find_notes(list(reversed(table)))]
    rng.shuffle(table)
    c = [amp for (_, amp) in fft.find_notes(table)]
    check(a == b == c, "find_notes depends on the order of the table")


def main():
    if "--cold" in sys.argv:
        print(json.dumps(run_battery()))
        return 0
    for part in (part_history, part_aliasing, part_siblings, part_copies, part_fft):
        try:
            part()
        except Exception as e:  # noqa
            import traceback
            FAILS.append("%s crashed: %s" % (part.__name__, traceback.format_exc()[-700:]))
    if FAILS:
        print("C15 VIOLATED (%d of %d checks):" % (len(FAILS), CASES[0]))
        for f in FAILS[:15]:
            print("  - " + f[:600])
        return 1
    print("C15 holds on %d checks (battery of %d queries)" % (CASES[0], len(battery())))
    return 0


if __name__ == "__main__":
    sys.exit(main())
