import mingus, os; assert os.path.realpath(mingus.__file__).startswith(os.path.realpath(os.path.dirname(__file__)))
import random
import sys

from mingus.containers import Bar, Composition, Note, NoteContainer, Track
from mingus.containers.instrument import Guitar, Instrument, MidiInstrument, Piano
from mingus.containers.mt_exceptions import InstrumentRangeError

EPS = 1e-9
CASES = [0]


class Failure(Exception):
    pass


def check(cond, msg):
    if not cond:
        raise Failure(msg)


def names(nc):
    """Content of a stored entry: None for a rest, else sorted (int, name, octave)."""
    if nc is None:
        return None
    return [(int(n), n.name, n.octave) for n in nc]


def expected_content(item):
    if item is None:
        return None
    if hasattr(item, "notes"):
        return names(item)
    return names(NoteContainer(item))


def bar_sum(bar):
    return sum(1.0 / e[1] for e in bar.bar)


def bar_is_full(bar):
    if bar.length == 0.0 or len(bar.bar) == 0:
        return False
    return bar_sum(bar) >= bar.length - 0.001


def entries(track):
    return [(b, d, n) for b, d, n in track.get_notes()]


def check_track_against_model(track, model, label):
    """model is a list of (content, duration) of accepted items."""
    got = entries(track)
    check(len(got) == len(model), "%s: %d entries, expected %d" % (label, len(got), len(model)))
    for i, ((beat, dur, nc), (content, mdur)) in enumerate(zip(got, model)):
        check(dur == mdur, "%s: entry %d has value %r, expected %r" % (label, i, dur, mdur))
        check(names(nc) == content, "%s: entry %d holds %r, expected %r" % (label, i, names(nc), content))
    # also via indexing the bars
    flat = [e for bar in track for e in bar]
    check(len(flat) == len(model), "%s: bars hold %d entries" % (label, len(flat)))
    for bar in track.bars[:-1]:
        check(bar_is_full(bar), "%s: a bar before the last one is not full: %r" % (label, bar))
    for bar in track.bars:
        pos = 0.0
        for e in bar.bar:
            check(abs(e[0] - pos) < 1e-6, "%s: entry starts at %r, expected %r" % (label, e[0], pos))
            pos += 1.0 / e[1]
    check(track.test_integrity() is True, "%s: test_integrity" % label)
    total = sum(1.0 / d for _, d, _ in got)
    want = sum(1.0 / d for _, d in model)
    check(abs(total - want) < 1e-6, "%s: total length %r, expected %r" % (label, total, want))
    check(len(track) == len(track.bars), "%s: len" % label)


VALUES = [1, 2, 4, 8, 16, 32, 3, 6, 12, 8.0 / 3, 16.0 / 3, 4.0 / 3, 0.5, 5, 7, 64, 1.0, 2.0]
METERS = [(4, 4), (3, 4), (6, 8), (2, 2), (5, 4), (7, 8), (2, 4), (12, 8), (1, 1), (3, 8)]
KEYS = ["C", "G", "F#", "Eb", "a", "f#", "bb"]
NOTE_STRINGS = ["C", "E-4", "G#-5", "Bb-3", "A-2", "F##-4", "Cb-6", "D-1"]
CHORD_LISTS = [["C", "E", "G"], ["A-3", "C-4", "E-4"], ["C-4", "C-5"], ["B", "D", "F", "A"], ["E-4"]]


def random_item(rnd):
    k = rnd.randrange(7)
    if k == 0:
        return None
    if k == 1:
        return rnd.choice(NOTE_STRINGS)
    if k == 2:
        return Note(rnd.choice("CDEFGAB") + rnd.choice(["", "#", "b"]), rnd.randrange(1, 8))
    if k == 3:
        return list(rnd.choice(CHORD_LISTS))
    if k == 4:
        return NoteContainer(list(rnd.choice(CHORD_LISTS)))
    if k == 5:
        return NoteContainer().from_chord(rnd.choice(["C", "Am7", "G7", "Dm", "F#m", "Bbmaj7"]))
    return [Note("C", 4), Note("G", 4)]


def sequence_case(seed):
    rnd = random.Random(seed)
    label = "sequence seed %d" % seed
    track = Track()
    model = []
    if rnd.random() < 0.6:
        track.add_bar(Bar(rnd.choice(KEYS), rnd.choice(METERS)))
    nops = rnd.randrange(1, 40)
    for step in range(nops):
        op = rnd.randrange(10)
        before_bars = list(track.bars)
        before_entries = [(b, d, names(n)) for b, d, n in track.get_notes()]
        last_full = bool(before_bars) and bar_is_full(before_bars[-1])
        if op == 0 and (not before_bars or last_full):
            r = track.add_bar(Bar(rnd.choice(KEYS), rnd.choice(METERS)))
            check(r is track, label + ": add_bar returns the track")
            check(len(track.bars) == len(before_bars) + 1, label + ": add_bar adds one bar")
            check_track_against_model(track, model, label)
            continue
        item = random_item(rnd)
        dur = rnd.choice(VALUES)
        content = expected_content(item)
        how = rnd.randrange(4)
        if how == 0 and item is not None and not isinstance(item, list):
            res = track + item
            dur = 4
        elif how == 1:
            res = track.add_notes(note=item, duration=dur)
        elif how == 2 and dur == 4:
            res = track.add_notes(item)
        else:
            res = track.add_notes(item, dur)
        check(res is True or res is False, label + ": add_notes reports %r" % (res,))
        if res:
            model.append((content, dur))
            if hasattr(item, "notes"):
                check(track.bars[-1].bar[-1][2] is item or names(track.bars[-1].bar[-1][2]) == content, label)
        else:
            after = [(b, d, names(n)) for b, d, n in track.get_notes()]
            check(after == before_entries, label + ": a refused item changed the track")
        # new bars only when the last one was full (or there was none), inheriting key and meter
        nb = len(track.bars) - len(before_bars)
        check(nb in (0, 1), label + ": %d bars opened by one item" % nb)
        check(track.bars[: len(before_bars)] == before_bars and all(
            x is y for x, y in zip(track.bars, before_bars)), label + ": earlier bars replaced")
        if nb == 1:
            if before_bars:
                check(last_full, label + ": a bar was opened although the last one had room")
                check(track.bars[-1].key == before_bars[-1].key, label + ": key not inherited")
                check(track.bars[-1].key.key == before_bars[-1].key.key, label + ": key not inherited")
                check(tuple(track.bars[-1].meter) == tuple(before_bars[-1].meter), label + ": meter not inherited")
            else:
                check(track.bars[-1].key.key == "C" and tuple(track.bars[-1].meter) == (4, 4), label + ": first bar")
        else:
            check(not last_full, label + ": item put into a full bar")
        check_track_against_model(track, model, label)
    CASES[0] += 1


def exhaustive_cases():
    vals = [1, 2, 4, 8]
    items = [None, "C", ["C", "E"]]
    import itertools

    for meter in [(4, 4), (3, 4), (2, 2)]:
        for seq in itertools.product(vals, repeat=4):
            track = Track()
            track.add_bar(Bar("G", meter))
            model = []
            for i, d in enumerate(seq):
                item = items[(i + d) % 3]
                if track.add_notes(item, d):
                    model.append((expected_content(item), d))
            check_track_against_model(track, model, "exhaustive %r %r" % (meter, seq))
            for b in track.bars:
                check(b.key.key == "G" and tuple(b.meter) == meter, "exhaustive: key/meter inherited")
            CASES[0] += 1


def instrument_cases():
    def generic():
        return Instrument()

    def narrowed():
        i = Instrument()
        i.set_range(("C-3", "C-5"))
        return i

    def narrowed_notes():
        i = Instrument()
        i.set_range((Note("A", 2), Note("A", 4)))
        return i

    makers = [
        (generic, (0, 96)),
        (Piano, (5, 107)),
        (Guitar, (40, 88)),
        (lambda: MidiInstrument("Flute"), (0, 107)),
        (narrowed, (36, 60)),
        (narrowed_notes, (33, 57)),
    ]
    for maker, (lo, hi) in makers:
        for value in (lo - 13, lo - 1, lo, lo + 1, (lo + hi) // 2, hi - 1, hi, hi + 1, hi + 14):
            if value < 0:
                continue
            for form in range(4):
                inst = maker()
                track = Track(inst)
                label = "instrument %r note %d form %d" % (inst, value, form)
                check(track.add_notes(None, 2) is True, label + ": rest refused")
                check(track.add_notes(None) is True, label + ": rest refused")
                n = Note().from_int(value)
                if form == 0:
                    item = n
                elif form == 1:
                    item = "%s-%d" % (n.name, n.octave)
                elif form == 2:
                    item = NoteContainer(n)
                else:
                    item = [n]
                before = [(b, d, names(c)) for b, d, c in track.get_notes()]
                inside = lo <= value <= hi
                try:
                    if form == 0:
                        res = track + item
                    else:
                        res = track.add_notes(item, 4)
                except InstrumentRangeError:
                    check(not inside, label + ": range error for a note inside the range")
                    after = [(b, d, names(c)) for b, d, c in track.get_notes()]
                    check(after == before, label + ": refused note changed the track")
                else:
                    check(inside, label + ": note outside the range accepted")
                    check(res is True, label + ": note inside the range not accepted")
                    got = entries(track)
                    check(len(got) == 3 and names(got[2][2]) == names(NoteContainer(n)) and got[2][1] == 4, label)
                # rests are still accepted afterwards
                check(track.add_notes(None, 8) is True, label + ": rest refused")
                CASES[0] += 1
    # a chord with one note outside the range is refused as a whole
    t = Track(Guitar())
    try:
        t.add_notes(["E-3", "E-2"], 4)
    except InstrumentRangeError:
        pass
    else:
        raise Failure("guitar accepted E-2")
    check(entries(t) == [], "refused chord changed the track")
    check(Track(Piano()).add_notes(["C-4", "E-4", "G-4"], 2) is True, "piano chord")
    CASES[0] += 2
    # rests without an instrument
    t = Track()
    for d in (4, 4, 2, 1, 8):
        check(t.add_notes(None, d) is True, "rest without instrument")
    check([d for _, d, _ in t.get_notes()] == [4, 4, 2, 1, 8], "rests kept")
    check(all(n is None for _, _, n in t.get_notes()), "rests are None")
    CASES[0] += 1


def flatten(chords, duration):
    out = []
    for c in chords:
        if isinstance(c, list):
            out.extend(flatten(c, duration * 2))
        else:
            out.append((c, duration))
    return out


def random_chord_list(rnd, depth=0):
    out = []
    for _ in range(rnd.randrange(1, 5)):
        r = rnd.random()
        if r < 0.25 and depth < 3:
            out.append(random_chord_list(rnd, depth + 1))
        elif r < 0.4:
            out.append(None)
        else:
            out.append(rnd.choice(["C", "Am", "G7", "Dm7", "F", "Em", "Bb", "F#m", "Cmaj7", "E7"]))
    return out


def from_chords_case(seed):
    rnd = random.Random(1000 + seed)
    label = "from_chords seed %d" % seed
    chords = random_chord_list(rnd)
    duration = rnd.choice([1, 1, 2, 4, 1.0, 2.0])
    inst = rnd.choice([None, None, Piano(), Instrument(), MidiInstrument()])
    track = Track(inst)
    meter = (4, 4)
    if rnd.random() < 0.5:
        meter = rnd.choice([(4, 4), (3, 4), (2, 4), (6, 8), (2, 2), (5, 4)])
        track.add_bar(Bar(rnd.choice(KEYS), meter))
    if meter[0] / float(meter[1]) < 1.0 / duration:
        # keep every item no longer than one bar, so that two pieces always suffice
        duration = 2 if meter != (3, 8) else 4
    if rnd.random() < 0.5:
        r = track.from_chords(chords, duration)
    elif duration == 1:
        r = track.from_chords(chords)
    else:
        r = track.from_chords(chords=chords, duration=duration)
    check(r is track, label + ": from_chords returns the track")
    want = flatten(chords, duration)
    got = entries(track)
    i = 0
    for chord, dur in want:
        content = None if chord is None else names(NoteContainer().from_chord(chord))
        need = 1.0 / dur
        have = 0.0
        pieces = 0
        while have < need - EPS:
            check(i < len(got), label + ": ran out of entries at %r" % (chord,))
            check(names(got[i][2]) == content, label + ": entry %d holds %r, expected %r (%r)" % (
                i, names(got[i][2]), content, chord))
            have += 1.0 / got[i][1]
            i += 1
            pieces += 1
        check(abs(have - need) < 1e-6, label + ": %r lasts %r, expected %r" % (chord, have, need))
        check(pieces <= 2, label + ": %r split into %d pieces" % (chord, pieces))
    check(i == len(got), label + ": %d extra entries" % (len(got) - i))
    total = sum(1.0 / d for _, d, _ in got)
    check(abs(total - sum(1.0 / d for _, d in want)) < 1e-6, label + ": total length")
    for bar in track.bars[:-1]:
        check(bar_is_full(bar), label + ": bar not full")
        check(abs(bar_sum(bar) - bar.length) < 1e-6, label + ": bar over-full")
    for bar in track.bars:
        check(tuple(bar.meter) == meter, label + ": meter")
    CASES[0] += 1


def composition_cases():
    for seed in range(40):
        rnd = random.Random(5000 + seed)
        label = "composition seed %d" % seed
        comp = Composition()
        check(len(comp) == 0, label)
        ntracks = rnd.randrange(1, 5)
        tracks = [Track() for _ in range(ntracks)]
        models = [[] for _ in range(ntracks)]
        for i, t in enumerate(tracks):
            if rnd.random() < 0.5:
                comp.add_track(t)
            else:
                comp + t
            check(len(comp) == i + 1 and comp[i] is t and comp[-1] is t, label + ": indexing")
            check(list(comp.selected_tracks) == [i], label + ": selection after add_track")
            # a note now reaches only the new track
            note = rnd.choice(NOTE_STRINGS)
            if rnd.random() < 0.5:
                comp.add_note(note)
            else:
                comp + note
            models[i].append((expected_content(note), 4))
            for t2, m2 in zip(tracks, models):
                check_track_against_model(t2, m2, label)
        for _ in range(6):
            sel = sorted(rnd.sample(range(ntracks), rnd.randrange(0, ntracks + 1)))
            comp.selected_tracks = sel
            item = rnd.choice([rnd.choice(NOTE_STRINGS), Note("D", 5), NoteContainer(["C", "E"])])
            comp.add_note(item)
            for k in sel:
                models[k].append((expected_content(item), 4))
            for t2, m2 in zip(tracks, models):
                check_track_against_model(t2, m2, label + " sel %r" % (sel,))
        check([comp[i] for i in range(len(comp))] == tracks, label)
        check(all(a is b for a, b in zip(comp.tracks, tracks)), label)
        # equality follows contents
        other = Composition()
        for m in models:
            t = Track()
            for content, d in m:
                t.add_notes([Note(nm, o) for _, nm, o in content], d)
            other.add_track(t)
        check(comp == other and other == comp, label + ": equal compositions differ")
        for a, b in zip(comp, other):
            check(a == b, label + ": equal tracks differ")
        other[0].add_notes("C", 4)
        check(not (comp == other), label + ": different compositions equal")
        check(not (comp[0] == other[0]), label + ": different tracks equal")
        shorter = Composition()
        for t in tracks[:-1]:
            shorter.add_track(t)
        check(not (comp == shorter) and len(shorter) == ntracks - 1, label + ": shorter composition")
        CASES[0] += 1

    # track equality / indexing / len
    a, b = Track(), Track(Piano())
    check(a == b and len(a) == 0, "empty tracks")
    for t in (a, b):
        t.add_notes("C-4", 2)
        t.add_notes(None, 2)
        t.add_notes(["E-4", "G-4"], 1)
    check(a == b and len(a) == 2 and len(b) == 2, "equal tracks")
    check(a[0] is a.bars[0] and a[1] is a.bars[1] and a[-1] is a.bars[-1], "track indexing")
    check(a[0] == b[0] and not (a[0] == a[1]), "bar equality")
    b.add_notes("D-4", 1)
    check(not (a == b) and len(b) == 3, "unequal tracks")
    c = Track()
    c.add_notes("C-4", 2)
    c.add_notes(None, 2)
    c.add_notes(["E-4", "A-4"], 1)
    check(not (a == c), "tracks with different chords equal")
    d = Track()
    d.add_notes("C-4", 2)
    d.add_notes(None, 4)
    check(not (d == Track().add_bar(a[0])), "tracks with different values equal")
    CASES[0] += 1


def long_case():
    t = Track()
    model = []
    for i in range(3000):
        item = [None, "C-4", ["E-4", "G-4"]][i % 3]
        if t.add_notes(item, 8):
            model.append((expected_content(item), 8))
    check(len(model) == 3000 and len(t) == 375, "long sequence: %d bars" % len(t))
    check_track_against_model(t, model, "long sequence")
    t2 = Track().from_chords(["C", None, "G7", "Am"] * 300, 2)
    check(len(list(t2.get_notes())) == 1200 and len(t2) == 600, "long chord list")
    deep = "C"
    dur = 1
    for _ in range(5):
        deep = [deep]
        dur *= 2
    t3 = Track().from_chords([deep])
    check([d for _, d, _ in t3.get_notes()] == [dur], "deep nesting")
    CASES[0] += 3


def main():
    try:
        for seed in range(300):
            sequence_case(seed)
        exhaustive_cases()
        instrument_cases()
        for seed in range(300):
            from_chords_case(seed)
        composition_cases()
        long_case()
    except Failure as e:
        print("PROPERTY VIOLATED: %s" % e)
        return 1
    print("ok, %d cases" % CASES[0])
    return 0


if __name__ == "__main__":
    sys.exit(main())
