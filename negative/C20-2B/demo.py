import mingus, os; assert os.path.realpath(mingus.__file__).startswith(os.path.realpath(os.path.dirname(__file__)))
"""Direct check of property C20 (tunings and tablature) through the public API.

Exits 0 when every case holds, 1 with a message otherwise.
"""
import itertools
import random
import sys

from mingus.containers import Bar, Composition, Note, NoteContainer, Track
from mingus.core import chords
from mingus.core import notes as core_notes
from mingus.core.mt_exceptions import FingerError, RangeError
from mingus.extra import tablature, tunings

CASES = [0]


def fail(msg):
    print("C20 VIOLATED: %s" % msg)
    sys.exit(1)


def check(cond, msg):
    CASES[0] += 1
    if not cond:
        fail(msg)


ALL = tunings.get_tunings()
rng = random.Random(2020)


def opens(t):
    """Sounding pitch (as integer) of every open string of tuning t."""
    res = []
    for s in t.tuning:
        if isinstance(s, list):
            s = s[0]
        res.append(int(s))
    return res


def label(t):
    return "%s / %s" % (t.instrument, t.description[:30])


# ---------------------------------------------------------------- 1. frets
def check_frets():
    check(len(ALL) >= 70, "fewer registered tunings than expected: %d" % len(ALL))
    for t in ALL:
        o = opens(t)
        check(t.count_strings() == len(o), "count_strings %s" % label(t))
        for n in range(128):
            note = Note(n)
            got = t.find_frets(note)
            exp = [n - b if 0 <= n - b <= 24 else None for b in o]
            check(got == exp, "find_frets default %s note %d: %r != %r" % (label(t), n, got, exp))
        for maxfret in (0, 1, 5, 12, 18, 30):
            for n in rng.sample(range(128), 16):
                exp = [n - b if 0 <= n - b <= maxfret else None for b in o]
                got = t.find_frets(Note(n), maxfret)
                check(got == exp, "find_frets %s note %d maxfret %d: %r" % (label(t), n, maxfret, got))
                got = t.find_frets(note=Note(n), maxfret=maxfret)
                check(got == exp, "find_frets keywords %s note %d maxfret %d" % (label(t), n, maxfret))
        # note given as a string
        for text in ("E-2", "A-3", "C#-4", "Bb-5", "G-6"):
            n = int(Note(text))
            exp = [n - b if 0 <= n - b <= 24 else None for b in o]
            check(t.find_frets(text) == exp, "find_frets string %s %s" % (label(t), text))
        # the same Note object used several times
        note = Note(57)
        first = t.find_frets(note)
        check(first == t.find_frets(note) and int(note) == 57, "find_frets reuse %s" % label(t))


# ------------------------------------------------------------- 2. get_Note
def check_get_note():
    for t in ALL:
        o = opens(t)
        for string in range(len(o)):
            for fret in range(0, 25):
                n = t.get_Note(string, fret)
                check(int(n) == o[string] + fret, "get_Note %s (%d,%d) -> %r" % (label(t), string, fret, n))
            n = t.get_Note(string=string, fret=3, maxfret=3)
            check(int(n) == o[string] + 3, "get_Note keywords %s" % label(t))
            for bad in (-1, 25, 40):
                try:
                    t.get_Note(string, bad)
                except RangeError:
                    check(True, "")
                else:
                    fail("get_Note %s fret %d accepted" % (label(t), bad))
            try:
                t.get_Note(string, 6, 5)
            except RangeError:
                check(True, "")
            else:
                fail("get_Note %s fret 6 with maxfret 5 accepted" % label(t))
        for bad in (-1, len(o), len(o) + 3):
            try:
                t.get_Note(bad, 0)
            except RangeError:
                check(True, "")
            else:
                fail("get_Note %s string %d accepted" % (label(t), bad))
        # round trip with find_frets
        for string in range(len(o)):
            for fret in (0, 7, 24):
                check(
                    t.find_frets(t.get_Note(string, fret))[string] == fret,
                    "round trip %s (%d,%d)" % (label(t), string, fret),
                )


# --------------------------------------------------------------- 3. lookup
def courses(t):
    total = 0
    for s in t.tuning:
        total += len(s) if isinstance(s, list) else 1
    return float(total) / len(t.tuning)


def check_lookup():
    instruments = tunings.get_instruments()
    upper = [i.upper() for i in instruments]

    def instrument_ok(t, search):
        if search is None:
            return True
        s = search.upper()
        if s in upper:
            return t.instrument.upper() == s
        return t.instrument.upper().startswith(s)

    searches = [None, "", "b", "ba", "Bass", "bass guitar", "Guitar", "guitar", "GUITAR B", "gui",
                "m", "Mandolin", "mandolin (", "violin", "V", "zzz", "Irish", "fiddle", "%s{0}\n"]
    for search in searches:
        for ns in (None, 3, 4, 5, 6, 7):
            for nc in (None, 1, 1.0, 2, 3, 1.6):
                got = tunings.get_tunings(search, ns, nc)
                exp = [
                    t for t in ALL
                    if instrument_ok(t, search)
                    and (ns is None or len(t.tuning) == ns)
                    and (nc is None or courses(t) == nc)
                ]
                check(all(any(g is e for e in exp) for g in got),
                      "get_tunings(%r,%r,%r) returned a tuning violating the constraints" % (search, ns, nc))
                check(len(got) == len(exp) and all(any(g is e for g in got) for e in exp),
                      "get_tunings(%r,%r,%r) misses a tuning" % (search, ns, nc))
    got = tunings.get_tunings(instrument="bass", nr_of_strings=5, nr_of_courses=1)
    check(len(got) == 2 and all(t.instrument == "Bass guitar" and len(t.tuning) == 5 for t in got),
          "get_tunings keywords")

    descs = ["", "s", "standard", "Standard tuning", "open", "irish", "drop d", "zz", "\"", "%d{"]
    for search in [s for s in searches if s is not None]:
        for d in descs:
            for ns in (None, 4, 6):
                for nc in (None, 1, 2):
                    t = tunings.get_tuning(search, d, ns, nc)
                    cands = [
                        x for x in ALL
                        if instrument_ok(x, search)
                        and x.description.upper().startswith(d.upper())
                        and (ns is None or len(x.tuning) == ns)
                        and (nc is None or courses(x) == nc)
                    ]
                    if t is None:
                        check(cands == [], "get_tuning(%r,%r,%r,%r) found nothing" % (search, d, ns, nc))
                    else:
                        check(any(t is c for c in cands),
                              "get_tuning(%r,%r,%r,%r) -> %s violates constraints" % (search, d, ns, nc, label(t)))
    t = tunings.get_tuning(instrument="guitar", description="standard", nr_of_strings=6, nr_of_courses=2)
    check(t is not None and courses(t) == 2.0 and len(t.tuning) == 6, "get_tuning keywords")
    for t in ALL:
        check(t.count_courses() == courses(t), "count_courses %s" % label(t))


# ------------------------------------------------------------ 4. fingering
def brute_fingerings(t, pitches, max_distance=4):
    o = opens(t)
    res = []
    for strings in itertools.permutations(range(len(o)), len(pitches)):
        frets = [p - o[s] for (s, p) in zip(strings, pitches)]
        if any(f < 0 or f > 24 for f in frets):
            continue
        pressed = [f for f in frets if f != 0]
        if pressed and not (max(pressed) - min(pressed) < max_distance):
            continue
        res.append(list(zip(strings, frets)))
    return res


def check_fingering():
    for t in ALL:
        o = opens(t)
        lo, hi = min(o), max(o) + 24
        for trial in range(6):
            k = rng.randint(1, min(len(o), 4))
            pitches = [rng.randint(max(0, lo - 2), min(127, hi + 2)) for _ in range(k)]
            if trial == 0:
                pitches = [o[0]]
            if trial == 1 and len(o) > 1:
                pitches = [o[0], o[1] + 2]
            for md in ((4,) if trial % 2 else (4, 2, 7)):
                forms = [[Note(p) for p in pitches]]
                if trial == 2:
                    forms.append(tuple(Note(p) for p in pitches))
                for form in forms:
                    if md == 4:
                        got = t.find_fingering(form)
                    else:
                        got = t.find_fingering(form, max_distance=md)
                    exp = brute_fingerings(t, pitches, md)
                    check(isinstance(got, list), "find_fingering type")
                    norm = sorted(tuple(map(tuple, f)) for f in got)
                    check(norm == sorted(tuple(f) for f in exp),
                          "find_fingering %s %r md=%d: %r != %r" % (label(t), pitches, md, got, exp))
                    totals = [sum(fr for (_, fr) in f) for f in got]
                    check(totals == sorted(totals),
                          "find_fingering %s %r not ordered by total fret: %r" % (label(t), pitches, totals))
                    for f in got:
                        check(len(set(s for (s, _) in f)) == len(f), "distinct strings")
                        check([o[s] + fr for (s, fr) in f] == pitches, "each sounding its note, in order")
        # more notes than strings: nothing
        many = [Note(o[0] + i) for i in range(len(o) + 1)]
        check(t.find_fingering(many) == [], "more notes than strings %s" % label(t))
    g = tunings.get_tuning("Guitar", "Standard", 6, 1)
    check(g.find_fingering([]) == [] and g.find_fingering(None) == [], "empty note sets")
    # strings, NoteContainer and a long list
    got = g.find_fingering(["E-2", "A-2", "D-3"])
    check(sorted(map(tuple, got)) == sorted(map(tuple, brute_fingerings(g, [int(Note(x)) for x in ("E-2", "A-2", "D-3")]))), "string notes")
    nc = NoteContainer(["C-3", "E-3", "G-3"])
    got = g.find_fingering(nc)
    check(sorted(map(tuple, got)) == sorted(map(tuple, brute_fingerings(g, [int(Note(x)) for x in ("C-3", "E-3", "G-3")]))), "NoteContainer")
    check(g.find_fingering([Note(60 + i) for i in range(60)]) == [], "sixty notes")
    sixp = [28, 35, 40, 44, 47, 52]
    six = [Note(p) for p in sixp]
    got = g.find_fingering(six)
    check(sorted(map(tuple, got)) == sorted(map(tuple, brute_fingerings(g, sixp))), "six notes")
    # the same note twice needs two strings
    got = g.find_fingering([Note(47), Note(47)])
    check(sorted(map(tuple, got)) == sorted(map(tuple, brute_fingerings(g, [47, 47]))), "same pitch twice")


# ------------------------------------------------------ 5. chord fingering
def check_chords():
    guitars = [t for t in tunings.get_tunings("Guitar", 6, 1)]
    guitars += tunings.get_tunings("Ukulele") + tunings.get_tunings("Tenor guitar")
    guitars += tunings.get_tunings("Requinto") + tunings.get_tunings("Baritone guitar")
    shorthands = ["", "m", "7", "m7", "M7", "dim", "aug", "sus4", "6", "m6", "9", "7b5"]
    roots = ["C", "F#", "Bb", "E", "A", "D", "G", "Eb"]
    combos = [(r, s) for r in roots for s in shorthands]
    for t in guitars:
        o = opens(t)
        for (root, sh) in rng.sample(combos, 7):
            names = chords.from_shorthand(root + sh)
            pcs = set(core_notes.note_to_int(n) for n in names)
            for (md, mf, fingers) in ((4, 18, 4), (3, 12, 3)):
                if (md, mf, fingers) == (4, 18, 4):
                    got = t.find_chord_fingering(NoteContainer().from_chord(root + sh))
                else:
                    got = t.find_chord_fingering(
                        NoteContainer().from_chord(root + sh), max_distance=md, maxfret=mf, max_fingers=fingers
                    )
                check(isinstance(got, list), "chord fingering type")
                for f in got:
                    what = "%s %s%s %r" % (label(t), root, sh, f)
                    check(len(f) == len(o), "one entry per string: " + what)
                    check(all(x is None or 0 <= x <= mf for x in f), "fret range: " + what)
                    sounding = set((o[i] + x) % 12 for (i, x) in enumerate(f) if x is not None)
                    check(sounding <= pcs, "foreign pitch class: " + what)
                    check(sounding == pcs, "chord not covered: " + what)
                    pressed = [x for x in f if x]
                    check(not pressed or max(pressed) - min(pressed) < md, "span: " + what)
                    check(tunings.fingers_needed(f) <= fingers, "fingers: " + what)
    std = tunings.get_tuning("Guitar", "Standard", 6, 1)
    got = std.find_chord_fingering(["A", "C", "E"])
    check(len(got) > 0 and all(len(f) == 6 for f in got), "chord from note names")
    best = std.find_chord_fingering(NoteContainer().from_chord("Am"), return_best_as_NoteContainer=True)
    check(set(int(n) % 12 for n in best) == set([9, 0, 4]), "best as NoteContainer")


# ------------------------------------------------------------ 6. tablature
PLAIN = [t for t in ALL if not any(isinstance(s, list) for s in t.tuning)]


def string_lines(block, nstrings, what):
    """The string lines of a block, lowest string first."""
    check(len(block) == nstrings, "%s: %d lines for %d strings" % (what, len(block), nstrings))
    check(len(set(len(x) for x in block)) == 1, "%s: lines differ in length:\n%s" % (what, "\n".join(block)))
    return list(reversed(block))


def read_columns(lines, what):
    """Read fret numbers column by column. Returns a list of {string: fret}."""
    bodies = []
    for ln in lines:
        check("||" in ln, "%s: no bar start in %r" % (what, ln))
        bodies.append(ln[ln.index("||") + 2:])
    width = len(bodies[0])
    used = [any(b[c].isdigit() or b[c] == " " for b in bodies) for c in range(width)]
    entries = []
    c = 0
    while c < width:
        if used[c]:
            start = c
            while c < width and used[c]:
                c += 1
            cell = {}
            for (i, b) in enumerate(bodies):
                text = b[start:c].strip(" -")
                if text:
                    check(text.isdigit(), "%s: odd cell %r" % (what, b[start:c]))
                    cell[i] = int(text)
            entries.append(cell)
        else:
            c += 1
    return entries


def pitches_of(cell, o):
    return sorted(o[s] + f for (s, f) in cell.items())


def random_playable(t, k):
    """k pitches that certainly have a fingering on tuning t."""
    o = opens(t)
    for _ in range(50):
        strings = rng.sample(range(len(o)), k)
        base = rng.randint(0, 12)
        ps = sorted(set(o[s] + rng.choice([0, base, base + 1, base + 2]) for s in strings))
        if t.find_fingering([Note(p) for p in ps]):
            return ps
    return [o[0]]


def check_tab_notes():
    for t in PLAIN:
        o = opens(t)
        for width in (12, 30, 80):
            for n in (min(o), min(o) + 13, max(o) + 3, max(o) + 24):
                for form in (Note(n), ):
                    s = tablature.from_Note(form, width, t)
                    lines = string_lines(s.split(os.linesep), len(o), "from_Note %s" % label(t))
                    cells = read_columns(lines, "from_Note")
                    check(len(cells) == 1 and pitches_of(cells[0], o) == [n],
                          "from_Note %s %d width %d:\n%s" % (label(t), n, width, s))
            for bad in (min(o) - 1, max(o) + 25):
                try:
                    tablature.from_Note(Note(bad), width, t)
                except RangeError:
                    check(True, "")
                else:
                    fail("from_Note %s accepted unplayable %d" % (label(t), bad))
            for k in (1, 2, min(3, len(o))):
                ps = random_playable(t, k)
                for form in ([Note(p) for p in ps], NoteContainer([Note(p) for p in ps])):
                    s = tablature.from_NoteContainer(form, width, t)
                    lines = string_lines(s.split(os.linesep), len(o), "from_NoteContainer %s" % label(t))
                    cells = read_columns(lines, "from_NoteContainer")
                    check(len(cells) == 1 and pitches_of(cells[0], o) == sorted(ps),
                          "from_NoteContainer %s %r width %d:\n%s" % (label(t), ps, width, s))
            try:
                tablature.from_NoteContainer([Note(min(o) - 1), Note(min(o))], width, t)
            except (FingerError, RangeError):
                check(True, "")
            else:
                fail("from_NoteContainer %s accepted unplayable set" % label(t))
    # default tuning, keyword arguments, note strings
    s = tablature.from_Note(note="A-3", width=40, tuning=None)
    cells = read_columns(string_lines(s.split(os.linesep), 6, "default"), "default")
    check(pitches_of(cells[0], opens(tablature.default_tuning)) == [int(Note("A-3"))], "from_Note default tuning")
    s = tablature.from_NoteContainer(notes=["E-2", "B-2", "E-3"], width=40)
    cells = read_columns(string_lines(s.split(os.linesep), 6, "default"), "default")
    check(pitches_of(cells[0], opens(tablature.default_tuning)) == [int(Note(x)) for x in ("E-2", "B-2", "E-3")], "from_NoteContainer default tuning")
    # notes carrying string / fret hints
    g = tunings.get_tuning("Guitar", "Standard", 6, 1)
    n = Note("A-3"); n.string = 1; n.fret = 12
    cells = read_columns(string_lines(tablature.from_Note(n, 40, g).split(os.linesep), 6, "hint"), "hint")
    check(pitches_of(cells[0], opens(g)) == [int(Note("A-3"))], "from_Note with hint")
    n = Note("A-3"); n.string = 0; n.fret = 3  # wrong hint: sounds G-2
    cells = read_columns(string_lines(tablature.from_Note(n, 40, g).split(os.linesep), 6, "hint"), "hint")
    check(pitches_of(cells[0], opens(g)) == [int(Note("A-3"))], "from_Note with misleading hint")
    a = Note("A-3"); a.string = 1; a.fret = 12
    e = Note("E-4"); e.string = 2; e.fret = 14
    s = tablature.from_NoteContainer([a, e], 40, g)
    cells = read_columns(string_lines(s.split(os.linesep), 6, "hint"), "hint")
    check(pitches_of(cells[0], opens(g)) == [int(Note("A-3")), int(Note("E-4"))], "from_NoteContainer with hints")


def random_bar(t, meter=(4, 4)):
    """A full bar of random playable entries; returns (bar, [sorted pitches])."""
    b = Bar("C", meter)
    expected = []
    o = opens(t)
    while not b.is_full():
        dur = rng.choice([2, 4, 4, 8, 8])
        if b.current_beat + 1.0 / dur > b.length + 1e-9:
            dur = 8
            if b.current_beat + 1.0 / dur > b.length + 1e-9:
                break
        kind = rng.random()
        if kind < 0.15:
            b.place_rest(dur)
            continue
        k = 1 if kind < 0.5 else rng.randint(1, min(3, len(o)))
        ps = random_playable(t, k)
        nc = NoteContainer([Note(p) for p in ps])
        if kind > 0.9:
            # a hint on one of the notes (may or may not be usable)
            nc[0].string = rng.randrange(len(o))
            nc[0].fret = rng.randint(0, 12)
        b.place_notes(nc, dur)
        expected.append(sorted(int(n) for n in nc))
    return b, expected


def decode_bar_lines(lines, t, what):
    """lines: marker line + one line per string (highest string first)."""
    o = opens(t)
    check(len(set(len(x) for x in lines)) == 1, "%s: lines differ in length:\n%s" % (what, "\n".join(lines)))
    strings = string_lines(lines[1:], len(o), what)
    return [pitches_of(c, o) for c in read_columns(strings, what)]


def check_tab_bars():
    some = [t for t in PLAIN if t.instrument in
            ("Guitar", "Bass guitar", "Ukulele", "Violin", "Cello", "Banjo (5-string)", "Dulcimer", "Mejorana")]
    for t in some:
        for width in (40, 60, 77, 120):
            for meter in ((4, 4), (3, 4), (6, 8)):
                b, expected = random_bar(t, meter)
                if not expected:
                    continue
                s = tablature.from_Bar(b, width, t)
                what = "from_Bar %s width %d" % (label(t), width)
                got = decode_bar_lines(s.split(os.linesep), t, what)
                check(got == expected, "%s: %r != %r\n%s" % (what, got, expected, s))
                lst = tablature.from_Bar(b, width, t, collapse=False)
                check(isinstance(lst, list) and os.linesep.join(lst) == s, what + " collapse=False")
                # rendering twice gives the same pitches and leaves the bar alone
                got2 = decode_bar_lines(tablature.from_Bar(bar=b, width=width, tuning=t).split(os.linesep), t, what)
                check(got2 == expected, what + " second rendering")
        # unplayable entries
        o = opens(t)
        b = Bar()
        b.place_notes(NoteContainer([Note(o[0])]), 4)
        b.place_notes(NoteContainer([Note(min(o) - 1)]), 4)
        try:
            tablature.from_Bar(b, 40, t)
        except (FingerError, RangeError):
            check(True, "")
        else:
            fail("from_Bar %s accepted an unplayable note" % label(t))
        b = Bar()
        b.place_notes(NoteContainer([Note(o[0] + i) for i in range(len(o) + 1)]), 4)
        try:
            tablature.from_Bar(b, 40, t)
        except (FingerError, RangeError):
            check(True, "")
        else:
            fail("from_Bar %s accepted more notes than strings" % label(t))
    # default tuning
    b, expected = random_bar(tablature.default_tuning)
    got = decode_bar_lines(tablature.from_Bar(b).split(os.linesep), tablature.default_tuning, "from_Bar default")
    check(got == expected, "from_Bar default tuning")


def blocks_of(text):
    blocks, cur = [], []
    for ln in text.split(os.linesep):
        if ln == "":
            if cur:
                blocks.append(cur)
            cur = []
        else:
            cur.append(ln)
    if cur:
        blocks.append(cur)
    return blocks


def random_track(t, nbars):
    tr = Track()
    expected = []
    for _ in range(nbars):
        b, e = random_bar(t)
        tr.add_bar(b)
        expected += e
    return tr, expected


def check_tab_tracks():
    some = [t for t in PLAIN if t.instrument in ("Guitar", "Bass guitar", "Ukulele", "Fiddle", "Tenor guitar")]
    for t in some:
        for maxwidth in (50, 80, 100, 130, 200):
            tr, expected = random_track(t, rng.randint(1, 6))
            for mode in ("argument", "attribute"):
                if mode == "argument":
                    s = tablature.from_Track(tr, maxwidth, t)
                else:
                    tr.set_tuning(t)
                    s = tablature.from_Track(track=tr, maxwidth=maxwidth)
                what = "from_Track %s maxwidth %d" % (label(t), maxwidth)
                got = []
                for block in blocks_of(s):
                    got += decode_bar_lines(block, t, what)
                check(got == expected, "%s: %r != %r\n%s" % (what, got, expected, s))
    # a track without a tuning uses the default one
    tr, expected = random_track(tablature.default_tuning, 3)
    got = []
    for block in blocks_of(tablature.from_Track(tr)):
        got += decode_bar_lines(block, tablature.default_tuning, "from_Track default")
    check(got == expected, "from_Track default tuning")


def check_tab_compositions():
    pool = [t for t in PLAIN if t.instrument in ("Guitar", "Bass guitar", "Ukulele", "Violin", "Cello")]
    texts = [("Untitled", "", "", "", ""),
             ("Suite {0} %s", "sub %d title", "A. Author", "a@b.c", "some words " * 30),
             ("x", "", "", "mail@only", "12 34 || 5-6-7 |")]
    for trial in range(12):
        for width in (60, 80, 100, 150):
            ntracks = rng.randint(1, 3)
            nbars = rng.randint(1, 5)
            c = Composition()
            (c.title, c.subtitle, c.author, c.email, c.description) = texts[trial % 3]
            tracks = []
            for _ in range(ntracks):
                t = rng.choice(pool)
                tr, expected = random_track(t, nbars)
                tr.set_tuning(t)
                c.add_track(tr)
                tracks.append((t, expected))
            s = tablature.from_Composition(c, width)
            header = tablature.add_headers(width, c.title, c.subtitle, c.author, c.email, c.description,
                                           [t for (t, _) in tracks])
            lines = s.split(os.linesep)
            check(lines[:len(header)] == header, "composition header")
            body = os.linesep.join(lines[len(header):])
            got = [[] for _ in tracks]
            what = "from_Composition width %d" % width
            for block in blocks_of(body):
                pos = 0
                for (i, (t, _)) in enumerate(tracks):
                    if i > 0:
                        # two connecting lines between the tracks
                        check(block[pos].strip() == "||" and block[pos + 1].strip() == "||",
                              what + ": connecting lines expected")
                        pos += 2
                    n = len(t.tuning) + 1
                    part = block[pos:pos + n]
                    pos += n
                    got[i] += decode_bar_lines(part, t, what)
                check(pos == len(block), what + ": stray lines in system")
            for (i, (t, expected)) in enumerate(tracks):
                check(got[i] == expected, "%s track %d: %r != %r\n%s" % (what, i, got[i], expected, s))


def main():
    check_frets()
    check_get_note()
    check_lookup()
    check_fingering()
    check_chords()
    check_tab_notes()
    check_tab_bars()
    check_tab_tracks()
    check_tab_compositions()
    print("C20 holds on %d checks" % CASES[0])
    sys.exit(0)


if __name__ == "__main__":
    main()
