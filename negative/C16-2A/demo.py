import mingus, os; assert os.path.realpath(mingus.__file__).startswith(os.path.realpath(os.path.dirname(__file__)))

# Direct check of property C16: MIDI output is well-formed SMF that denotes
# exactly the music written.  Own, independent SMF reader below.
import random
import sys
import tempfile
from collections import Counter

from mingus.containers import Bar, Composition, Note, NoteContainer, Track
from mingus.containers.instrument import MidiInstrument
from mingus.midi import midi_file_out
from mingus.midi.midi_track import MidiTrack

CASES = 0


class Bad(Exception):
    pass


def need(cond, msg):
    if not cond:
        raise Bad(msg)


# ---------------------------------------------------------------- SMF reader
def read_vlq(data, pos, end):
    value = 0
    for n in range(4):
        need(pos < end, "delta time / length runs past the end of its chunk")
        b = data[pos]
        pos += 1
        value = (value << 7) | (b & 0x7F)
        if not b & 0x80:
            return value, pos
    raise Bad("variable-length quantity longer than 4 bytes")


def parse_smf(data):
    need(data[:4] == b"MThd", "no MThd")
    need(int.from_bytes(data[4:8], "big") == 6, "header length is not 6")
    fmt = int.from_bytes(data[8:10], "big")
    ntrks = int.from_bytes(data[10:12], "big")
    division = int.from_bytes(data[12:14], "big")
    need(fmt == 1, "format %d" % fmt)
    need(division == 72, "division %d" % division)
    pos = 14
    tracks = []
    while pos < len(data):
        need(data[pos:pos + 4] == b"MTrk", "chunk at %d is not MTrk" % pos)
        need(pos + 8 <= len(data), "truncated chunk header")
        length = int.from_bytes(data[pos + 4:pos + 8], "big")
        start = pos + 8
        end = start + length
        need(end <= len(data), "chunk length runs past end of file")
        tracks.append(parse_track(data, start, end))
        pos = end
    need(ntrks == len(tracks), "header declares %d tracks, %d chunks follow" % (ntrks, len(tracks)))
    return tracks


def parse_track(data, pos, end):
    events = []
    tick = 0
    running = None
    ended = False
    while pos < end:
        need(not ended, "events after end-of-track")
        delta, pos = read_vlq(data, pos, end)
        tick += delta
        need(pos < end, "event missing after delta time")
        status = data[pos]
        if status == 0xFF:
            need(pos + 2 <= end, "truncated meta event")
            mtype = data[pos + 1]
            need(mtype < 0x80, "meta type >= 0x80")
            length, p = read_vlq(data, pos + 2, end)
            need(p + length <= end, "meta event data runs past chunk")
            payload = bytes(data[p:p + length])
            pos = p + length
            running = None
            if mtype == 0x2F:
                need(length == 0, "end-of-track with data")
                ended = True
            elif mtype == 0x51:
                need(length == 3, "tempo length %d" % length)
            elif mtype == 0x58:
                need(length == 4, "time signature length %d" % length)
            elif mtype == 0x59:
                need(length == 2, "key signature length %d" % length)
            events.append((tick, "meta", mtype, payload))
        elif status in (0xF0, 0xF7):
            length, p = read_vlq(data, pos + 1, end)
            need(p + length <= end, "sysex runs past chunk")
            pos = p + length
            running = None
            events.append((tick, "sysex", status, bytes(data[p:p + length])))
        else:
            if status & 0x80:
                need(status < 0xF0, "unexpected status byte %02x" % status)
                running = status
                pos += 1
            else:
                need(running is not None, "data byte %02x without running status" % status)
                status = running
            kind = status >> 4
            n = 1 if kind in (0xC, 0xD) else 2
            need(pos + n <= end, "truncated channel event")
            params = tuple(data[pos:pos + n])
            need(all(x < 0x80 for x in params), "data byte >= 0x80 in channel event")
            pos += n
            events.append((tick, "ch", kind, status & 0x0F, params))
    need(ended, "chunk does not end in end-of-track")
    return events


# ------------------------------------------------------------------- oracle
MAJOR = ["Cb", "Gb", "Db", "Ab", "Eb", "Bb", "F", "C", "G", "D", "A", "E", "B", "F#", "C#"]
MINOR = ["ab", "eb", "bb", "f", "c", "g", "d", "a", "e", "b", "f#", "c#", "g#", "d#", "a#"]
ALL_KEYS = MAJOR + MINOR


def key_sig(name):
    if name in MAJOR:
        return (MAJOR.index(name) - 7, 0)
    return (MINOR.index(name) - 7, 1)


def log2(n):
    r = 0
    while (1 << r) < n:
        r += 1
    assert (1 << r) == n
    return r


def expect_bars(bars, repeat):
    """Expected (ons, offs, signatures, first_channel) for a sequence of bars."""
    ons, offs, sigs = [], [], []
    first_channel = None
    tick = 0
    for _ in range(repeat + 1):
        for bar in bars:
            sigs.append((tick, bar.meter, bar.key.key))
            for entry in bar.bar:
                dur = int(round(288 / entry[1]))
                nc = entry[2]
                if nc is not None and len(nc) > 0:
                    for n in nc:
                        if first_channel is None:
                            first_channel = n.channel
                        ons.append((tick, int(n) + 12, n.channel, n.velocity))
                        offs.append((tick + dur, int(n) + 12, n.channel, n.velocity))
                tick += dur
    return ons, offs, sigs, first_channel


def check_track(events, ons, offs, bpm, sigs=None, name=None, instr=None, first_channel=None, reps=1):
    got_on, got_off = [], []
    active = set()
    for ev in events:
        if ev[1] != "ch":
            continue
        tick, _, kind, ch, params = ev
        if kind == 9:
            need((ch, params[0]) not in active, "note %r overlaps itself at tick %d" % (params[0], tick))
            active.add((ch, params[0]))
            got_on.append((tick, params[0], ch, params[1]))
        elif kind == 8:
            need((ch, params[0]) in active, "note-off without sounding note at tick %d" % tick)
            active.remove((ch, params[0]))
            got_off.append((tick, params[0], ch, params[1]))
    need(not active, "hanging notes %r" % sorted(active))
    need(Counter(got_on) == Counter(ons), "note-ons differ:\n got %r\n exp %r" % (sorted(got_on), sorted(ons)))
    need(Counter(got_off) == Counter(offs), "note-offs differ:\n got %r\n exp %r" % (sorted(got_off), sorted(offs)))

    tempi = [int.from_bytes(e[3], "big") for e in events if e[1] == "meta" and e[2] == 0x51]
    need(tempi and all(t == 60000000 // bpm for t in tempi), "tempo %r for bpm %r" % (tempi, bpm))
    need(events[0][0] == 0 and events[0][1] == "meta" and events[0][2] == 0x51, "tempo is not set at the start")

    if name is not None:
        names = [e[3] for e in events if e[1] == "meta" and e[2] == 0x03]
        need(names and all(x == name.encode("ascii") for x in names), "track name %r, expected %r" % (names, name))

    if sigs is not None:
        got_ts = [(e[0], e[3][0], e[3][1]) for e in events if e[1] == "meta" and e[2] == 0x58]
        got_ks = [(e[0], e[3][0] - 256 if e[3][0] > 127 else e[3][0], e[3][1]) for e in events if e[1] == "meta" and e[2] == 0x59]
        exp_ts = [(t, m[0], log2(m[1])) for (t, m, k) in sigs]
        exp_ks = [(t,) + key_sig(k) for (t, m, k) in sigs]
        # a trailing bar start may lie after the last sounding event; its tick is still fixed
        need(got_ts == exp_ts, "time signatures %r, expected %r" % (got_ts, exp_ts))
        need(got_ks == exp_ks, "key signatures %r, expected %r" % (got_ks, exp_ks))

    progs = [(i, e) for i, e in enumerate(events) if e[1] == "ch" and e[2] == 0xC]
    banks = [(i, e) for i, e in enumerate(events) if e[1] == "ch" and e[2] == 0xB and e[4][0] == 0]
    if instr is not None and ons:
        first_on = min(i for i, e in enumerate(events) if e[1] == "ch" and e[2] == 9)
        need(len(progs) == reps and len(banks) == reps, "expected %d program changes / bank selects, got %d / %d" % (reps, len(progs), len(banks)))
        need(progs[0][0] < first_on and banks[0][0] < progs[0][0], "bank select, program change, first note are not in this order")
        need(events[progs[0][0]][0] == events[first_on][0] == events[banks[0][0]][0], "instrument not set at the first note's tick")
        for (_, e) in progs:
            need(e[3] == first_channel and e[4][0] == instr, "program change %r, expected nr %r on channel %r" % (e, instr, first_channel))
        for (_, e) in banks:
            need(e[3] == first_channel, "bank select on channel %r, expected %r" % (e[3], first_channel))
    else:
        need(not progs, "unexpected program change")


# --------------------------------------------------------------- generators
TMP = tempfile.mkdtemp(prefix="c16demo")


def written(func, *args, **kwargs):
    path = os.path.join(TMP, "out.mid")
    if os.path.exists(path):
        os.remove(path)
    res = func(path, *args, **kwargs)
    need(res is True, "%s returned %r" % (func.__name__, res))
    with open(path, "rb") as f:
        return f.read()


NAMES = ["C", "C#", "Db", "D", "Eb", "E", "F", "F#", "G", "Ab", "A", "Bb", "B", "B#", "Cb", "E#", "Fb", "C##", "Dbb"]


def rnd_note(rng, channel=None):
    while True:
        n = Note(rng.choice(NAMES), rng.randint(0, 9))
        if 0 <= int(n) + 12 <= 127:
            break
    n.channel = rng.randint(0, 15) if channel is None else channel
    n.velocity = rng.choice([0, 1, 63, 64, 100, 126, 127, rng.randint(0, 127)])
    return n


def rnd_container(rng, size=None):
    nc = NoteContainer()
    for _ in range(size if size is not None else rng.choice([1, 1, 2, 3, 4, 6])):
        nc.add_note(rnd_note(rng))
    return nc


METERS = [(4, 4), (3, 4), (2, 2), (6, 8), (12, 8), (5, 4), (7, 8), (9, 16), (2, 4), (1, 1), (3, 2), (15, 16), (4, 32)]
VALUES = [1, 2, 4, 8, 16, 32, 3, 6, 12, 24, 48, 96, 5, 7, 9, 10, 11, 20, 64, 128, 4 / 1.5, 8 / 1.5, 2 / 1.5, 16 / 1.75, 13, 100]


def rnd_bar(rng, key=None, mode="mixed"):
    bar = Bar(key if key is not None else rng.choice(ALL_KEYS), rng.choice(METERS))
    if mode == "empty":
        return bar
    if mode == "wholerest":
        bar.place_rest(1.0 / bar.length) if bar.length else None
        return bar
    tries = 0
    while not bar.is_full() and tries < 30:
        tries += 1
        v = rng.choice(VALUES)
        r = rng.random()
        if mode == "rests" or r < 0.3:
            bar.place_rest(v)
        elif r < 0.35:
            bar.place_notes(NoteContainer(), v)  # an empty container is a rest as well
        else:
            bar.place_notes(rnd_container(rng), v)
    return bar


def rnd_track(rng, nbars=None, with_instr=None):
    t = Track()
    n = rng.randint(0, 4) if nbars is None else nbars
    for _ in range(n):
        t.add_bar(rnd_bar(rng, mode=rng.choice(["mixed"] * 6 + ["empty", "wholerest", "rests"])))
    if rng.random() < 0.7:
        t.name = rng.choice(["lead", "a{b}", "100%", "two\nlines", "", "x" * 130, "%s %d {0}", "Track Name Test", "~!@#$^&*()"])
    if with_instr or (with_instr is None and rng.random() < 0.5):
        i = MidiInstrument()
        i.instrument_nr = rng.choice([0, 1, 13, 64, 127, rng.randint(0, 127)])
        t.instrument = i
    return t


def track_args(t, repeat):
    ons, offs, sigs, first = expect_bars(t.bars, repeat)
    nr = getattr(t.instrument, "instrument_nr", None)
    return dict(ons=ons, offs=offs, sigs=sigs, name=t.name, instr=nr, first_channel=first, reps=repeat + 1)


def run(label, fn):
    global CASES
    CASES += 1
    try:
        fn()
    except Bad as e:
        print("C16 violated in case %r: %s" % (label, e))
        sys.exit(1)


# -------------------------------------------------------------------- cases
def case_note(rng, i):
    n = rnd_note(rng)
    if i < 16:
        n.channel = i
    bpm = rng.choice([120, 60, 4, 250, 7, 33, 1000, 60000000])
    repeat = rng.choice([0, 0, 1, 2, 5])
    if i % 2:
        data = written(midi_file_out.write_Note, n, bpm, repeat)
    else:
        data = written(midi_file_out.write_Note, note=n, repeat=repeat, bpm=bpm, verbose=False)
    tracks = parse_smf(data)
    need(len(tracks) == 1, "one track expected")
    p = int(n) + 12
    ons = [(72 * k, p, n.channel, n.velocity) for k in range(repeat + 1)]
    offs = [(72 * (k + 1), p, n.channel, n.velocity) for k in range(repeat + 1)]
    check_track(tracks[0], ons, offs, bpm)


def case_container(rng, i):
    nc = rnd_container(rng, size=[1, 2, 3, 5, 8][i % 5])
    bpm = rng.choice([120, 90, 4, 200])
    repeat = rng.choice([0, 1, 3])
    data = written(midi_file_out.write_NoteContainer, nc, bpm=bpm, repeat=repeat)
    tracks = parse_smf(data)
    need(len(tracks) == 1, "one track expected")
    ons = [(72 * k, int(n) + 12, n.channel, n.velocity) for k in range(repeat + 1) for n in nc]
    offs = [(72 * (k + 1), int(n) + 12, n.channel, n.velocity) for k in range(repeat + 1) for n in nc]
    check_track(tracks[0], ons, offs, bpm)


def case_bar(rng, i):
    key = ALL_KEYS[i % 30]
    bar = rnd_bar(rng, key=key, mode=["mixed", "mixed", "mixed", "rests", "empty", "wholerest"][i % 6])
    bpm = rng.choice([120, 77, 300])
    repeat = rng.choice([0, 1, 2, 4])
    data = written(midi_file_out.write_Bar, bar, bpm, repeat=repeat)
    tracks = parse_smf(data)
    need(len(tracks) == 1, "one track expected")
    ons, offs, sigs, first = expect_bars([bar], repeat)
    check_track(tracks[0], ons, offs, bpm, sigs=sigs)


def case_track(rng, i):
    t = rnd_track(rng, with_instr=(True if i % 3 == 0 else None))
    bpm = rng.choice([120, 45, 180])
    repeat = rng.choice([0, 0, 1, 2])
    data = written(midi_file_out.write_Track, t, bpm, repeat)
    tracks = parse_smf(data)
    need(len(tracks) == 1, "one track expected")
    check_track(tracks[0], bpm=bpm, **track_args(t, repeat))


def case_composition(rng, i):
    c = Composition()
    shared = rnd_track(rng)
    for k in range(1 + i % 4):
        c.add_track(shared if (k == 2 and i % 5 == 0) else rnd_track(rng))
    bpm = rng.choice([120, 100, 240])
    repeat = rng.choice([0, 0, 1, 2])
    data = written(midi_file_out.write_Composition, c, bpm, repeat)
    tracks = parse_smf(data)
    need(len(tracks) == len(c.tracks), "%d track chunks for %d tracks" % (len(tracks), len(c.tracks)))
    for t, ev in zip(c.tracks, tracks):
        check_track(ev, bpm=bpm, **track_args(t, repeat))


def case_systematic():
    # every channel / extreme velocities / lowest and highest pitch inside one bar each
    for ch in range(16):
        for vel in (0, 1, 127):
            b = Bar("C", (4, 4))
            lo, hi = Note("C", 0), Note("G", 9)
            for n in (lo, hi):
                n.channel, n.velocity = ch, vel
            b.place_rest(4)
            b.place_notes(NoteContainer([lo, hi]), 4)
            b.place_notes(NoteContainer([lo]), 8)
            b.place_notes(NoteContainer([lo]), 8)
            b.place_rest(4)
            t = Track()
            t.add_bar(b)
            t.add_bar(b)  # the same object twice
            inst = MidiInstrument()
            inst.instrument_nr = (ch * 8 + vel) % 128
            t.instrument = inst
            t.name = "ch%d" % ch
            data = written(midi_file_out.write_Track, t, repeat=1)
            tracks = parse_smf(data)
            check_track(tracks[0], bpm=120, **track_args(t, 1))
    # a long track
    rng = random.Random(99)
    t = rnd_track(rng, nbars=150, with_instr=True)
    data = written(midi_file_out.write_Track, t, 120, 1)
    check_track(parse_smf(data)[0], bpm=120, **track_args(t, 1))
    # MidiTrack / MidiFile used directly
    t2 = rnd_track(rng, nbars=3, with_instr=False)
    mt = MidiTrack(90)
    mt.play_Track(t2)
    mf = midi_file_out.MidiFile([mt])
    tracks = parse_smf(mf.get_midi_data())
    check_track(tracks[0], bpm=90, **track_args(t2, 0))
    need(mt.get_midi_data() == mt.header() + mt.track_data + mt.end_of_track(), "track chunk pieces")


def std_vlq(n):
    out = [n & 0x7F]
    n >>= 7
    while n:
        out.append((n & 0x7F) | 0x80)
        n >>= 7
    return bytes(reversed(out))


def case_vlq():
    mt = MidiTrack()
    values = set(range(0, 40000))
    for k in range(0, 29):
        for d in range(-40, 41):
            values.add((1 << k) + d)
    for k in (7, 14, 21, 28):
        for m in range(1, 130):
            for d in (-1, 0, 1):
                values.add(m * (1 << k) + d)
    rng = random.Random(5)
    for _ in range(20000):
        values.add(rng.randrange(0, 1 << 28))
    for v in sorted(values):
        if 0 <= v < (1 << 28):
            got = mt.int_to_varbyte(v)
            need(isinstance(got, bytes) and got == std_vlq(v), "int_to_varbyte(%d) = %r, standard %r" % (v, got, std_vlq(v)))
    # asked a second time (and through another object) the answer is the same
    other = MidiTrack(200)
    for v in (0, 1, 127, 128, 16383, 16384, 2097151, 2097152, (1 << 28) - 1):
        need(mt.int_to_varbyte(v) == other.int_to_varbyte(value=v) == std_vlq(v), "int_to_varbyte(%d) repeated" % v)


def main():
    rng = random.Random(20260928)
    for i in range(40):
        run("note %d" % i, lambda: case_note(rng, i))
    for i in range(40):
        run("container %d" % i, lambda: case_container(rng, i))
    for i in range(120):
        run("bar %d" % i, lambda: case_bar(rng, i))
    for i in range(120):
        run("track %d" % i, lambda: case_track(rng, i))
    for i in range(80):
        run("composition %d" % i, lambda: case_composition(rng, i))
    run("systematic", case_systematic)
    run("vlq", case_vlq)
    print("C16 holds on %d cases" % CASES)
    sys.exit(0)


if __name__ == "__main__":
    main()
