import mingus, os; assert os.path.realpath(mingus.__file__).startswith(os.path.realpath(os.path.dirname(__file__)))
"""Direct check of property C18 (sequencer event stream) through the public API.

Exit 0 when the statement holds on every generated case, 1 (with a message)
otherwise.  Only what the statement promises is checked:
  * hooks of the sequencer and callbacks of an attached observer see the same
    low level event sequence (play / stop / cc / instr / sleep),
  * every sounding note: one play (int(note)+12, note.channel, note.velocity),
    one stop (same pitch, channel) one entry-duration later; plays of a voice in
    order; nothing left sounding, nothing stopped that was not sounding,
  * total sleep = 240/bpm seconds per whole note, following container tempi,
  * play_Tracks / play_Composition first announce one instrument per track,
  * attach twice / detach, control change refusal, returned final tempo.
The order of independent events falling on the same instant (stops of different
notes, events of different tracks) is NOT checked.
"""
import random
import sys
from collections import Counter, defaultdict
from fractions import Fraction

from mingus.containers import Bar, Composition, Note, NoteContainer, Track
from mingus.containers.instrument import Instrument, MidiInstrument
from mingus.midi.sequencer import Sequencer
from mingus.midi.sequencer_observer import SequencerObserver

EPS = 1e-6


class Fail(Exception):
    pass


def check(cond, msg):
    if not cond:
        raise Fail(msg)


class RecSeq(Sequencer):
    def init(self):
        self.log = []

    def play_event(self, note, channel, velocity):
        self.log.append(("play", note, channel, velocity))

    def stop_event(self, note, channel):
        self.log.append(("stop", note, channel))

    def cc_event(self, channel, control, value):
        self.log.append(("cc", channel, control, value))

    def instr_event(self, channel, instr, bank):
        self.log.append(("instr", channel, instr))

    def sleep(self, seconds):
        self.log.append(("sleep", seconds))


class RecObs(SequencerObserver):
    def __init__(self):
        self.log = []

    def play_int_note_event(self, int_note, channel, velocity):
        self.log.append(("play", int_note, channel, velocity))

    def stop_int_note_event(self, int_note, channel):
        self.log.append(("stop", int_note, channel))

    def cc_event(self, channel, control, value):
        self.log.append(("cc", channel, control, value))

    def instr_event(self, channel, instr, bank):
        self.log.append(("instr", channel, instr))

    def sleep(self, seconds):
        self.log.append(("sleep", seconds))


def fresh():
    s = RecSeq()
    o = RecObs()
    s.attach(o)
    return s, o


def same_logs(s, o, what):
    check(len(s.log) == len(o.log), "%s: hooks saw %d events, observer %d" % (what, len(s.log), len(o.log)))
    for a, b in zip(s.log, o.log):
        if a[0] == "sleep":
            check(b[0] == "sleep" and abs(a[1] - b[1]) < 1e-12, "%s: sleep differs %r %r" % (what, a, b))
        else:
            check(tuple(a) == tuple(b), "%s: hook %r vs observer %r" % (what, a, b))


# ---------------------------------------------------------------- the model

class Voice(object):
    """One track: list of (start, length, notes, bpm) in whole notes (Fractions)."""

    def __init__(self):
        self.entries = []


def seconds_map(voices, bpm0):
    """Return (function tick -> seconds, final bpm, total ticks)."""
    changes = {}
    end = Fraction(0)
    for v in voices:
        for (start, length, notes, bpm) in v.entries:
            if bpm is not None:
                check(changes.get(start, bpm) == bpm, "generator: ambiguous tempo")
                changes[start] = bpm
            end = max(end, start + length)
    points = sorted(changes)

    def sec(t):
        total = 0.0
        cur = bpm0
        last = Fraction(0)
        for p in points:
            if p >= t:
                break
            total += float(p - last) * 240.0 / cur
            last = p
            cur = changes[p]
        total += float(t - last) * 240.0 / cur
        return total

    final = bpm0
    for p in points:
        final = changes[p]
    return sec, final, end


def verify_stream(log, voices, bpm0, what, n_instr=0, instr_expected=None, ordered_channels=True):
    # instrument announcements come first
    head = log[:n_instr]
    check(all(e[0] == "instr" for e in head), "%s: first %d events are not instrument changes: %r" % (what, n_instr, head))
    check(all(e[0] != "instr" for e in log[n_instr:]), "%s: late instrument change" % what)
    if instr_expected is not None:
        check(Counter((e[1], e[2]) for e in head) == Counter(instr_expected),
              "%s: instrument changes %r, expected %r" % (what, head, instr_expected))
    body = log[n_instr:]
    check(all(e[0] in ("play", "stop", "sleep") for e in body), "%s: unexpected event kind" % what)

    sec, final, end = seconds_map(voices, bpm0)

    # expected events, keyed
    exp = defaultdict(list)
    per_channel_plays = defaultdict(list)
    for v in voices:
        for (start, length, notes, bpm) in v.entries:
            for n in notes:
                p, c, vel = int(n) + 12, int(n.channel), int(n.velocity)
                exp[("play", p, c, vel)].append(sec(start))
                exp[("stop", p, c)].append(sec(start + length))
                per_channel_plays[c].append((p, vel))
    for k in exp:
        exp[k].sort()

    now = 0.0
    seen = defaultdict(int)
    sounding = Counter()
    got_plays = defaultdict(list)
    for e in body:
        if e[0] == "sleep":
            check(e[1] >= 0, "%s: negative sleep" % what)
            now += e[1]
            continue
        check(all(isinstance(x, int) for x in e[1:]), "%s: non-int event data %r" % (what, e))
        key = tuple(e)
        idx = seen[key]
        check(idx < len(exp[key]), "%s: unexpected/extra event %r at %.6f" % (what, e, now))
        check(abs(exp[key][idx] - now) < EPS, "%s: event %r at %.6f, expected at %.6f" % (what, e, now, exp[key][idx]))
        seen[key] += 1
        if e[0] == "play":
            sounding[(e[1], e[2])] += 1
            got_plays[e[2]].append((e[1], e[3]))
        else:
            check(sounding[(e[1], e[2])] > 0, "%s: stop of a note that is not sounding %r" % (what, e))
            sounding[(e[1], e[2])] -= 1
    for key in exp:
        check(seen[key] == len(exp[key]), "%s: missing event(s) %r: %d of %d" % (what, key, seen[key], len(exp[key])))
    check(all(v == 0 for v in sounding.values()), "%s: notes left sounding" % what)
    check(abs(now - sec(end)) < EPS, "%s: slept %.9f, expected %.9f" % (what, now, sec(end)))
    if ordered_channels:
        for c in per_channel_plays:
            check(got_plays[c] == per_channel_plays[c], "%s: play order on channel %d" % (what, c))
    return final


# ---------------------------------------------------------------- generators

def split_bar(rng, length, max_entries):
    """Random exact partition of `length` (Fraction, whole notes) in note values."""
    # start from beats that are plain note values
    parts = []
    rest = length
    for d in (1, 2, 4, 8, 16):
        while rest >= Fraction(1, d):
            parts.append(Fraction(d))
            rest -= Fraction(1, d)
    check(rest == 0, "generator: cannot partition")
    for _ in range(rng.randint(0, max_entries)):
        i = rng.randrange(len(parts))
        v = parts[i]
        if v >= 32:
            continue
        r = rng.random()
        if r < 0.55:
            parts[i:i + 1] = [v * 2, v * 2]
        elif r < 0.75:
            parts[i:i + 1] = [v * 3, v * 3, v * 3]  # triplet
        elif r < 0.9:
            new = [v * 2 * Fraction(2, 3), v * 4]  # dotted + short
            if rng.random() < 0.5:
                new.reverse()
            parts[i:i + 1] = new
        else:
            parts[i:i + 1] = [v * 2, v * 4, v * 4]
    if rng.random() < 0.5:
        rng.shuffle(parts)
    return parts


def to_number(v):
    return int(v) if v.denominator == 1 else float(v)


def random_notes(rng, channel, allow_empty=True):
    r = rng.random()
    if r < 0.18:
        return None
    if allow_empty and r < 0.22:
        return NoteContainer()
    k = 1 if r < 0.6 else rng.randint(2, 4)
    nc = NoteContainer()
    for _ in range(k):
        n = Note(rng.choice(["C", "D", "E", "F", "G", "A", "B", "C#", "Eb", "F#", "Bb"]), rng.randint(1, 7))
        n.channel = channel if rng.random() < 0.9 else rng.randint(0, 15)
        n.velocity = rng.randint(0, 127)
        nc.add_note(n)
    return nc


def build_track(rng, nbars, meter, channel, tempo_prob, equal_rhythm=None, fixed_channel=True):
    """Return (Track, Voice, rhythm)."""
    t = Track()
    v = Voice()
    length = Fraction(meter[0], meter[1])
    rhythm = []
    origin = Fraction(0)
    for b in range(nbars):
        bar = Bar("C", meter)
        parts = equal_rhythm[b] if equal_rhythm is not None else split_bar(rng, length, 6)
        rhythm.append(parts)
        pos = origin
        for val in parts:
            nc = random_notes(rng, channel)
            if nc is not None and not fixed_channel:
                for n in nc:
                    n.channel = rng.randint(0, 15)
            bpm = None
            if nc is not None and rng.random() < tempo_prob:
                bpm = rng.choice([40, 60, 90, 100, 132, 150, 200, 240, 77])
                nc.bpm = bpm
            check(bar.place_notes(nc, to_number(val)), "generator: note does not fit")
            v.entries.append((pos, 1 / val, list(nc) if nc is not None else [], bpm))
            pos += 1 / val
        check(bar.is_full(), "generator: bar not full")
        t.add_bar(bar)
        origin += length
    return t, v, rhythm


def instrument_for(rng):
    r = rng.random()
    if r < 0.35:
        return None, 1
    if r < 0.5:
        return Instrument(), 1
    m = MidiInstrument()
    if r < 0.6:
        return m, (m.names.index(m.name) if m.name in m.names else 1)
    if r < 0.7:
        m.name = "No Such Instrument"
        return m, 1
    i = rng.randrange(len(m.names))
    m.name = m.names[i]
    return m, m.names.index(m.names[i])


# ---------------------------------------------------------------- cases

def case_tracks(seed):
    rng = random.Random(seed)
    ntracks = rng.randint(1, 4)
    nbars = rng.randint(1, 3)
    meter = rng.choice([(4, 4), (4, 4), (3, 4), (6, 8), (2, 4), (5, 4)])
    equal = rng.random() < 0.35
    distinct = rng.random() < 0.8
    if distinct:
        note_channels = rng.sample(range(16), ntracks)
    else:
        note_channels = [rng.randint(0, 15) for _ in range(ntracks)]
    tempo_track = rng.randrange(ntracks) if rng.random() < 0.6 else -1
    tracks, voices, instr_expected = [], [], []
    channels = [rng.randint(0, 15) for _ in range(ntracks)]
    rhythm = None
    for i in range(ntracks):
        t, v, r = build_track(rng, nbars, meter, note_channels[i], 0.3 if i == tempo_track else 0.0,
                              equal_rhythm=rhythm if equal else None)
        if equal:
            rhythm = r
        ins, prog = instrument_for(rng)
        t.instrument = ins
        tracks.append(t)
        voices.append(v)
    bpm0 = rng.choice([120, 60, 90, 144, 200, 33])
    use_comp = rng.random() < 0.4
    s, o = fresh()
    what = "tracks seed %d" % seed
    if use_comp:
        comp = Composition()
        for t in tracks:
            comp.add_track(t)
        if rng.random() < 0.5:
            channels = None
            res = s.play_Composition(comp, bpm=bpm0)
            ch = [x + 1 for x in range(ntracks)]
        else:
            res = s.play_Composition(comp, channels, bpm0)
            ch = channels
    else:
        res = s.play_Tracks(tracks, channels, bpm0)
        ch = channels
    for i, t in enumerate(tracks):
        ins = t.instrument
        if isinstance(ins, MidiInstrument) and ins.name in ins.names:
            prog = ins.names.index(ins.name)
        else:
            prog = 1
        instr_expected.append((ch[i], prog))
    same_logs(s, o, what)
    # two voices sharing a channel: only the multiset / timing is checked
    final = verify_stream(s.log, voices, bpm0, what, n_instr=ntracks, instr_expected=instr_expected,
                          ordered_channels=False)
    if distinct:
        verify_order_per_voice(s.log, voices, what)
    check(isinstance(res, dict) and res.get("bpm") == final, "%s: returned %r, final tempo %r" % (what, res, final))


def verify_order_per_voice(log, voices, what):
    """Voices whose notes all sit on one private channel: plays come in order."""
    chans = []
    for v in voices:
        cs = set(int(n.channel) for e in v.entries for n in e[2])
        chans.append(cs)
    for i, v in enumerate(voices):
        cs = chans[i]
        if len(cs) != 1:
            continue
        c = next(iter(cs))
        if any(c in other for j, other in enumerate(chans) if j != i):
            continue
        expected = [(int(n) + 12, int(n.velocity)) for e in v.entries for n in e[2]]
        got = [(e[1], e[3]) for e in log if e[0] == "play" and e[2] == c]
        check(expected == got, "%s: play order of voice %d" % (what, i))
        # and play/stop alternate sensibly per entry: every entry is stopped
        # before the next entry of the same voice starts
        sounding = 0
        pos = 0
        stream = [e for e in log if e[0] in ("play", "stop") and e[2] == c]
        for e in v.entries:
            k = len(e[2])
            if k == 0:
                continue
            seg = stream[pos:pos + 2 * k]
            check([x[0] for x in seg] == ["play"] * k + ["stop"] * k, "%s: voice %d entry not play..stop" % (what, i))
            check(Counter(x[1] for x in seg[:k]) == Counter(x[1] for x in seg[k:]), "%s: voice %d stops differ" % (what, i))
            pos += 2 * k
        check(pos == len(stream), "%s: voice %d stray events" % (what, i))


def case_track_and_bar(seed):
    rng = random.Random(1000 + seed)
    meter = rng.choice([(4, 4), (3, 4), (6, 8), (7, 8)])
    nbars = rng.randint(1, 3)
    t, v, _ = build_track(rng, nbars, meter, rng.randint(0, 15), 0.25, fixed_channel=rng.random() < 0.7)
    bpm0 = rng.choice([120, 50, 180, 99])
    what = "track seed %d" % seed
    s, o = fresh()
    if rng.random() < 0.5:
        res = s.play_Track(t, rng.randint(0, 15), bpm0)
    else:
        res = s.play_Track(t, bpm=bpm0)
    same_logs(s, o, what)
    final = verify_stream(s.log, [v], bpm0, what, ordered_channels=False)
    flat = [(int(n) + 12, int(n.channel), int(n.velocity)) for e in v.entries for n in e[2]]
    got = [(e[1], e[2], e[3]) for e in s.log if e[0] == "play"]
    check(flat == got, "%s: play order" % what)
    check(isinstance(res, dict) and res.get("bpm") == final, "%s: returned %r, expected bpm %r" % (what, res, final))

    # a single bar
    what = "bar seed %d" % seed
    t, v, _ = build_track(rng, 1, meter, rng.randint(0, 15), 0.3)
    s, o = fresh()
    res = s.play_Bar(t[0], rng.randint(0, 15), bpm0)
    same_logs(s, o, what)
    final = verify_stream(s.log, [v], bpm0, what, ordered_channels=False)
    flat = [(int(n) + 12, int(n.channel), int(n.velocity)) for e in v.entries for n in e[2]]
    got = [(e[1], e[2], e[3]) for e in s.log if e[0] == "play"]
    check(flat == got, "%s: play order" % what)
    check(isinstance(res, dict) and res.get("bpm") == final, "%s: returned %r, expected bpm %r" % (what, res, final))

    # several bars at once (play_Bars), unequal rhythms
    what = "bars seed %d" % seed
    k = rng.randint(1, 4)
    chans = rng.sample(range(16), k)
    bars, voices = [], []
    for i in range(k):
        t, v, _ = build_track(rng, 1, meter, chans[i], 0.3 if i == 0 else 0.0)
        bars.append(t[0])
        voices.append(v)
    s, o = fresh()
    res = s.play_Bars(bars, [rng.randint(0, 15) for _ in range(k)], bpm0)
    same_logs(s, o, what)
    final = verify_stream(s.log, voices, bpm0, what, ordered_channels=False)
    verify_order_per_voice(s.log, voices, what)
    check(isinstance(res, dict) and res.get("bpm") == final, "%s: returned %r, expected bpm %r" % (what, res, final))


def case_notes(seed):
    rng = random.Random(2000 + seed)
    what = "note seed %d" % seed
    s, o = fresh()
    n = Note(rng.choice("CDEFGAB"), rng.randint(0, 8))
    n.channel = rng.randint(0, 15)
    n.velocity = rng.randint(0, 127)
    check(s.play_Note(n, rng.randint(0, 15), rng.randint(0, 127)), "%s: play_Note falsy" % what)
    check(s.log == [("play", int(n) + 12, n.channel, n.velocity)], "%s: play_Note gave %r" % (what, s.log))
    check(s.stop_Note(n, rng.randint(0, 15)), "%s: stop_Note falsy" % what)
    check(s.log[1:] == [("stop", int(n) + 12, n.channel)], "%s: stop_Note gave %r" % (what, s.log))
    same_logs(s, o, what)

    s, o = fresh()
    nc = None
    while not nc:
        nc = random_notes(rng, rng.randint(0, 15), allow_empty=False)
    check(s.play_NoteContainer(nc, rng.randint(0, 15), rng.randint(0, 127)), "%s: play_NoteContainer falsy" % what)
    exp = [("play", int(x) + 12, int(x.channel), int(x.velocity)) for x in nc]
    check(s.log == exp, "%s: play_NoteContainer gave %r expected %r" % (what, s.log, exp))
    k = len(s.log)
    check(s.stop_NoteContainer(nc, rng.randint(0, 15)), "%s: stop_NoteContainer falsy" % what)
    check(Counter(s.log[k:]) == Counter(("stop", int(x) + 12, int(x.channel)) for x in nc),
          "%s: stop_NoteContainer gave %r" % (what, s.log[k:]))
    same_logs(s, o, what)
    # a rest
    s, o = fresh()
    s.play_NoteContainer(None)
    s.stop_NoteContainer(None)
    check(s.log == [] and o.log == [], "%s: rest produced events" % what)


def case_observers(seed):
    rng = random.Random(3000 + seed)
    what = "observer seed %d" % seed
    t, v, _ = build_track(rng, 1, (4, 4), 3, 0.2)
    # attach twice -> no duplication
    s = RecSeq()
    o = RecObs()
    s.attach(o)
    s.attach(o)
    s.play_Track(t, 1, 120)
    s.control_change(2, 7, 100)
    s.set_instrument(3, 5)
    same_logs(s, o, what + " (attached twice)")
    # a second observer sees the same too
    s = RecSeq()
    o1, o2 = RecObs(), RecObs()
    s.attach(o1)
    s.attach(o2)
    s.attach(o1)
    s.play_Bar(t[0], 1, 90)
    same_logs(s, o1, what + " (first of two)")
    same_logs(s, o2, what + " (second of two)")
    # detach -> nothing delivered any more
    s.detach(o1)
    n1, n2 = len(o1.log), len(o2.log)
    s.play_Bar(t[0], 1, 90)
    s.control_change(1, 1, 1)
    check(len(o1.log) == n1, what + ": detached observer still receives events")
    same_logs(s, o2, what + " (remaining observer)")
    s.detach(o2)
    s.detach(o2)  # detaching something not attached is harmless
    s.play_Bar(t[0], 1, 90)
    check(len(o2.log) == len(o2.log[:]) and len(o2.log) != len(s.log), what + ": detach failed")
    # never attached: nothing
    o3 = RecObs()
    s.play_Bar(t[0])
    check(o3.log == [], what + ": unattached observer got events")


def case_cc(seed):
    rng = random.Random(4000 + seed)
    what = "cc seed %d" % seed
    s, o = fresh()
    expected = []
    for _ in range(20):
        ch = rng.randint(0, 15)
        control = rng.choice([-200, -2, -1, 0, 1, 7, 10, 64, 127, 128, 129, 130, 1000, rng.randint(-5, 135)])
        value = rng.choice([-200, -2, -1, 0, 1, 63, 127, 128, 129, 500, rng.randint(-5, 135)])
        before = len(s.log)
        r = s.control_change(ch, control, value)
        ok = 0 <= control <= 128 and 0 <= value <= 128
        if ok:
            check(r, "%s: valid control change (%d, %d) refused" % (what, control, value))
            expected.append(("cc", ch, control, value))
        else:
            check(not r, "%s: invalid control change (%d, %d) accepted" % (what, control, value))
            check(len(s.log) == before, "%s: refused control change emitted" % what)
    # the convenience wrappers
    for fn, num in ((s.modulation, 1), (s.main_volume, 7), (s.pan, 10)):
        val = rng.choice([-1, 0, 64, 128, 129])
        r = fn(5, val)
        if 0 <= val <= 128:
            check(r, what + ": wrapper refused")
            expected.append(("cc", 5, num, val))
        else:
            check(not r, what + ": wrapper accepted")
    check(s.log == expected, "%s: cc log %r, expected %r" % (what, s.log, expected))
    same_logs(s, o, what)
    # set_instrument
    s, o = fresh()
    s.set_instrument(4, 17)
    s.set_instrument(0, 0, 2)
    check(s.log == [("instr", 4, 17), ("instr", 0, 0)], what + ": set_instrument")
    same_logs(s, o, what)


def main():
    n = 0
    try:
        for seed in range(260):
            case_tracks(seed)
            n += 1
        for seed in range(60):
            case_track_and_bar(seed)
            n += 3
        for seed in range(40):
            case_notes(seed)
            n += 2
        for seed in range(10):
            case_observers(seed)
            n += 1
        for seed in range(15):
            case_cc(seed)
            n += 1
    except Fail as e:
        print("C18 VIOLATED: %s" % e)
        sys.exit(1)
    print("C18 holds on %d cases" % n)
    sys.exit(0)


if __name__ == "__main__":
    main()
