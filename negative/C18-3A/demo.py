import mingus, os; assert os.path.realpath(mingus.__file__).startswith(os.path.realpath(os.path.dirname(__file__)))
# Direct check of property C18 (sequencer event stream) through the public API.
import random
import sys
from fractions import Fraction

from mingus.containers import Bar, Composition, Note, NoteContainer, Track
from mingus.containers.instrument import MidiInstrument, Piano
from mingus.midi.sequencer import Sequencer
from mingus.midi.sequencer_observer import SequencerObserver

FAILS = []
CASES = [0]


def fail(msg):
    FAILS.append(msg)
    if len(FAILS) > 15:
        finish()


def finish():
    if FAILS:
        for f in FAILS[:15]:
            print("FAIL:", f)
        print("%d failure(s) in %d cases" % (len(FAILS), CASES[0]))
        sys.exit(1)
    print("ok: property C18 holds on %d cases" % CASES[0])
    sys.exit(0)


class RecSeq(Sequencer):
    def init(self):
        self.log = []

    def play_event(self, note, channel, velocity):
        self.log.append(("play", note, channel, velocity))

    def stop_event(self, note, channel):
        self.log.append(("stop", note, channel))

    def cc_event(self, channel, control, value):
        self.log.append(("cc", channel, control, value))

    def instr_event(self, channel, instr, bank):
        self.log.append(("instr", channel, instr, bank))

    def sleep(self, seconds):
        self.log.append(("sleep", seconds))


class RecObs(SequencerObserver):
    def __init__(self):
        self.log = []

    def play_int_note_event(self, int_note, channel, velocity):
        self.log.append(("play", int_note, channel, velocity))

    def stop_int_note_event(self, int_note, channel):
        self.log.append(("stop", int_note, channel))

    def cc_event(self, channel, control, value):
        self.log.append(("cc", channel, control, value))

    def instr_event(self, channel, instr, bank):
        self.log.append(("instr", channel, instr, bank))

    def sleep(self, seconds):
        self.log.append(("sleep", seconds))


def rig():
    s = RecSeq()
    o = RecObs()
    s.attach(o)
    return s, o


def is_int(x):
    return type(x) is int


def ints_ok(log):
    for e in log:
        if e[0] in ("play", "stop", "instr"):
            if not all(is_int(x) for x in e[1:]):
                return False
    return True


# ---------------------------------------------------------------- generators

NAMES = ["C", "C#", "Db", "D", "Eb", "E", "F", "F#", "G", "Ab", "A", "Bb", "B"]


def split_durations(rng, total, depth):
    """Random partition of `total` (Fraction of a whole note) into
    (duration_fraction, value) pieces where value is what mingus stores."""
    pieces = [total]
    for _ in range(depth):
        i = rng.randrange(len(pieces))
        d = pieces[i]
        if d < Fraction(1, 16):
            continue
        kind = rng.random()
        if kind < 0.55:
            new = [d / 2, d / 2]
        elif kind < 0.75:
            new = [d / 3, d / 3, d / 3]
        elif kind < 0.9:
            new = [d * Fraction(3, 4), d / 4]
        else:
            new = [d / 4, d * Fraction(3, 4)]
        pieces[i:i + 1] = new
    out = []
    for d in pieces:
        v = 1 / d
        if v.denominator == 1:
            value = int(v)
            if rng.random() < 0.2:
                value = float(value)
        else:
            value = float(v)
        out.append((d, value))
    return out


def rand_nc(rng, channel, allow_rest=True):
    r = rng.random()
    if allow_rest and r < 0.2:
        return None
    n = 1 if r < 0.6 else rng.randint(2, 4)
    notes = []
    for _ in range(n):
        ch = channel if channel is not None else rng.randint(0, 15)
        notes.append(Note(rng.choice(NAMES), rng.randint(1, 7), velocity=rng.randint(0, 127), channel=ch))
    return NoteContainer(notes)


def make_bar(rng, meter, channel, depth, tempo_prob):
    """Return (Bar, entries) with entries = [(dur_fraction, nc_or_None)]; the
    bar is completely filled."""
    b = Bar("C", meter)
    total = Fraction(meter[0], meter[1])
    # split in beats first so that durations stay placeable
    entries = []
    for d, value in split_durations(rng, total, depth) if total in (Fraction(1), Fraction(1, 2)) else beatwise(rng, meter, depth):
        nc = rand_nc(rng, channel)
        if nc is not None and rng.random() < tempo_prob:
            nc.bpm = rng.choice([40, 60, 90, 120, 133, 180, 240, 97.5])
        ok = b.place_notes(nc, value)
        assert ok, (meter, value, b)
        entries.append((d, nc))
    assert abs(b.current_beat - b.length) < 1e-6
    return b, entries


def beatwise(rng, meter, depth):
    out = []
    for _ in range(meter[0]):
        out.extend(split_durations(rng, Fraction(1, meter[1]), rng.randint(0, max(0, depth - 1))))
    return out


# --------------------------------------------------------------------- model

def model_parallel(track_entries, bpm):
    """track_entries: per track a flat list of (dur_fraction, nc) covering the
    same total length. Return (instants, seconds_at, plays, stops, final_bpm)
    where plays/stops carry the index of their instant."""
    starts = []  # (beat, track, nc, end)
    for ti, entries in enumerate(track_entries):
        t = Fraction(0)
        for d, nc in entries:
            starts.append((t, ti, nc, t + d))
            t += d
    instants = sorted(set([s[0] for s in starts] + [s[3] for s in starts]))
    index = dict((t, i) for i, t in enumerate(instants))
    tempo_at = {}
    for (t, ti, nc, end) in sorted(starts, key=lambda s: (s[0], s[1])):
        if nc is not None and hasattr(nc, "bpm"):
            tempo_at[t] = nc.bpm
    seconds = [0.0]
    cur = bpm
    for i, t in enumerate(instants[:-1]):
        if t in tempo_at:
            cur = tempo_at[t]
        seconds.append(seconds[-1] + float(instants[i + 1] - t) * 240.0 / cur)
    plays, stops = [], []
    for (t, ti, nc, end) in starts:
        if nc is None:
            continue
        for note in nc:
            plays.append((index[t], int(note) + 12, note.channel, note.velocity))
            stops.append((index[end], int(note) + 12, note.channel))
    return instants, seconds, sorted(plays), sorted(stops), cur


def check_stream(tag, log, seconds, plays, stops, instr_expected):
    """Check a recorded low level stream against the model."""
    pos = 0
    if instr_expected is not None:
        head = log[:len(instr_expected)]
        got = sorted((e[1], e[2]) for e in head if e[0] == "instr")
        if len(head) != len(instr_expected) or got != sorted(instr_expected):
            fail("%s: instrument announcements %r, expected %r" % (tag, head, instr_expected))
            return
        pos = len(instr_expected)
    now = 0.0
    got_plays, got_stops = [], []
    sounding = {}

    def instant(t):
        best = min(range(len(seconds)), key=lambda i: abs(seconds[i] - t))
        if abs(seconds[best] - t) > 1e-6 * max(1.0, t):
            return None
        return best

    for e in log[pos:]:
        if e[0] == "sleep":
            if not (e[1] >= 0):
                fail("%s: negative sleep %r" % (tag, e))
                return
            now += e[1]
        elif e[0] == "play":
            i = instant(now)
            if i is None:
                fail("%s: play %r at unexpected time %r" % (tag, e, now))
                return
            got_plays.append((i,) + e[1:])
            sounding[(e[1], e[2])] = sounding.get((e[1], e[2]), 0) + 1
        elif e[0] == "stop":
            i = instant(now)
            if i is None:
                fail("%s: stop %r at unexpected time %r" % (tag, e, now))
                return
            got_stops.append((i,) + e[1:])
            k = (e[1], e[2])
            sounding[k] = sounding.get(k, 0) - 1
            if sounding[k] < 0:
                fail("%s: stop without start %r" % (tag, e))
                return
        else:
            fail("%s: unexpected event %r" % (tag, e))
            return
    if any(sounding.values()):
        fail("%s: left sounding %r" % (tag, [k for k, v in sounding.items() if v]))
    if sorted(got_plays) != plays:
        fail("%s: play events differ\n got %r\n exp %r" % (tag, sorted(got_plays), plays))
    if sorted(got_stops) != stops:
        fail("%s: stop events differ\n got %r\n exp %r" % (tag, sorted(got_stops), stops))
    if abs(now - seconds[-1]) > 1e-9 * max(1.0, seconds[-1]) + 1e-9:
        fail("%s: slept %r, expected %r" % (tag, now, seconds[-1]))
    if not ints_ok(log):
        fail("%s: non-int in event" % tag)


def check_track_sequence(tag, log, entries, channel):
    """When one channel belongs to one track: the track's own events, in
    order (stops of one entry compared as a group)."""
    mine = [e for e in log if e[0] in ("play", "stop") and e[2] == channel]
    pos = 0
    for d, nc in entries:
        if nc is None:
            continue
        exp_p = [("play", int(n) + 12, n.channel, n.velocity) for n in nc]
        got_p = mine[pos:pos + len(exp_p)]
        pos += len(exp_p)
        exp_s = sorted(("stop", int(n) + 12, n.channel) for n in nc)
        got_s = sorted(mine[pos:pos + len(exp_s)])
        pos += len(exp_s)
        if got_p != exp_p or got_s != exp_s:
            fail("%s: per-track order broken at %r: %r / %r" % (tag, nc, got_p, got_s))
            return
    if pos != len(mine):
        fail("%s: extra events on channel %r" % (tag, channel))


def check_serial_exact(tag, log, entries, bpm):
    """play_Bar / play_Track: the exact sequence."""
    i = 0
    cur = bpm
    for d, nc in entries:
        notes = list(nc) if nc is not None else []
        for n in notes:
            if i >= len(log) or log[i] != ("play", int(n) + 12, n.channel, n.velocity):
                fail("%s: expected play of %r at %d, got %r" % (tag, n, i, log[i:i + 1]))
                return
            i += 1
        if nc is not None and hasattr(nc, "bpm"):
            cur = nc.bpm
        exp = float(d) * 240.0 / cur
        t = 0.0
        while i < len(log) and log[i][0] == "sleep" and t < exp * (1 - 1e-9):
            t += log[i][1]
            i += 1
        if abs(t - exp) > 1e-9 * max(1.0, exp):
            fail("%s: slept %r for %r, expected %r" % (tag, t, d, exp))
            return
        exp_s = sorted(("stop", int(n) + 12, n.channel) for n in notes)
        got_s = sorted(log[i:i + len(exp_s)], key=lambda e: tuple(map(str, e)))
        if sorted(exp_s, key=lambda e: tuple(map(str, e))) != got_s:
            fail("%s: expected stops %r got %r" % (tag, exp_s, got_s))
            return
        i += len(exp_s)
    if i != len(log):
        fail("%s: trailing events %r" % (tag, log[i:]))


def same(tag, s, o):
    if s.log != o.log:
        fail("%s: observer stream differs from hook stream" % tag)


INSTRS = [
    (lambda: None, 1),
    (lambda: Piano(), 1),
    (lambda: MidiInstrument("Acoustic Grand Piano"), 0),
    (lambda: MidiInstrument("Violin"), 40),
    (lambda: MidiInstrument("Gunshot"), 127),
    (lambda: MidiInstrument("Bright Acoustic Piano"), 1),
    (lambda: MidiInstrument("Kazoo {%s}\né"), 1),
    (lambda: MidiInstrument(), 1),
]


# ---------------------------------------------------------------- the checks

def notes_and_containers(rng):
    for k in range(60):
        CASES[0] += 1
        s, o = rig()
        n = Note(rng.choice(NAMES), rng.randint(0, 8), velocity=rng.randint(0, 127), channel=rng.randint(0, 15))
        if k % 3 == 0:
            r1 = s.play_Note(n)
            r2 = s.stop_Note(n)
        elif k % 3 == 1:
            r1 = s.play_Note(n, 9, 33)
            r2 = s.stop_Note(n, 9)
        else:
            r1 = s.play_Note(note=n, channel=2, velocity=5)
            r2 = s.stop_Note(note=n, channel=2)
        exp = [("play", int(n) + 12, n.channel, n.velocity), ("stop", int(n) + 12, n.channel)]
        if s.log != exp or not r1 or not r2 or not ints_ok(s.log):
            fail("note %r: %r" % (n, s.log))
        same("note", s, o)
    for k in range(60):
        CASES[0] += 1
        s, o = rig()
        nc = rand_nc(rng, None, allow_rest=False)
        if k % 2:
            r1 = s.play_NoteContainer(nc)
            r2 = s.stop_NoteContainer(nc)
        else:
            r1 = s.play_NoteContainer(nc=nc, channel=3, velocity=77)
            r2 = s.stop_NoteContainer(nc=nc, channel=3)
        exp_p = [("play", int(n) + 12, n.channel, n.velocity) for n in nc]
        exp_s = sorted(("stop", int(n) + 12, n.channel) for n in nc)
        if s.log[:len(exp_p)] != exp_p or sorted(s.log[len(exp_p):]) != exp_s or not r1 or not r2:
            fail("container %r: %r" % (nc, s.log))
        same("container", s, o)
    # a rest is silent
    s, o = rig()
    s.play_NoteContainer(None)
    s.stop_NoteContainer(None)
    if s.log or o.log:
        fail("rest container emitted %r" % s.log)


def serial(rng):
    for k in range(70):
        CASES[0] += 1
        meter = rng.choice([(4, 4), (4, 4), (3, 4), (6, 8), (2, 2), (5, 4)])
        bpm = rng.choice([120, 60, 90.0, 200, 133, 47])
        nbars = rng.randint(1, 4)
        tr = Track()
        flat = []
        for _ in range(nbars):
            b, entries = make_bar(rng, meter, None, rng.randint(0, 6), 0.15 if k % 2 else 0.0)
            tr.add_bar(b)
            flat.extend(entries)
        if k % 5 == 0:
            # an unfinished last bar plays what it holds
            b = Bar("C", meter)
            nc = rand_nc(rng, None)
            b.place_notes(nc, 8)
            tr.add_bar(b)
            flat.append((Fraction(1, 8), nc))
        s, o = rig()
        if nbars == 1 and k % 5:
            if k % 2:
                res = s.play_Bar(tr[0], 1, bpm)
            else:
                res = s.play_Bar(bar=tr[0], channel=4, bpm=bpm)
            tag = "play_Bar#%d" % k
        else:
            if k % 2:
                res = s.play_Track(tr, 1, bpm)
            else:
                res = s.play_Track(track=tr, channel=7, bpm=bpm)
            tag = "play_Track#%d" % k
        instants, seconds, plays, stops, final = model_parallel([flat], bpm)
        check_serial_exact(tag, s.log, flat, bpm)
        check_stream(tag, s.log, seconds, plays, stops, None)
        if res != {"bpm": final}:
            fail("%s: returned %r, expected bpm %r" % (tag, res, final))
        same(tag, s, o)
    # default tempo
    CASES[0] += 1
    s, o = rig()
    b = Bar()
    for x in range(4):
        b.place_notes(Note("A", 4, velocity=90, channel=2), 4)
    res = s.play_Bar(b)
    if res != {"bpm": 120} or abs(sum(e[1] for e in s.log if e[0] == "sleep") - 2.0) > 1e-9:
        fail("default tempo: %r %r" % (res, s.log))
    same("default", s, o)


def parallel(rng):
    for k in range(150):
        CASES[0] += 1
        ntracks = rng.randint(1, 4)
        meter = rng.choice([(4, 4), (4, 4), (4, 4), (3, 4), (6, 8), (2, 2)])
        nbars = rng.randint(1, 3)
        bpm = rng.choice([120, 60, 90.0, 200, 133, 47])
        distinct = k % 4 != 0
        if distinct:
            channels = rng.sample(range(0, 16), ntracks)
        else:
            channels = [rng.randint(0, 3) for _ in range(ntracks)]
        as_comp = k % 3 == 0
        if as_comp and k % 2:
            channels = [i + 1 for i in range(ntracks)]
        tempo_track = rng.randrange(ntracks) if k % 2 else -1
        equal_rhythm = k % 5 == 0
        tracks, flats, instr_expected = [], [], []
        shape = None
        for ti in range(ntracks):
            mk, prog = rng.choice(INSTRS)
            tr = Track(mk())
            flat = []
            if equal_rhythm and shape is not None:
                for bar_shape in shape:
                    b = Bar("C", meter)
                    for d, value in bar_shape:
                        nc = rand_nc(rng, channels[ti])
                        assert b.place_notes(nc, value)
                        flat.append((d, nc))
                    tr.add_bar(b)
            else:
                this_shape = []
                for _ in range(nbars):
                    b, entries = make_bar(
                        rng, meter, channels[ti], rng.randint(0, 6), 0.2 if ti == tempo_track else 0.0
                    )
                    tr.add_bar(b)
                    flat.extend(entries)
                    this_shape.append([(d, e[1]) for (d, _), e in zip(entries, b.bar)])
                if shape is None:
                    shape = this_shape
            tracks.append(tr)
            flats.append(flat)
            instr_expected.append((channels[ti], prog))
        s, o = rig()
        o2 = RecObs()
        if k % 7 == 0:
            s.attach(o2)
            s.attach(o)
        mode = k % 6
        if as_comp:
            comp = Composition()
            for tr in tracks:
                comp.add_track(tr)
            if k % 2:
                res = s.play_Composition(comp, bpm=bpm)
            else:
                res = s.play_Composition(comp, channels, bpm)
            tag = "play_Composition#%d" % k
        elif mode == 1:
            res = s.play_Tracks(tracks=tracks, channels=channels, bpm=bpm)
            tag = "play_Tracks(kw)#%d" % k
        elif mode == 2:
            res = s.play_Tracks(tuple(tracks), tuple(channels), bpm)
            tag = "play_Tracks(tuples)#%d" % k
        elif mode == 4 and nbars == 1:
            res = s.play_Bars([tr[0] for tr in tracks], channels, bpm)
            instr_expected = None
            tag = "play_Bars#%d" % k
        else:
            res = s.play_Tracks(tracks, channels, bpm)
            tag = "play_Tracks#%d" % k
        instants, seconds, plays, stops, final = model_parallel(flats, bpm)
        check_stream(tag, s.log, seconds, plays, stops, instr_expected)
        if distinct:
            for ti in range(ntracks):
                check_track_sequence(tag, s.log, flats[ti], channels[ti])
        if res != {"bpm": final}:
            fail("%s: returned %r, expected bpm %r" % (tag, res, final))
        same(tag, s, o)
        if k % 7 == 0 and o2.log != s.log:
            fail("%s: second observer differs" % tag)


def observers(rng):
    for k in range(20):
        CASES[0] += 1
        s = RecSeq()
        a, b = RecObs(), RecObs()
        b_, entries = make_bar(rng, (4, 4), None, 4, 0.2)
        s.attach(a)
        s.attach(a)
        s.attach(b)
        s.play_Bar(b_, 1, 100)
        s.control_change(1, 7, 100)
        s.set_instrument(3, 12)
        if a.log != s.log or b.log != s.log:
            fail("observers: attached twice / two observers differ from hooks")
        n = len(s.log)
        s.detach(a)
        s.detach(a)
        s.detach(RecObs())
        s.play_Bar(b_, 1, 100)
        s.control_change(1, 7, 100)
        if len(a.log) != n:
            fail("observers: detached observer still receives")
        if b.log != s.log:
            fail("observers: remaining observer differs")
        s.detach(b)
        s.play_Note(Note("C"))
        if b.log != s.log[:-1]:
            fail("observers: detached b still receives")
        s.attach(a)
        before = len(a.log)
        s.play_Note(Note("C"))
        if a.log[before:] != s.log[-1:]:
            fail("observers: re-attached observer")


def controls(rng):
    values = [-1000, -2, -1, 0, 1, 7, 64, 127, 128, 129, 130, 5000]
    for c in values:
        for v in values:
            CASES[0] += 1
            s, o = rig()
            ch = rng.randint(0, 15)
            r = s.control_change(ch, c, v) if (c + v) % 2 else s.control_change(channel=ch, control=c, value=v)
            ok = 0 <= c <= 128 and 0 <= v <= 128
            if ok:
                if r is not True or s.log != [("cc", ch, c, v)] or o.log != s.log:
                    fail("control_change(%r,%r,%r) -> %r %r" % (ch, c, v, r, s.log))
            else:
                if r or s.log or o.log:
                    fail("refused control_change(%r,%r,%r) -> %r %r" % (ch, c, v, r, s.log))
                # repeated refusal
                r = s.control_change(ch, c, v)
                if r or s.log or o.log:
                    fail("refused twice control_change(%r,%r,%r) -> %r %r" % (ch, c, v, r, s.log))
    for v in values:
        for fn, ctl in (("modulation", 1), ("main_volume", 7), ("pan", 10)):
            s, o = rig()
            r = getattr(s, fn)(5, v)
            ok = 0 <= v <= 128
            if ok and (not r or s.log != [("cc", 5, ctl, v)] or o.log != s.log):
                fail("%s(%r): %r" % (fn, v, s.log))
            if not ok and (r or s.log or o.log):
                fail("%s(%r) not refused: %r" % (fn, v, s.log))
    for k in range(20):
        s, o = rig()
        ch, i = rng.randint(0, 15), rng.randint(0, 127)
        s.set_instrument(ch, i)
        if s.log != [("instr", ch, i, 0)] or o.log != s.log:
            fail("set_instrument: %r %r" % (s.log, o.log))


def long_case(rng):
    CASES[0] += 1
    tracks, flats, chans = [], [], [1, 2, 3]
    for ti in range(3):
        tr = Track()
        flat = []
        for _ in range(40):
            b, entries = make_bar(rng, (4, 4), chans[ti], rng.randint(0, 7), 0.05 if ti == 1 else 0)
            tr.add_bar(b)
            flat.extend(entries)
        tracks.append(tr)
        flats.append(flat)
    s, o = rig()
    res = s.play_Tracks(tracks, chans, 150)
    instants, seconds, plays, stops, final = model_parallel(flats, 150)
    check_stream("long", s.log, seconds, plays, stops, [(1, 1), (2, 1), (3, 1)])
    for ti in range(3):
        check_track_sequence("long", s.log, flats[ti], chans[ti])
    if res != {"bpm": final}:
        fail("long: returned %r" % (res,))
    same("long", s, o)
    # the same objects played again give the same thing
    s2, o2 = rig()
    res2 = s2.play_Tracks(tracks, chans, 150)
    if res2 != res or len(s2.log) != len(s.log):
        fail("long: replay differs")
    else:
        for a, b in zip(s.log, s2.log):
            if a[0] != b[0] or (a[0] != "sleep" and a != b) or (a[0] == "sleep" and abs(a[1] - b[1]) > 1e-9):
                fail("long: replay differs at %r %r" % (a, b))
                break


def main():
    rng = random.Random(1818)
    notes_and_containers(rng)
    serial(rng)
    parallel(rng)
    observers(rng)
    controls(rng)
    long_case(rng)
    finish()


main()
