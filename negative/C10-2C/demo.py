import mingus, os; assert os.path.realpath(mingus.__file__).startswith(os.path.realpath(os.path.dirname(__file__)))
import copy
import itertools
import operator
import sys

from mingus.containers.note import Note
from mingus.containers.mt_exceptions import NoteFormatError as ContainerNoteFormatError
from mingus.core import notes
from mingus.core.mt_exceptions import NoteFormatError as CoreNoteFormatError

failures = []
checked = [0]


def check(cond, msg):
    checked[0] += 1
    if not cond:
        failures.append(msg)


NATURAL = {"C": 0, "D": 2, "E": 4, "F": 5, "G": 7, "A": 9, "B": 11}
ACCS = ["", "#", "##", "b", "bb"]
NAMES = [l + a for l in "CDEFGAB" for a in ACCS]
OCTAVES = list(range(10))


def expected_int(name, octave):
    return 12 * octave + NATURAL[name[0]] + name[1:].count("#") - name[1:].count("b")


# 1. integer value, text round trips, copies ---------------------------------
for name in NAMES:
    for octave in OCTAVES:
        n = Note(name, octave)
        want = expected_int(name, octave)
        check(int(n) == want, "int(Note(%r, %r)) = %r, want %r" % (name, octave, int(n), want))
        check(n.name == name and n.octave == octave, "Note(%r, %r) stored %r/%r" % (name, octave, n.name, n.octave))
        # keyword form
        k = Note(name=name, octave=octave)
        check(int(k) == want, "keyword construction %r %r" % (name, octave))
        # 'Name-octave' text
        text = "%s-%d" % (name, octave)
        t = Note(text)
        check(int(t) == want and t.name == name and t.octave == octave, "Note(%r) -> %r" % (text, t))
        s = Note().set_note(text)
        check(int(s) == want, "set_note(%r) -> %r" % (text, s))
        # printed form (repr is the text wrapped in quotes)
        printed = repr(n)
        check(printed == "'%s'" % text, "repr %r for %r" % (printed, text))
        check(str(n).strip("'") == text, "str %r for %r" % (str(n), text))
        p = Note(printed.strip("'"))
        check(int(p) == want and p == n, "printed form %r -> %r" % (printed, p))
        # from another note
        c = Note(n)
        check(int(c) == want and c.name == name and c.octave == octave and c is not n, "Note(Note(%r))" % text)
        # from integer
        if 0 <= want:
            i = Note(want)
            check(int(i) == want and i == n, "Note(%d) -> %r" % (want, i))
            j = Note().from_int(want)
            check(int(j) == want, "from_int(%d) -> %r" % (want, j))

for v in range(128):
    n = Note(v)
    check(int(n) == v, "Note(%d) has int %d" % (v, int(n)))
    check(int(Note().from_int(v)) == v, "from_int(%d)" % v)
    check(int(Note(repr(n).strip("'"))) == v, "Note(printed Note(%d))" % v)
    check(int(Note(n)) == v, "Note(Note(%d))" % v)
    check(notes.is_valid_note(n.name), "from_int(%d) gives valid name %r" % (v, n.name))
    check(0 <= n.octave and n.octave == v // 12, "from_int(%d) octave %r" % (v, n.octave))

# core note_to_int is the pitch class
for name in NAMES:
    want = (NATURAL[name[0]] + name[1:].count("#") - name[1:].count("b")) % 12
    check(notes.note_to_int(name) == want, "note_to_int(%r)" % name)
    check(notes.is_valid_note(name), "is_valid_note(%r)" % name)
for v in range(12):
    check(notes.note_to_int(notes.int_to_note(v)) == v, "int_to_note(%d) sharp" % v)
    check(notes.note_to_int(notes.int_to_note(v, "b")) == v, "int_to_note(%d) flat" % v)

# 2. comparisons --------------------------------------------------------------
OPS = [operator.lt, operator.le, operator.eq, operator.ne, operator.gt, operator.ge]
sample = [Note(nm, o) for nm in ["C", "B#", "Dbb", "Cb", "E", "Fb", "E#", "F", "A##", "B", "Cbb", "G#", "Ab"]
          for o in (0, 3, 4, 5, 9)]
sample += [Note(v) for v in (0, 1, 47, 48, 59, 60, 61, 126, 127)]
for a, b in itertools.product(sample, repeat=2):
    ia, ib = int(a), int(b)
    for op in OPS:
        got = op(a, b)
        check(got is op(ia, ib) or got == op(ia, ib), "%s(%r, %r) = %r, ints %d %d" % (op.__name__, a, b, got, ia, ib))
check(Note("B#", 3) == Note("C", 4), "B#-3 == C-4")
check(Note("Dbb", 4) == Note("C", 4), "Dbb-4 == C-4")
check(not (Note("C#", 4) != Note("Db", 4)), "C#-4 != Db-4 is False")
shuffled = sample[::3] + sample[1::3] + sample[2::3]
srt = sorted(shuffled)
check([int(x) for x in srt] == sorted(int(x) for x in shuffled), "sorting is by pitch")
check(int(min(sample)) == min(int(x) for x in sample) and int(max(sample)) == max(int(x) for x in sample), "min/max")

# 3. frequencies -----------------------------------------------------------------
def close(x, y, rel=1e-9):
    return abs(x - y) <= rel * max(abs(x), abs(y))

PITCHES = [440, 415, 432, 442.5, 466.16, 392.0, 100, 1000]
for sp in PITCHES:
    check(close(Note("A", 4).to_hertz(sp), sp), "A-4 at %r" % sp)
    check(close(Note("A", 4).to_hertz(standard_pitch=sp), sp), "A-4 at %r (keyword)" % sp)
    for v in range(128):
        n = Note(v)
        hz = n.to_hertz(sp)
        check(close(hz, sp * 2.0 ** ((v - 57) / 12.0)), "to_hertz(%r) of %d = %r" % (sp, v, hz))
        if v + 12 < 128:
            check(close(Note(v + 12).to_hertz(sp), 2 * hz), "octave doubling at %d, %r" % (v, sp))
        for cents in (0, 40, -40, 17.5, -33):
            detuned = hz * 2.0 ** (cents / 1200.0)
            back = Note().from_hertz(detuned, sp)
            check(int(back) == v, "from_hertz(%r, %r) = %r, want pitch %d" % (detuned, sp, back, v))
        back = Note().from_hertz(hertz=hz, standard_pitch=sp)
        check(int(back) == v, "from_hertz keywords %r %r" % (hz, sp))
check(close(Note("A", 4).to_hertz(), 440), "default A-4 = 440")
check(Note("A", 3).to_hertz() * 2 == Note("A", 4).to_hertz(), "A-3 doubles to A-4")
for v in range(128):
    check(int(Note().from_hertz(Note(v).to_hertz())) == v, "default round trip %d" % v)
for name in ("B#", "Cb", "Fbb", "G##"):
    for octave in (0, 4, 9):
        n = Note(name, octave)
        check(close(n.to_hertz(), 440 * 2.0 ** ((int(n) - 57) / 12.0)), "to_hertz of %r" % n)
        if 0 <= int(n) <= 127:
            check(int(Note().from_hertz(n.to_hertz())) == int(n), "Hz round trip of %r" % n)

# 4. Helmholtz shorthand --------------------------------------------------------
for name in NAMES:
    for octave in OCTAVES:
        sh = Note(name, octave).to_shorthand()
        back = Note("G", 7).from_shorthand(sh)
        check(back.name == name and back.octave == octave, "shorthand %r of %s-%d read back as %r" % (sh, name, octave, back))
        back2 = Note().from_shorthand(shorthand=sh)
        check(back2.name == name and back2.octave == octave, "shorthand keyword %r" % sh)
check(Note("C", 4).to_shorthand() == "c'" and Note("C", 2).to_shorthand() == "C", "documented shorthand")
check(Note("C", 0).to_shorthand() == "C,," and Note("C", 3).to_shorthand() == "c", "documented shorthand 2")

# 5. rejections --------------------------------------------------------------------
def raises(exc, f, *a, **k):
    try:
        f(*a, **k)
    except exc:
        return True
    except Exception as e:  # wrong class
        return "wrong exception %s: %s" % (type(e).__name__, e)
    return "no exception"

for vel in (-1000, -2, -1, 128, 129, 255, 10 ** 6):
    check(raises(ValueError, Note, "C", 4, velocity=vel) is True, "velocity %r accepted (ctor)" % vel)
    check(raises(ValueError, Note, "C", 4, {"velocity": vel}) is True, "velocity %r accepted (dynamics)" % vel)
    check(raises(ValueError, Note().set_velocity, vel) is True, "velocity %r accepted (set_velocity)" % vel)
    check(raises(ValueError, Note().set_note, "C", 4, velocity=vel) is True, "velocity %r accepted (set_note)" % vel)
for vel in (0, 1, 63, 64, 126, 127):
    n = Note("C", 4, velocity=vel)
    check(n.velocity == vel and n.dynamics["velocity"] == vel, "velocity %r kept" % vel)
    m = Note()
    m.set_velocity(vel)
    check(m.velocity == vel, "set_velocity %r" % vel)
for ch in (-100, -2, -1, 16, 17, 128):
    check(raises(ValueError, Note, "C", 4, channel=ch) is True, "channel %r accepted (ctor)" % ch)
    check(raises(ValueError, Note, "C", 4, {"channel": ch}) is True, "channel %r accepted (dynamics)" % ch)
    check(raises(ValueError, Note().set_channel, ch) is True, "channel %r accepted (set_channel)" % ch)
    check(raises(ValueError, Note().set_note, "C", 4, channel=ch) is True, "channel %r accepted (set_note)" % ch)
for ch in range(16):
    n = Note("C", 4, channel=ch)
    check(n.channel == ch and n.dynamics["channel"] == ch, "channel %r kept" % ch)
    m = Note()
    m.set_channel(ch)
    check(m.channel == ch, "set_channel %r" % ch)

NFE = (ContainerNoteFormatError, CoreNoteFormatError)
BAD = ["H", "c", "X#", "C 23", "C# 123", "C-4-5", "C-x", "C-", "C--4", "C#-4.0", "C-4\n", "C\n", "C{", "C%", "C%s",
       "C{0}", "Cx", "C#x", "C#-4b", "1", "#C", "bB", "C-+4", "C- 4", "C -4", "Do", "C" + "#" * 50 + "!", "C-4 "]
for bad in BAD:
    r = raises(NFE, Note, bad)
    check(r is True, "Note(%r): %s" % (bad, r))
    r = raises(NFE, Note().set_note, bad)
    check(r is True, "set_note(%r): %s" % (bad, r))
    keep = Note("E", 5)
    try:
        keep.set_note(bad)
    except Exception:
        pass
    check(int(keep) == 12 * 5 + 4, "failed set_note(%r) moved the pitch to %r" % (bad, keep))
for bad in ["H", "c", "C 23", "Cx", "C\n", "C{", "C%"]:
    check(notes.is_valid_note(bad) is False, "is_valid_note(%r)" % bad)
    r = raises(CoreNoteFormatError, notes.note_to_int, bad)
    check(r is True, "note_to_int(%r): %s" % (bad, r))
for bad in (None, 3.5, [1], object()):
    r = raises(NFE, Note, bad)
    check(r is True, "Note(%r): %s" % (bad, r))

# 6. copies are independent -----------------------------------------------------------
for maker in (lambda n: Note(n), copy.copy, copy.deepcopy):
    src = Note("Eb", 5, velocity=90, channel=7)
    dup = maker(src)
    check(dup is not src, "copy is a new object")
    check(dup.name == "Eb" and dup.octave == 5 and int(dup) == int(src), "copy has the pitch")
    check(dup.velocity == 90 and dup.channel == 7, "copy has velocity/channel")
    dup.set_note("G", 2)
    dup.set_velocity(10)
    dup.set_channel(3)
    check(src.name == "Eb" and src.octave == 5 and src.velocity == 90 and src.channel == 7,
          "changing the copy changed the source: %r %r %r" % (src, src.velocity, src.channel))
    dup2 = maker(src)
    src.from_int(0)
    src.set_velocity(1)
    src.octave_up()
    check(dup2.name == "Eb" and dup2.octave == 5 and dup2.velocity == 90, "changing the source changed the copy")
# a note used several times keeps answering the same, and tracks mutation
n = Note("C", 4)
vals = [int(n) for _ in range(5)]
check(vals == [48] * 5, "repeated int()")
n.augment()
check(int(n) == 49 and n.name == "C#", "augment tracked")
n.octave_up()
check(int(n) == 61, "octave_up tracked")
n.name = "Db"
check(int(n) == 61 and n == Note("C#", 5), "direct name assignment tracked")
n.octave = 2
check(int(n) == 25 and n < Note("D", 2) and n > Note("C", 2), "direct octave assignment tracked")
n.set_note("Fb-3")
check(int(n) == 40, "set_note tracked")

if failures:
    print("PROPERTY VIOLATED: %d of %d checks failed" % (len(failures), checked[0]))
    for f in failures[:25]:
        print("  -", f)
    sys.exit(1)
print("ok: %d checks" % checked[0])
sys.exit(0)
