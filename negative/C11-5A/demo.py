import mingus, os; assert os.path.realpath(mingus.__file__).startswith(os.path.realpath(os.path.dirname(__file__)))
"""Direct check of property C11 (transposition is semitone-exact and reversible
at every container level) through the public API.  Exit 0 = holds, 1 = not."""
import random
import sys

from mingus.containers import Note, NoteContainer, Bar, Track

LETTERS = "CDEFGAB"
NATURAL = {"C": 0, "D": 2, "E": 4, "F": 5, "G": 7, "A": 9, "B": 11}
MAJOR = [0, 2, 4, 5, 7, 9, 11]
ACCS = ["bb", "b", "", "#", "##"]
NAMES = [l + a for l in LETTERS for a in ACCS]
SHORTHANDS = [a + str(n) for n in range(1, 8) for a in ACCS]
assert len(NAMES) == 35 and len(SHORTHANDS) == 35

failures = []
checked = [0]


def fail(msg):
    failures.append(msg)
    if len(failures) > 15:
        finish()


def finish():
    if failures:
        print("C11 VIOLATED (%d shown):" % len(failures))
        for f in failures:
            print("  " + f)
        sys.exit(1)
    print("C11 holds on %d checks" % checked[0])
    sys.exit(0)


def pitch(name, octave):
    """Independent pitch number: octave*12 + natural + sharps - flats."""
    return octave * 12 + NATURAL[name[0]] + name[1:].count("#") - name[1:].count("b")


def size(shorthand):
    return MAJOR[int(shorthand[-1]) - 1] + shorthand.count("#") - shorthand.count("b")


def in_range(shorthand):
    return 0 <= size(shorthand) <= 11


def valid_name(name):
    return (
        isinstance(name, str)
        and len(name) >= 1
        and name[0] in LETTERS
        and all(c in "#b" for c in name[1:])
    )


def check_note(name, octave, sh, up, how="pos"):
    n = Note(name, octave)
    before = pitch(name, octave)
    if int(n) != before:
        fail("int(Note(%r,%r)) = %r, expected %r" % (name, octave, int(n), before))
    if how == "pos":
        r = n.transpose(sh, up)
    elif how == "kw":
        r = n.transpose(interval=sh, up=up)
    else:
        r = n.transpose(sh, up=(1 if up else 0))
    checked[0] += 1
    tag = "Note(%r,%r).transpose(%r,%r)" % (name, octave, sh, up)
    if not valid_name(n.name):
        fail("%s gave invalid name %r" % (tag, n.name))
        return
    if not isinstance(n.octave, int) or isinstance(n.octave, bool):
        fail("%s gave non-int octave %r" % (tag, n.octave))
        return
    want = before + size(sh) if up else before - size(sh)
    got = pitch(n.name, n.octave)
    if got != want or int(n) != want:
        fail("%s -> %r-%r pitch %r/%r, expected %r" % (tag, n.name, n.octave, got, int(n), want))
    step = int(sh[-1]) - 1
    letter = LETTERS[(LETTERS.index(name[0]) + (step if up else -step)) % 7]
    if n.name[0] != letter:
        fail("%s -> %r, expected letter %s" % (tag, n.name, letter))
    # and back
    n.transpose(sh, not up)
    if n.name != name or n.octave != octave:
        fail("%s then back gave %r-%r" % (tag, n.name, n.octave))


# ---- 1. single notes: all names x octaves x shorthands x directions ---------
for name in NAMES:
    for octave in range(0, 10):
        for sh in SHORTHANDS:
            if not in_range(sh):
                continue
            for up in (True, False):
                check_note(name, octave, sh, up)

# a spread of unusual but legal argument forms
rng = random.Random(1105)


class MyStr(str):
    pass


for i in range(300):
    name = rng.choice(NAMES)
    octave = rng.randint(0, 9)
    sh = rng.choice([s for s in SHORTHANDS if in_range(s)])
    up = rng.random() < 0.5
    check_note(name, octave, sh, up, how=rng.choice(["pos", "kw", "int"]))
    check_note(MyStr(name), octave, MyStr(sh), up)

# names with more accidentals: pitch / letter still exact (no round trip claim
# is checked beyond three accidentals)
for name in [l + a for l in LETTERS for a in ("###", "bbb")]:
    for sh in SHORTHANDS:
        if in_range(sh):
            for up in (True, False):
                check_note(name, 4, sh, up)


# ---- 2. containers ----------------------------------------------------------
def snapshot_nc(nc):
    return [(n.name, n.octave, n.velocity, n.channel) for n in nc.notes]


def snapshot_bar(bar):
    out = []
    for beat, dur, cont in bar.bar:
        out.append((beat, dur, None if cont is None else snapshot_nc(cont)))
    return out


def snapshot_track(track):
    return [snapshot_bar(b) for b in track.bars]


def apply_to_note(tup, op):
    """The single-note operation, on a fresh standalone Note."""
    name, octave, vel, chan = tup
    n = Note(name, octave)
    if op[0] == "transpose":
        n.transpose(op[1], op[2])
    elif op[0] == "augment":
        n.augment()
    else:
        n.diminish()
    return (n.name, n.octave, vel, chan)


def expect_nc(snap, op):
    return [apply_to_note(t, op) for t in snap]


def expect_bar(snap, op):
    return [(b, d, None if c is None else expect_nc(c, op)) for (b, d, c) in snap]


def expect_track(snap, op):
    return [expect_bar(b, op) for b in snap]


def do(obj, op, style=0):
    if op[0] == "transpose":
        if style == 0:
            obj.transpose(op[1], op[2])
        elif style == 1:
            obj.transpose(interval=op[1], up=op[2])
        elif op[2]:
            obj.transpose(op[1])
        else:
            obj.transpose(op[1], up=False)
    elif op[0] == "augment":
        obj.augment()
    else:
        obj.diminish()


GOOD = [s for s in SHORTHANDS if in_range(s)]


def random_op(r):
    k = r.random()
    if k < 0.6:
        return ("transpose", r.choice(GOOD), r.random() < 0.5)
    if k < 0.8:
        return ("augment",)
    return ("diminish",)


def random_chord(r):
    k = r.randint(1, 4)
    notes = []
    for _ in range(k):
        n = Note(r.choice(NAMES), r.randint(1, 7))
        n.velocity = r.randint(1, 127)
        n.channel = r.randint(0, 15)
        notes.append(n)
    return NoteContainer(notes)


def random_track(r):
    t = Track()
    for _ in range(r.randint(1, 4)):
        b = Bar("C", r.choice([(4, 4), (3, 4), (6, 8)]))
        guard = 0
        while not b.is_full() and guard < 40:
            guard += 1
            dur = r.choice([2, 4, 8, 16, 4, 8])
            if r.random() < 0.25:
                b.place_rest(dur)
            elif r.random() < 0.5:
                b.place_notes(random_chord(r), dur)
            else:
                b.place_notes(Note(r.choice(NAMES), r.randint(1, 7)), dur)
        t.add_bar(b)
    return t


def pitch_check(before, after, op, where):
    """Transposition moves every pitch by exactly the size of the interval."""
    if op[0] != "transpose":
        return
    d = size(op[1]) if op[2] else -size(op[1])
    for x, y in zip(before, after):
        if pitch(y[0], y[1]) != pitch(x[0], x[1]) + d:
            fail("%s %r: %r -> %r is not %+d semitones" % (where, op, x, y, d))


# note containers
for i in range(150):
    nc = random_chord(rng)
    op = random_op(rng)
    before = snapshot_nc(nc)
    objs = list(nc.notes)
    do(nc, op, i % 3)
    checked[0] += 1
    after = snapshot_nc(nc)
    if after != expect_nc(before, op):
        fail("NoteContainer %r %r -> %r" % (before, op, after))
    if [id(o) for o in objs] != [id(o) for o in nc.notes]:
        fail("NoteContainer %r: the notes are no longer the same objects in the same order" % (op,))
    pitch_check(before, after, op, "NoteContainer")

# bars
for i in range(120):
    t = random_track(rng)
    bar = t.bars[0]
    op = random_op(rng)
    before = snapshot_bar(bar)
    meta = (bar.current_beat, bar.length, bar.meter, len(bar))
    do(bar, op, i % 3)
    checked[0] += 1
    after = snapshot_bar(bar)
    if after != expect_bar(before, op):
        fail("Bar %r %r -> %r" % (before, op, after))
    if meta != (bar.current_beat, bar.length, bar.meter, len(bar)):
        fail("Bar %r changed its beat bookkeeping" % (op,))
    for (b0, d0, c0), (b1, d1, c1) in zip(before, after):
        if (b0, d0) != (b1, d1) or (c0 is None) != (c1 is None):
            fail("Bar %r moved a beat / duration / rest" % (op,))
        elif c0 is not None:
            pitch_check(c0, c1, op, "Bar")

# tracks, with sequences of steps
for i in range(120):
    t = random_track(rng)
    nbars = len(t.bars)
    for step in range(rng.randint(1, 5)):
        op = random_op(rng)
        before = snapshot_track(t)
        do(t, op, (i + step) % 3)
        checked[0] += 1
        after = snapshot_track(t)
        if after != expect_track(before, op):
            fail("Track %r %r -> %r" % (before, op, after))
            break
        for sb, sa in zip(before, after):
            for (b0, d0, c0), (b1, d1, c1) in zip(sb, sa):
                if (b0, d0) != (b1, d1) or (c0 is None) != (c1 is None):
                    fail("Track %r moved a beat / duration / rest" % (op,))
                elif c0 is not None:
                    pitch_check(c0, c1, op, "Track")
    if len(t.bars) != nbars:
        fail("Track changed its number of bars")

# there and back at every level
for i in range(100):
    t = random_track(rng)
    sh = rng.choice(GOOD)
    up = rng.random() < 0.5
    level = rng.choice(["track", "bar", "nc"])
    if level == "track":
        obj, snap = t, snapshot_track
    elif level == "bar":
        obj, snap = t.bars[-1], snapshot_bar
    else:
        obj, snap = random_chord(rng), snapshot_nc
    before = snap(obj)
    obj.transpose(sh, up)
    obj.transpose(sh, not up)
    checked[0] += 1
    if snap(obj) != before:
        fail("%s transpose %r %r and back: %r -> %r" % (level, sh, up, before, snap(obj)))
    obj.augment()
    obj.diminish()
    checked[0] += 1
    if snap(obj) != before:
        fail("%s augment+diminish: %r -> %r" % (level, before, snap(obj)))
    obj.diminish()
    obj.augment()
    if snap(obj) != before:
        fail("%s diminish+augment: %r -> %r" % (level, before, snap(obj)))

# augment / diminish on single notes
for name in NAMES:
    n = Note(name, 4)
    p = int(n)
    n.augment()
    checked[0] += 1
    if int(n) != p + 1 or n.name[0] != name[0] or n.octave != 4:
        fail("augment %r -> %r-%r" % (name, n.name, n.octave))
    n.diminish()
    if n.name != name or n.octave != 4:
        fail("augment+diminish %r -> %r-%r" % (name, n.name, n.octave))
    n.diminish()
    if int(n) != p - 1 or n.name[0] != name[0] or n.octave != 4:
        fail("diminish %r -> %r-%r" % (name, n.name, n.octave))

# a long container and a long track: every note, once
many = NoteContainer([Note().from_int(i) for i in range(12, 108)])
before = snapshot_nc(many)
many.transpose("b6", False)
if snapshot_nc(many) != expect_nc(before, ("transpose", "b6", False)):
    fail("96-note container transposed wrongly")
long_track = Track()
for i in range(400):
    long_track.add_notes(None if i % 7 == 3 else Note(NAMES[i % 35], 1 + i % 6), [4, 8, 8, 2][i % 4])
before = snapshot_track(long_track)
long_track.transpose("#4")
checked[0] += 2
if snapshot_track(long_track) != expect_track(before, ("transpose", "#4", True)):
    fail("long track transposed wrongly")

# ---- 3. octaves never go below 0 -------------------------------------------
for octave in range(0, 6):
    for diff in range(-9, 4):
        n = Note("D#", octave)
        n.change_octave(diff)
        checked[0] += 1
        if n.octave != max(0, octave + diff) or n.name != "D#":
            fail("change_octave(%d) from %d gave %r-%r" % (diff, octave, n.name, n.octave))
n = Note("Gb", 2)
for want in (1, 0, 0, 0):
    n.octave_down()
    if n.octave != want:
        fail("octave_down gave %r, expected %r" % (n.octave, want))
n.octave_up()
if n.octave != 1:
    fail("octave_up from 0 gave %r" % n.octave)
n = Note("C", 0)
n.change_octave(diff=-3)
if n.octave != 0:
    fail("change_octave(diff=-3) at 0 gave %r" % n.octave)

finish()
