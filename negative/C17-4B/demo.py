import mingus, os; assert os.path.realpath(mingus.__file__).startswith(os.path.realpath(os.path.dirname(__file__)))

"""Direct check of property C17 (MIDI write / read round trip) through the
public API.  Exit 0 if it holds on every case, 1 with a message otherwise."""

import io
import random
import shutil
import sys
import tempfile

from mingus.containers import Bar, Composition, Note, NoteContainer, Track
from mingus.containers.instrument import MidiInstrument
from mingus.core.keys import major_keys, minor_keys
from mingus.midi import midi_file_in, midi_file_out
from mingus.midi.midi_track import MidiTrack

TICKS_PER_WHOLE = 288
TMP = tempfile.mkdtemp(prefix="c17demo")
PATH = os.path.join(TMP, "t.mid")
ALL_KEYS = list(major_keys) + list(minor_keys)
METERS = [(4, 4), (3, 4), (2, 4), (6, 8), (2, 2), (5, 4), (7, 8), (12, 8), (3, 8)]
# tick counts that are whole and whose value 288/k is used as the note value
TICK_CHOICES = [9, 12, 18, 24, 27, 36, 48, 54, 72, 96, 108, 144, 216, 288]
failures = []
cases = [0]


def fail(msg):
    failures.append(msg)
    if len(failures) > 20:
        finish()


def finish():
    shutil.rmtree(TMP, ignore_errors=True)
    if failures:
        print("C17 FAILS (%d cases run):" % cases[0])
        for f in failures[:20]:
            print("  -", f)
        sys.exit(1)
    print("C17 holds on %d cases" % cases[0])
    sys.exit(0)


def ticks_of(value):
    return int(round(TICKS_PER_WHOLE / float(value)))


def flatten(track):
    """[(ticks, frozenset of (pitch, channel, velocity))], rests merged,
    trailing rests dropped."""
    out = []
    for bar in track.bars:
        for entry in bar.bar:
            cont = entry[2]
            notes = frozenset((int(n), n.channel, n.velocity) for n in cont) if cont else frozenset()
            t = ticks_of(entry[1])
            if not notes and out and not out[-1][1]:
                out[-1] = (out[-1][0] + t, frozenset())
            else:
                out.append((t, notes))
    while out and not out[-1][1]:
        out.pop()
    return out


def roundtrip(comp, bpm, label):
    cases[0] += 1
    if os.path.exists(PATH):
        os.remove(PATH)
    ok = midi_file_out.write_Composition(PATH, comp, bpm)
    if ok is not True:
        fail("%s: write_Composition returned %r" % (label, ok))
        return None
    try:
        res = midi_file_in.MIDI_to_Composition(PATH)
    except Exception as e:
        fail("%s: reading back raised %r" % (label, e))
        return None
    comp2, bpm2 = res
    if bpm2 != bpm:
        fail("%s: bpm %r came back as %r" % (label, bpm, bpm2))
    if len(comp2.tracks) != len(comp.tracks):
        fail("%s: %d tracks came back as %d" % (label, len(comp.tracks), len(comp2.tracks)))
        return comp2
    for i, (a, b) in enumerate(zip(comp.tracks, comp2.tracks)):
        fa, fb = flatten(a), flatten(b)
        if [(t, frozenset(p for p, _, _ in s)) for t, s in fa] != [
            (t, frozenset(p for p, _, _ in s)) for t, s in fb
        ]:
            fail("%s track %d: sequence differs\n      wrote %r\n      read  %r" % (label, i, fa, fb))
        elif fa != fb:
            fail("%s track %d: channel/velocity differs\n      wrote %r\n      read  %r" % (label, i, fa, fb))
        if b.name != a.name:
            fail("%s track %d: name %r came back as %r" % (label, i, a.name, b.name))
        nr = getattr(a.instrument, "instrument_nr", None)
        if nr is not None and fa:
            if getattr(b.instrument, "instrument_nr", None) != nr:
                fail("%s track %d: instrument %r came back as %r" % (label, i, nr, getattr(b.instrument, "instrument_nr", None)))
        sigs = set((bar.meter, bar.key.key, bar.key.mode) for bar in a.bars)
        if len(sigs) == 1:
            (sig,) = sigs
            for j, bar in enumerate(b.bars):
                got = (tuple(bar.meter), bar.key.key, bar.key.mode)
                if got != sig:
                    fail("%s track %d bar %d: meter/key %r came back as %r" % (label, i, j, sig, got))
    return comp2


def rand_note(rng):
    n = Note(rng.choice(["C", "C#", "Db", "D", "Eb", "E", "F", "F#", "G", "Ab", "A", "Bb", "B"]), rng.randint(0, 8))
    n.velocity = rng.choice([1, 2, 63, 64, 100, 126, 127, rng.randint(1, 127)])
    n.channel = rng.randint(0, 15)
    return n


def rand_bar(rng, key, meter, rest_prob):
    b = Bar(key, meter)
    room = int(round(TICKS_PER_WHOLE * meter[0] / float(meter[1])))
    while room >= min(TICK_CHOICES):
        k = rng.choice([t for t in TICK_CHOICES if t <= room])
        value = TICKS_PER_WHOLE / float(k)
        if TICKS_PER_WHOLE % k == 0 and rng.random() < 0.7:
            value = TICKS_PER_WHOLE // k
        if rng.random() < rest_prob:
            placed = b.place_rest(value) if rng.random() < 0.5 else b.place_notes(NoteContainer(), value)
        else:
            nc = NoteContainer()
            for _ in range(rng.choice([1, 1, 1, 2, 3, 4, 6])):
                nc.add_note(rand_note(rng))
            placed = b.place_notes(nc, value)
        if not placed:
            break
        room -= k
        if rng.random() < 0.05:
            break  # leave some bars not completely filled
    return b


def rand_track(rng, name, nbars, one_signature=True, rest_prob=0.25, instrument=None):
    t = Track()
    if name is not None:
        t.name = name
    if instrument is not None:
        i = MidiInstrument()
        i.instrument_nr = instrument
        t.instrument = i
    key, meter = rng.choice(ALL_KEYS), rng.choice(METERS)
    for _ in range(nbars):
        if not one_signature:
            key, meter = rng.choice(ALL_KEYS), rng.choice(METERS)
        t.add_bar(rand_bar(rng, key, meter, rest_prob))
    return t


# ---------------------------------------------------------------- 1. random compositions
NAMES = ["Untitled", "lead", "a", "", "Bass {0} %s %d 100%", "line1\nline2", "tab\there", "x" * 130, "x" * 300,
         "~!@#$^&*()[]<>?/\\|'\"", " leading and trailing "]
rng = random.Random(17)
for case in range(140):
    c = Composition()
    for k in range(rng.choice([1, 1, 2, 3, 5])):
        c.add_track(rand_track(rng, rng.choice(NAMES + [None]), rng.randint(1, 6),
                               one_signature=rng.random() < 0.7,
                               rest_prob=rng.choice([0.0, 0.25, 0.6]),
                               instrument=rng.choice([None, 0, 1, 5, 64, 127, rng.randint(0, 127)])))
    roundtrip(c, rng.choice([4, 60, 120, 133, 240, 999, 1000, rng.randint(4, 1000)]), "random#%d" % case)

# a very long track, and the same composition written and read several times
c = Composition()
c.add_track(rand_track(rng, "long", 400, one_signature=True, instrument=12))
c.add_track(rand_track(rng, "long2", 300, one_signature=False))
for rep in range(3):
    roundtrip(c, 90 + rep, "long rep %d" % rep)

# the same Track object used twice in a composition, same Bar object twice in a track
t = rand_track(rng, "shared", 3, instrument=7)
t.add_bar(t.bars[0])
c = Composition()
c.add_track(t)
c.add_track(t)
roundtrip(c, 120, "shared objects")

# composition without tracks / tracks without bars
roundtrip(Composition(), 120, "empty composition")
c = Composition()
c.add_track(Track())
c.add_track(rand_track(rng, "second", 2))
roundtrip(c, 77, "empty first track")

# ---------------------------------------------------------------- 2. systematic: all 30 keys x meters
for key in ALL_KEYS:
    for meter in METERS[:4]:
        c = Composition()
        t = Track()
        t.name = "k " + key
        for _ in range(3):
            b = Bar(key, meter)
            b.place_notes("C-4", meter[1])
            b.place_rest(meter[1])
            while b.place_notes(["E-4", "G-5"], meter[1]):
                pass
            t.add_bar(b)
        c.add_track(t)
        roundtrip(c, 120, "key %s meter %r" % (key, meter))

# every single whole-tick value once, with leading / inner / doubled rests
for k in [k for k in range(1, 289) if 288 % k == 0] + [27, 54, 108, 216, 5, 7, 100, 250]:
    value = 288.0 / k
    c = Composition()
    t = Track()
    b = Bar("C", (4, 4))
    b.place_rest(value)
    b.place_notes("A-3", value)
    b.place_rest(value)
    b.place_rest(value)
    b.place_notes(["A-3", "C-4"], value)
    t.add_bar(b)
    b = Bar("C", (4, 4))
    b.place_notes("B-3", value)
    t.add_bar(b)
    c.add_track(t)
    roundtrip(c, 120, "ticks %d" % k)

# every instrument number, every channel, every velocity
for nr in range(128):
    c = Composition()
    t = Track()
    i = MidiInstrument()
    i.instrument_nr = nr
    t.instrument = i
    b = Bar()
    n = Note("C", 4, velocity=max(1, nr), channel=nr % 16)
    b.place_notes(NoteContainer([n]), 4)
    n2 = Note(name="G", octave=nr % 9, velocity=127 - nr if nr < 127 else 1, channel=(nr * 7) % 16)
    b.place_notes(NoteContainer([n2, Note("B", 8, velocity=nr or 1, channel=15 - nr % 16)]), 4)
    t.add_bar(b)
    c.add_track(t)
    roundtrip(c, 120, "instrument %d" % nr)

# ---------------------------------------------------------------- 3. tempo, bpm 4..1000 exhaustively
c = Composition()
t = Track()
b = Bar()
b.place_notes("C-4", 4)
t.add_bar(b)
c.add_track(t)
c.add_track(rand_track(rng, "other", 1))
for bpm in range(4, 1001):
    roundtrip(c, bpm, "bpm %d" % bpm)

# ---------------------------------------------------------------- 4. variable-length quantities
values = set()
for e in (0, 7, 14, 21, 28):
    for d in range(-300, 301):
        values.add((1 << e) + d)
for d in range(0, 70000):
    values.add(d)
vr = random.Random(4)
for _ in range(30000):
    values.add(vr.randrange(0, 1 << 28))
    values.add(vr.randrange(0, 1 << vr.randint(1, 28)))
values = sorted(v for v in values if 0 <= v < (1 << 28))
writer = MidiTrack()
reader = midi_file_in.MidiFile()
cases[0] += 1
for v in values:
    data = writer.int_to_varbyte(v)
    if not isinstance(data, bytes):
        fail("int_to_varbyte(%d) returned %r" % (v, data))
        break
    got = reader.parse_varbyte_as_int(io.BytesIO(data + b"\x55\xaa"))
    got2 = midi_file_in.MidiFile().parse_varbyte_as_int(io.BytesIO(data), False)
    if got != (v, len(data)) or got2 != v:
        fail("VLQ %d -> %r -> %r / %r" % (v, data, got, got2))
        break
# repeated in reverse order (any memoisation must not matter)
for v in reversed(values[::97]):
    data = MidiTrack().int_to_varbyte(v)
    if midi_file_in.MidiFile().parse_varbyte_as_int(io.BytesIO(data)) != (v, len(data)):
        fail("VLQ (second pass) %d -> %r" % (v, data))
        break

# ---------------------------------------------------------------- 5. files that are not MIDI
c = Composition()
c.add_track(rand_track(rng, "good", 2, instrument=3))
c.add_track(rand_track(rng, "good2", 2))
roundtrip(c, 120, "base file for corruption")
good = open(PATH, "rb").read()
second = good.index(b"MTrk", good.index(b"MTrk") + 1)
bad_files = {
    "empty file": b"",
    "text file": b"this is not a midi file at all, {} %s\n" * 5,
    "RIFF": b"RIFF" + good[4:],
    "lower case tag": b"mthd" + good[4:],
    "MThd shifted": b"\x00" + good,
    "MTrk as header": b"MTrk" + good[4:],
    "format 3": good[:8] + b"\x00\x03" + good[10:],
    "format 255": good[:8] + b"\x00\xff" + good[10:],
    "format 0x0100": good[:8] + b"\x01\x00" + good[10:],
    "format 0xffff": good[:8] + b"\xff\xff" + good[10:],
    "bad first track tag": good[:14] + b"MTrx" + good[18:],
    "first track tag MThd": good[:14] + b"MThd" + good[18:],
    "bad second track tag": good[:second] + b"XTrk" + good[second + 4:],
    "zeroed second track tag": good[:second] + b"\x00\x00\x00\x00" + good[second + 4:],
}
for label, data in sorted(bad_files.items()):
    for rep in range(2):  # refused calls repeated
        cases[0] += 1
        p = os.path.join(TMP, "bad.mid")
        with open(p, "wb") as f:
            f.write(data)
        try:
            res = midi_file_in.MIDI_to_Composition(p)
        except Exception:
            pass
        else:
            fail("not-MIDI file (%s) was returned as music: %r" % (label, res))
# and the good file still reads after all the refusals
cases[0] += 1
with open(PATH, "wb") as f:
    f.write(good)
try:
    comp2, bpm2 = midi_file_in.MIDI_to_Composition(PATH)
    if bpm2 != 120 or len(comp2.tracks) != 2 or [flatten(x) for x in comp2.tracks] != [flatten(x) for x in c.tracks]:
        fail("good file read differently after refused files")
except Exception as e:
    fail("good file refused after refused files: %r" % (e,))

finish()
