import mingus, os; assert os.path.realpath(mingus.__file__).startswith(os.path.realpath(os.path.dirname(__file__)))
import copy
import sys

from mingus.containers.note import Note
from mingus.core import notes as core_notes

NATURAL = {"C": 0, "D": 2, "E": 4, "F": 5, "G": 7, "A": 9, "B": 11}
ACCS = ["", "#", "##", "b", "bb"]
NAMES = [l + a for l in "CDEFGAB" for a in ACCS]
OCTAVES = list(range(10))
PITCHES = [440, 415, 432, 442.5, 466.16]

fails = []
count = [0]


def check(cond, msg):
    count[0] += 1
    if not cond:
        fails.append(msg)


def expected(name, octave):
    return 12 * octave + NATURAL[name[0]] + name.count("#") - name[1:].count("b")


def rejected(fn, *a, **k):
    try:
        fn(*a, **k)
    except Exception:
        return True
    return False


# 1. integer value, text forms, copies
for name in NAMES:
    check(core_notes.is_valid_note(name), "is_valid_note(%r)" % name)
    check(
        core_notes.note_to_int(name) == expected(name, 0) % 12,
        "note_to_int(%r)" % name,
    )
    for octave in OCTAVES:
        want = expected(name, octave)
        n = Note(name, octave)
        tag = "%s-%d" % (name, octave)
        check(int(n) == want, "int(Note(%s)) = %r, want %d" % (tag, int(n), want))
        check(int(Note(tag)) == want, "Note(%r) text form" % tag)
        check(int(Note().set_note(tag)) == want, "set_note(%r)" % tag)
        check(int(Note().set_note(name, octave)) == want, "set_note(%r, %d)" % (name, octave))
        printed = repr(n).strip("'")
        check(int(Note(printed)) == want, "printed form %r of %s" % (repr(n), tag))
        check(int(Note(n)) == want, "Note(Note(%s))" % tag)
        if want >= 0:
            m = Note().from_int(want)
            check(int(m) == want, "from_int(%d) -> %r" % (want, m))
            check(int(Note(want)) == want, "Note(%d)" % want)
        # Helmholtz round trip keeps name and octave
        sh = n.to_shorthand()
        back = Note().from_shorthand(sh)
        check(
            (back.name, back.octave) == (name, octave),
            "shorthand %r of %s read back as %s-%s" % (sh, tag, back.name, back.octave),
        )
        # Hz: octave doubling and A-4 anchor
        for sp in (440, 432):
            hz = n.to_hertz(sp)
            a4 = sp * 2 ** ((want - 57) / 12.0)
            check(abs(hz - a4) <= 1e-9 * a4, "to_hertz(%s, %s) = %r" % (tag, sp, hz))
            if octave < 9:
                up = Note(name, octave + 1).to_hertz(sp)
                check(abs(up - 2 * hz) <= 1e-9 * up, "octave doubling at %s" % tag)

for sp in PITCHES:
    check(abs(Note("A", 4).to_hertz(sp) - sp) <= 1e-9 * sp, "A-4 at %s" % sp)
check(abs(Note("A", 4).to_hertz() - 440) <= 1e-9, "A-4 default 440")

# 2. integers 0..127 and Hz round trips with detuning
for i in range(128):
    n = Note().from_int(i)
    check(int(n) == i, "from_int(%d)" % i)
    check(int(Note(i)) == i, "Note(%d)" % i)
    check(core_notes.is_valid_note(n.name), "from_int(%d) name %r" % (i, n.name))
    for sp in PITCHES:
        hz = n.to_hertz(sp)
        for cents in (0, -40, 40, 17):
            f = hz * 2 ** (cents / 1200.0)
            back = Note().from_hertz(f, sp)
            check(
                int(back) == i,
                "from_hertz(%r, %s) [%d, %+d cents] -> %r" % (f, sp, i, cents, back),
            )

# 3. comparisons over ordered pairs
sample = [Note(nm, o) for nm in ["C", "B#", "Cb", "Dbb", "E#", "F", "G##", "A", "Bb"] for o in (0, 3, 4, 9)]
for a in sample:
    for b in sample:
        x, y = int(a), int(b)
        check((a < b) == (x < y), "%r < %r" % (a, b))
        check((a <= b) == (x <= y), "%r <= %r" % (a, b))
        check((a > b) == (x > y), "%r > %r" % (a, b))
        check((a >= b) == (x >= y), "%r >= %r" % (a, b))
        check((a == b) == (x == y), "%r == %r" % (a, b))
        check((a != b) == (x != y), "%r != %r" % (a, b))
check(Note("C#", 4) == Note("Db", 4), "enharmonic equal")
check(Note("B#", 3) == Note("C", 4), "B#-3 == C-4")
shuffled = sample[::-1][3:] + sample[::-1][:3]
srt = sorted(shuffled)
check([int(s) for s in srt] == sorted(int(s) for s in shuffled), "sorting by pitch")

# 4. rejections
for v in (-5, -1, 128, 129, 500):
    check(rejected(Note, "C", 4, velocity=v), "velocity %d accepted" % v)
    check(rejected(Note, "C", 4, {"velocity": v}), "dynamics velocity %d accepted" % v)
    check(rejected(Note().set_velocity, v), "set_velocity(%d) accepted" % v)
for v in (0, 1, 64, 126, 127):
    check(Note("C", 4, velocity=v).velocity == v, "velocity %d" % v)
    check(Note("C", 4, {"velocity": v}).velocity == v, "dynamics velocity %d" % v)
for c in (-3, -1, 16, 17, 100):
    check(rejected(Note, "C", 4, channel=c), "channel %d accepted" % c)
    check(rejected(Note, "C", 4, {"channel": c}), "dynamics channel %d accepted" % c)
    check(rejected(Note().set_channel, c), "set_channel(%d) accepted" % c)
for c in (0, 1, 8, 14, 15):
    check(Note("C", 4, channel=c).channel == c, "channel %d" % c)
    check(Note("C", 4, {"channel": c}).channel == c, "dynamics channel %d" % c)
for bad in ["H", "c", "C 23", "C# 123", "Cx", "C#-4-5", "X-4", "4", "C$", "#C", "h-3"]:
    check(rejected(Note, bad), "malformed %r accepted" % bad)
    check(rejected(Note().set_note, bad), "set_note malformed %r accepted" % bad)
for bad in ["H", "c", "Cx", "C$", "#C", "C-4"]:
    check(not core_notes.is_valid_note(bad), "is_valid_note(%r)" % bad)
    check(rejected(core_notes.note_to_int, bad), "note_to_int(%r) accepted" % bad)
check(rejected(Note, 3.5), "Note(3.5) accepted")

# 5. copies are independent
for make in (lambda n: Note(n), copy.copy, copy.deepcopy):
    src = Note("Eb", 5, velocity=90, channel=3)
    dup = make(src)
    check(dup is not src, "copy is same object")
    check(
        (dup.name, dup.octave, dup.velocity, dup.channel) == ("Eb", 5, 90, 3),
        "copy content %r" % dup,
    )
    dup.set_note("G", 2)
    dup.set_velocity(10)
    dup.set_channel(9)
    check(
        (src.name, src.octave, src.velocity, src.channel) == ("Eb", 5, 90, 3),
        "mutating copy changed the source",
    )
    src.octave_up()
    src.augment()
    check((dup.name, dup.octave, dup.velocity, dup.channel) == ("G", 2, 10, 9), "mutating source changed copy")

if fails:
    print("PROPERTY VIOLATED: %d of %d checks failed" % (len(fails), count[0]))
    for f in fails[:25]:
        print("  " + f)
    sys.exit(1)
print("ok: %d checks" % count[0])
sys.exit(0)
