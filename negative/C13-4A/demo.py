import mingus, os; assert os.path.realpath(mingus.__file__).startswith(os.path.realpath(os.path.dirname(__file__)))
"""Direct check of property C13 (Bar time accounting) through the public API.

Exit status 0 when the statement holds on all the cases below, 1 (with a
message) otherwise.
"""
import itertools
import random
import sys
from fractions import Fraction

from mingus.containers import Bar, Note, NoteContainer
from mingus.core import value

TOL = 1e-9
CASES = 0


class Failure(Exception):
    pass


def fail(msg):
    raise Failure(msg)


# --------------------------------------------------------------------------
# vocabulary: (value handed to the library, exact length in whole notes)
VOC = []
for v in value.base_values:
    base = 1 / Fraction(v)
    VOC.append((v, base))
    VOC.append((value.dots(v), base * Fraction(3, 2)))
    VOC.append((value.dots(v, 2), base * Fraction(7, 4)))
    VOC.append((value.triplet(v), base * Fraction(2, 3)))
    VOC.append((value.quintuplet(v), base * Fraction(4, 5)))
    VOC.append((value.septuplet(v), base * Fraction(4, 7)))
EXACT = {}
for v, l in VOC:
    EXACT.setdefault(v, l)
    assert EXACT[v] == l, (v, l, EXACT[v])



def exact(v):
    """Exact length of a value of the vocabulary (or of a plain integer value)."""
    if v in EXACT:
        return EXACT[v]
    assert isinstance(v, int) and v > 0, v
    return Fraction(1, v)


METERS = [(4, 4), (3, 4), (6, 8), (12, 8), (5, 4), (7, 8), (2, 2), (1, 1), (9, 16), (3, 2), (0, 0), (0, 4), (1, 128)]


def contents():
    return [
        None,
        "C",
        "Eb-5",
        "B#",
        "Cbb-2",
        Note("G", 3),
        ["C", "E", "G"],
        [Note("A", 2), "F#"],
        NoteContainer(["D", "F#", "A"]),
        NoteContainer(),
        [],
    ]


def expected_content(content):
    """What an accepted entry must hold for this content (as text)."""
    if content is None:
        return None
    if isinstance(content, NoteContainer):
        return repr(NoteContainer(list(content.notes)))
    return repr(NoteContainer(content))


class Model(object):
    """Exact rational model of a bar."""

    def __init__(self, meter):
        self.meter = meter
        self.length = Fraction(meter[0], meter[1]) if meter[1] else Fraction(0)
        self.entries = []  # (exact length, value, expected text)
        self.total = Fraction(0)

    def fits(self, v):
        return self.meter == (0, 0) or self.total + exact(v) <= self.length

    def place(self, v, text):
        self.entries.append((exact(v), v, text))
        self.total += exact(v)

    def remove(self):
        l, _, _ = self.entries.pop()
        self.total -= l

    def full(self):
        return len(self.entries) > 0 and abs(self.length - self.total) <= Fraction(1, 1000)


def snapshot(bar):
    return (
        [(e[0], e[1], type(e[1]), repr(e[2]), id(e[2])) for e in bar.bar],
        bar.current_beat,
        bar.length,
        bar.meter,
        len(bar),
    )


def check_totals(bar, model, where):
    if len(bar) != len(model.entries) or len(bar.bar) != len(model.entries):
        fail("%s: %d entries, expected %d" % (where, len(bar), len(model.entries)))
    if abs(bar.current_beat - float(model.total)) > TOL:
        fail("%s: current_beat %r, expected %s" % (where, bar.current_beat, model.total))
    if abs(bar.current_beat + bar.space_left() - float(model.length)) > TOL:
        fail("%s: current_beat + space_left = %r, expected %s" % (where, bar.current_beat + bar.space_left(), model.length))
    if bar.length != float(model.length):
        fail("%s: length %r, expected %s" % (where, bar.length, model.length))
    full = bar.is_full()
    if full is not model.full() and bool(full) != model.full():
        fail("%s: is_full() %r, expected %r" % (where, full, model.full()))
    if model.entries:
        l, v, text = model.entries[-1]
        e = bar[len(model.entries) - 1]
        if abs(e[0] - float(model.total - l)) > TOL:
            fail("%s: last start %r, expected %s" % (where, e[0], model.total - l))


def check_all(bar, model, where):
    check_totals(bar, model, where)
    acc = Fraction(0)
    for i, (l, v, text) in enumerate(model.entries):
        e = bar[i]
        if len(e) != 3:
            fail("%s: entry %d has %d fields" % (where, i, len(e)))
        if abs(e[0] - float(acc)) > TOL:
            fail("%s: entry %d starts at %r, expected %s" % (where, i, e[0], acc))
        if e[1] != v or type(e[1]) is not type(v):
            fail("%s: entry %d has value %r, expected %r" % (where, i, e[1], v))
        if text is None:
            if e[2] is not None:
                fail("%s: entry %d should be a rest, is %r" % (where, i, e[2]))
        else:
            if not isinstance(e[2], NoteContainer):
                fail("%s: entry %d content is %r, not a NoteContainer" % (where, i, type(e[2])))
            if repr(e[2]) != text:
                fail("%s: entry %d content %r, expected %s" % (where, i, e[2], text))
        acc += l


def do_place(bar, model, v, content, where, via="place"):
    """One placement (notes, rest or '+'), compared with the model."""
    global CASES
    CASES += 1
    ok = model.fits(v)
    heavy = not ok or len(model.entries) <= 8 or CASES % 53 == 0
    before = snapshot(bar) if heavy else None
    text = expected_content(content)
    if via == "rest":
        res = bar.place_rest(v)
    elif via == "plus":
        res = bar + content
    elif via == "kw":
        res = bar.place_notes(notes=content, duration=v)
    else:
        res = bar.place_notes(content, v)
    if res is not ok and res != ok:
        fail("%s: placing %r returned %r, model says %r (total %s, length %s)" % (where, v, res, ok, model.total, model.length))
    if ok:
        model.place(v, text)
        if heavy and snapshot(bar)[0][:-1] != before[0]:
            fail("%s: an accepted placement touched earlier entries" % where)
        if isinstance(content, NoteContainer) and bar[len(bar) - 1][2] != content:
            fail("%s: a NoteContainer was not stored as given" % where)
    else:
        if snapshot(bar) != before:
            fail("%s: a refused placement of %r changed the bar" % (where, v))


def do_remove(bar, model, where):
    global CASES
    CASES += 1
    if not model.entries:
        before = snapshot(bar)
        try:
            bar.remove_last_entry()
        except Exception:
            pass
        if snapshot(bar) != before:
            fail("%s: remove on an empty bar changed it" % where)
        return
    before = snapshot(bar)
    res = bar.remove_last_entry()
    model.remove()
    if snapshot(bar)[0] != before[0][:-1]:
        fail("%s: remove_last_entry touched other entries" % where)
    if abs(res - float(model.total)) > TOL:
        fail("%s: remove_last_entry returned %r, expected %s" % (where, res, model.total))


def plus_value(meter):
    return meter[1] if meter[1] != 0 else 4


# --------------------------------------------------------------------------
def exhaustive():
    rnd = random.Random(13)
    for meter in [(4, 4), (3, 4), (6, 8), (5, 4), (0, 0), (7, 8), (2, 2)]:
        vals = [4, 8, value.dots(4), value.triplet(8), value.quintuplet(16), value.septuplet(8), 2, 1]
        ops = [("place", v) for v in vals[:5]] + [("rest", vals[5]), ("rest", vals[6]), ("plus", None), ("remove", None)]
        for depth in (1, 2, 3, 4):
            if depth == 4:
                if meter not in ((4, 4), (3, 4), (0, 0)):
                    continue
                ops = ops[1:4] + ops[5:6] + ops[7:]
            for seq in itertools.product(ops, repeat=depth):
                bar, model = Bar("C", meter), Model(meter)
                where = "meter %r seq %r" % (meter, seq)
                for kind, v in seq:
                    if kind == "place":
                        do_place(bar, model, v, rnd.choice(contents()[1:]), where)
                    elif kind == "rest":
                        do_place(bar, model, v, None, where, via="rest")
                    elif kind == "plus":
                        do_place(bar, model, plus_value(meter), rnd.choice(contents()[1:]), where, via="plus")
                    else:
                        do_remove(bar, model, where)
                    check_totals(bar, model, where)
                check_all(bar, model, where)


def fills():
    for meter in METERS:
        if meter == (0, 0):
            continue
        for v, l in VOC:
            bar, model = Bar("C", meter), Model(meter)
            where = "fill meter %r value %r" % (meter, v)
            n = 0
            while n < 5000:
                fits = model.fits(v)
                do_place(bar, model, v, "C" if n % 2 else None, where)
                if not fits:
                    break
                n += 1
            if n != model.length // l:
                fail("%s: %d placed, expected %s" % (where, n, model.length // l))
            check_all(bar, model, where)
            # refused again, and again
            do_place(bar, model, v, "E", where)
            do_place(bar, model, v, None, where, via="rest")
            # take two off, put one back, drain, refill a little
            for _ in range(min(2, n)):
                do_remove(bar, model, where)
                check_totals(bar, model, where)
            do_place(bar, model, v, ["C", "G"], where, via="kw")
            check_totals(bar, model, where)
            if n <= 300:
                while model.entries:
                    do_remove(bar, model, where)
                check_totals(bar, model, where)
                do_place(bar, model, v, "D", where)
                check_all(bar, model, where)


def mixed_fills():
    """Capacity reached with mixed values that sum exactly to the bar."""
    t8, q16, s8, d4 = value.triplet(8), value.quintuplet(16), value.septuplet(8), value.dots(4)
    recipes = [
        ((4, 4), [t8] * 3 + [q16] * 5 + [s8] * 7 + [4]),
        ((4, 4), [q16] * 20),
        ((12, 8), [value.triplet(16)] * 36),
        ((3, 4), [d4, d4]),
        ((6, 8), [value.dots(8)] * 4),
        ((7, 8), [s8] * 7 + [d4]),
        ((5, 4), [value.quintuplet(4)] * 5 + [value.dots(2, 2)] + [value.dots(16, 2)] + [64]),
        ((4, 4), [value.septuplet(128)] * 224),
    ]
    for meter, seq in recipes:
        bar, model = Bar("C", meter), Model(meter)
        where = "mixed fill %r %r" % (meter, seq[:4])
        for v in seq:
            do_place(bar, model, v, "C", where)
            check_totals(bar, model, where)
        if model.total > model.length:
            fail("bad recipe " + where)
        check_all(bar, model, where)
        for v, l in VOC[::7]:
            do_place(bar, model, v, "C", where)
        check_all(bar, model, where)


def random_histories():
    rnd = random.Random(1313)
    plans = [(m, 400) for m in METERS] + [((0, 0), 6000), ((4, 4), 6000), ((12, 8), 3000)]
    for meter, steps in plans:
        bar, model = Bar("C", meter), Model(meter)
        short = [v for v, l in VOC if l <= Fraction(1, 4)]
        for step in range(steps):
            where = "random meter %r step %d" % (meter, step)
            r = rnd.random()
            if r < 0.45:
                pool = short if rnd.random() < 0.7 else [v for v, l in VOC]
                do_place(bar, model, rnd.choice(pool), rnd.choice(contents()), where, via=rnd.choice(["place", "kw"]))
            elif r < 0.6:
                do_place(bar, model, rnd.choice(short), None, where, via="rest")
            elif r < 0.7:
                do_place(bar, model, plus_value(meter), rnd.choice(contents()[1:]), where, via="plus")
            elif r < 0.9:
                do_remove(bar, model, where)
            elif r < 0.95 and model.entries:
                # assign new content to an index
                i = rnd.randrange(len(model.entries))
                if rnd.random() < 0.3:
                    i -= len(model.entries)
                content = rnd.choice(contents()[1:])
                before = snapshot(bar)
                bar[i] = content
                after = snapshot(bar)
                j = i % len(model.entries)
                l, v, _ = model.entries[j]
                model.entries[j] = (l, v, expected_content(content))
                for k, (x, y) in enumerate(zip(before[0], after[0])):
                    if (k != j and x != y) or x[:3] != y[:3]:
                        fail("%s: bar[%d] = ... changed more than that content" % (where, i))
                if before[1:] != after[1:]:
                    fail("%s: bar[%d] = ... changed the accounting" % (where, i))
            elif model.entries:
                # add notes to a sounding entry at its beat
                sounding = [k for k, e in enumerate(model.entries) if e[2] is not None]
                if sounding:
                    j = rnd.choice(sounding)
                    extra = rnd.choice(["C", Note("F", 5), ["E", "B"], NoteContainer(["Ab", "C"])])
                    before = snapshot(bar)
                    want = NoteContainer(list(bar[j][2].notes))
                    want + extra
                    bar.place_notes_at(extra, bar[j][0])
                    after = snapshot(bar)
                    l, v, _ = model.entries[j]
                    model.entries[j] = (l, v, repr(want))
                    for k, (x, y) in enumerate(zip(before[0], after[0])):
                        if (k != j and x != y) or x[:3] != y[:3]:
                            fail("%s: place_notes_at changed more than that content" % where)
                    if before[1:] != after[1:]:
                        fail("%s: place_notes_at changed the accounting" % where)
            check_totals(bar, model, where)
            if step % 97 == 0 or len(model.entries) < 12:
                check_all(bar, model, where)
        check_all(bar, model, "random meter %r end" % (meter,))


def meters():
    global CASES
    units = list(range(0, 70)) + [96, 100, 128, 255, 256, 512, 1000, 1024, 2048, -4, -1]
    for count in list(range(0, 14)) + [17, 32]:
        for unit in units:
            CASES += 1
            power = unit >= 1 and unit & (unit - 1) == 0
            ok = power or (count, unit) == (0, 0)
            bar = Bar("C", (4, 4))
            bar.place_notes("C", 4)
            before = snapshot(bar)
            for form in ((count, unit), [count, unit]):
                if form == [0, 0]:
                    continue
                try:
                    bar.set_meter(form)
                    accepted = True
                except Exception:
                    accepted = False
                where = "set_meter(%r)" % (form,)
                if accepted != ok:
                    fail("%s: accepted=%r, expected %r" % (where, accepted, ok))
                if ok:
                    want = Fraction(count, unit) if unit else Fraction(0)
                    if bar.length != float(want) or tuple(bar.meter) != (count, unit):
                        fail("%s: meter %r length %r" % (where, bar.meter, bar.length))
                    if abs(bar.current_beat + bar.space_left() - bar.length) > TOL:
                        fail("%s: beat + space != length" % where)
                else:
                    if snapshot(bar) != before:
                        fail("%s: a refused meter changed the bar" % where)
            # constructor form
            try:
                b2 = Bar("C", (count, unit))
                accepted = True
            except Exception:
                accepted = False
            if accepted != ok:
                fail("Bar('C', %r): accepted=%r, expected %r" % ((count, unit), accepted, ok))
            if ok and unit:
                # the new meter governs the accounting
                model = Model((count, unit))
                for v in (unit, unit, 4, value.triplet(8), 1):
                    do_place(b2, model, v, "C", "Bar('C', %r)" % ((count, unit),))
                check_all(b2, model, "Bar('C', %r)" % ((count, unit),))


def main():
    try:
        exhaustive()
        fills()
        mixed_fills()
        random_histories()
        meters()
    except Failure as e:
        print("C13 VIOLATED: %s" % e)
        return 1
    print("C13 holds on %d cases" % CASES)
    return 0


if __name__ == "__main__":
    sys.exit(main())
