import mingus, os; assert os.path.realpath(mingus.__file__).startswith(os.path.realpath(os.path.dirname(__file__)))
"""Direct check of property C05 through the public API of mingus.core.scales.

Exits 0 when the property holds on every case tried, 1 with a message otherwise.
The reference side (spelling of scales, recognition) is computed here, from the
step patterns alone, without using the library.
"""
import random
import sys

from mingus.core import scales

LETTERS = "CDEFGAB"
NAT = {"C": 0, "D": 2, "E": 4, "F": 5, "G": 7, "A": 9, "B": 11}

KEY_PAIRS = [("Cb", "ab"), ("Gb", "eb"), ("Db", "bb"), ("Ab", "f"), ("Eb", "c"), ("Bb", "g"), ("F", "d"), ("C", "a"),
             ("G", "e"), ("D", "b"), ("A", "f#"), ("E", "c#"), ("B", "g#"), ("F#", "d#"), ("C#", "a#")]
MAJOR_TONICS = [p[0] for p in KEY_PAIRS]
MINOR_TONICS = [p[1][0].upper() + p[1][1:] for p in KEY_PAIRS]
FREE_TONICS = [l + a for l in LETTERS for a in ("", "#", "b", "##", "bb")]

NAT_MINOR = (2, 1, 2, 2, 1, 2, 2)
PATTERNS = {
    "Ionian": (2, 2, 1, 2, 2, 2, 1),
    "Dorian": (2, 1, 2, 2, 2, 1, 2),
    "Phrygian": (1, 2, 2, 2, 1, 2, 2),
    "Lydian": (2, 2, 2, 1, 2, 2, 1),
    "Mixolydian": (2, 2, 1, 2, 2, 1, 2),
    "Aeolian": NAT_MINOR,
    "Locrian": (1, 2, 2, 1, 2, 2, 2),
    "Major": (2, 2, 1, 2, 2, 2, 1),
    "HarmonicMajor": (2, 2, 1, 2, 1, 3, 1),
    "NaturalMinor": NAT_MINOR,
    "HarmonicMinor": (2, 1, 2, 2, 1, 3, 1),
    "MelodicMinor": (2, 1, 2, 2, 2, 2, 1),
    "Bachian": (2, 1, 2, 2, 2, 2, 1),
    "MinorNeapolitan": (1, 2, 2, 2, 1, 3, 1),
    "Chromatic": (1,) * 12,
    "WholeTone": (2,) * 6,
    "Octatonic": (2, 1) * 4,
}
TONICS = {}
for _c in ("Ionian", "Dorian", "Phrygian", "Lydian", "Mixolydian", "Aeolian", "Locrian", "WholeTone", "Octatonic"):
    TONICS[_c] = FREE_TONICS
for _c in ("Major", "HarmonicMajor"):
    TONICS[_c] = MAJOR_TONICS
for _c in ("NaturalMinor", "HarmonicMinor", "MelodicMinor", "Bachian", "MinorNeapolitan"):
    TONICS[_c] = MINOR_TONICS
OWN_DESCENT = ("MelodicMinor", "MinorNeapolitan", "Chromatic")
MAJOR_FAMILY = ("Major", "HarmonicMajor")
MINOR_FAMILY = ("NaturalMinor", "HarmonicMinor", "MelodicMinor", "Bachian", "MinorNeapolitan")

checked = [0]


def fail(msg):
    print("PROPERTY C05 VIOLATED: " + msg)
    sys.exit(1)


def ok(cond, msg):
    checked[0] += 1
    if not cond:
        fail(msg)


def pitch(note):
    if not note or note[0] not in NAT or any(ch not in "#b" for ch in note[1:]):
        fail("not a note name: %r" % (note,))
    return (NAT[note[0]] + note.count("#") - note.count("b")) % 12


def steps_of(notes):
    return tuple((pitch(b) - pitch(a)) % 12 for a, b in zip(notes, notes[1:]))


def spell(tonic, pattern):
    """Reference spelling of a heptatonic scale: consecutive letters, the given steps (one octave, no closing tonic)."""
    res = [tonic]
    p = pitch(tonic)
    li = LETTERS.index(tonic[0])
    for st in pattern[:-1]:
        p = (p + st) % 12
        li = (li + 1) % 7
        d = (p - NAT[LETTERS[li]] + 6) % 12 - 6
        res.append(LETTERS[li] + ("#" * d if d > 0 else "b" * -d))
    return res


def lower(note):
    return note[:-1] if note.endswith("#") else note + "b"


def ref_descending(cname, tonic):
    """Reference one-octave descending list (with both tonics) for the major and minor families."""
    if cname in ("MelodicMinor", "MinorNeapolitan"):
        up = spell(tonic, NAT_MINOR)
        if cname == "MinorNeapolitan":
            up[1] = lower(up[1])
    else:
        up = spell(tonic, PATTERNS[cname])
    return [tonic] + up[:0:-1] + [tonic]


def check_scale(cname, tonic, octaves, how):
    cls = getattr(scales, cname)
    pattern = PATTERNS[cname]
    if how == 0:
        s = cls(tonic, octaves)
    elif how == 1:
        s = cls(tonic, octaves=octaves)
    else:
        s = cls(tonic) if octaves == 1 else cls(tonic, octaves)
    where = "%s(%r, octaves=%d)" % (cname, tonic, octaves)
    asc = s.ascending()
    desc = s.descending()
    ok(isinstance(asc, list) and isinstance(desc, list), where + ": note lists are lists")
    start = tonic if cname != "Chromatic" else asc[0]
    if cname == "Chromatic":
        # the tonic of a chromatic scale is the first note of its key
        ok(pitch(asc[0]) == pitch(tonic[0].upper() + tonic[1:]) and asc[0] == tonic[0].upper() + tonic[1:],
           where + ": starts on %r" % (asc[0],))
    ok(len(asc) == len(pattern) * octaves + 1, where + ": ascending has %d notes: %r" % (len(asc), asc))
    ok(asc[0] == start and asc[-1] == start, where + ": ascending begins/ends %r/%r" % (asc[0], asc[-1]))
    ok(steps_of(asc) == pattern * octaves, where + ": ascending steps %r, notes %r" % (steps_of(asc), asc))
    if len(pattern) == 7:
        want = [LETTERS[(LETTERS.index(start[0]) + i) % 7] for i in range(7 * octaves + 1)]
        ok([n[0] for n in asc] == want, where + ": letters not consecutive: %r" % (asc,))
        ok(asc == spell(start, pattern) * octaves + [start], where + ": spelling %r" % (asc,))
    # descending
    if cname not in OWN_DESCENT:
        ok(desc == asc[::-1], where + ": descending %r is not the reverse of %r" % (desc, asc))
    elif cname == "Chromatic":
        ok(desc[0] == start and desc[-1] == start, where + ": descending begins/ends on %r/%r" % (desc[0], desc[-1]))
        ok([pitch(n) for n in desc] == [pitch(n) for n in asc[::-1]], where + ": descending %r" % (desc,))
    else:
        nat = scales.NaturalMinor(tonic, octaves).descending()
        ok(nat == scales.NaturalMinor(tonic, octaves).ascending()[::-1], where + ": natural minor")
        if cname == "MelodicMinor":
            ok(desc == nat, where + ": descends %r, natural minor descends %r" % (desc, nat))
        else:
            ok(len(desc) == len(nat), where + ": descending length")
            for i, (x, y) in enumerate(zip(desc, nat)):
                second = (len(nat) - 1 - i) % 7 == 1
                if second:
                    ok(x[0] == y[0] and (pitch(y) - pitch(x)) % 12 == 1 and x == lower(y),
                       where + ": second degree %r against natural minor %r" % (x, y))
                else:
                    ok(x == y, where + ": descending %r against natural minor %r" % (desc, nat))
        if len(pattern) == 7:
            one = ref_descending(cname, start)
            ok(desc == (one[:-1] * octaves + [start]), where + ": descending %r" % (desc,))
    # lists handed out are independent of the object
    asc.append("X")
    desc.insert(0, "X")
    ok(s.ascending() == asc[:-1] and s.descending() == desc[1:], where + ": lists changed after caller edits")
    asc.pop()
    desc.pop(0)
    # degrees
    up = desc[::-1]
    for d in range(1, len(asc)):
        ok(s.degree(d) == asc[d - 1], where + ": degree(%d) = %r, ascending %r" % (d, s.degree(d), asc))
        got = s.degree(d, "d") if d % 2 else s.degree(degree_number=d, direction="d")
        ok(got == up[d - 1], where + ": degree(%d, 'd') = %r, descending %r" % (d, got, desc))
    ok(s.degree(1, "a") == asc[0] and s.degree(1, direction="a") == asc[0], where + ": degree(1, 'a')")
    # length
    ok(len(s) == len(asc), where + ": len %d, %d notes" % (len(s), len(asc)))
    return s, asc, desc


def main():
    rnd = random.Random(505)
    built = []
    how = 0
    for cname in sorted(PATTERNS):
        tonics = TONICS.get(cname)
        if cname == "Chromatic":
            tonics = MAJOR_TONICS + [p[1] for p in KEY_PAIRS]
        for tonic in tonics:
            for octaves in (1, 2, 3) if cname != "Chromatic" else (1, 2):
                how = (how + 1) % 3
                built.append((cname, tonic, octaves) + check_scale(cname, tonic, octaves, how))
        # a long one
        t = tonics[len(tonics) // 2]
        built.append((cname, t, 40) + check_scale(cname, t, 40, 1))

    # equality follows the note lists
    sample = rnd.sample(built, 120)
    by_tonic = {}
    for rec in built:
        by_tonic.setdefault((rec[1], rec[2]), []).append(rec)
    pairs = [(rnd.choice(sample), rnd.choice(sample)) for _ in range(400)]
    for group in by_tonic.values():
        for a in group:
            for b in group:
                pairs.append((a, b))
    eq_true = 0
    for a, b in pairs:
        want = a[4] == b[4] and a[5] == b[5]
        eq_true += want
        ok((a[3] == b[3]) is want, "%s(%r,%d) == %s(%r,%d) is not %r" % (a[0], a[1], a[2], b[0], b[1], b[2], want))
        ok((a[3] != b[3]) is (not want), "%s(%r,%d) != %s(%r,%d) is not %r" % (a[0], a[1], a[2], b[0], b[1], b[2], not want))
    ok(eq_true > 100, "too few equal pairs tried")
    ok(scales.Ionian("C") == scales.Major("C") and scales.Aeolian("A", 2) == scales.NaturalMinor("A", 2), "equal lists")
    ok(scales.MelodicMinor("A") != scales.Bachian("A"), "melodic minor / Bachian differ in the descent")
    ok(scales.Major("C") != scales.Major("C", 2), "octave count changes the lists")

    # recognition against a brute-force specification
    candidates = []  # (name, ascending set, descending set) in no particular order
    for major, minor in KEY_PAIRS:
        for cname in MAJOR_FAMILY:
            candidates.append(("%s" % getattr(scales, cname)(major).name,
                               set(spell(major, PATTERNS[cname])), set(ref_descending(cname, major))))
        mt = minor[0].upper() + minor[1:]
        for cname in MINOR_FAMILY:
            candidates.append((getattr(scales, cname)(mt).name,
                               set(spell(mt, PATTERNS[cname])), set(ref_descending(cname, mt))))
    ok(len(set(c[0] for c in candidates)) == 105, "105 distinct scale names expected")
    pool = [l + a for l in LETTERS for a in ("", "#", "b", "##", "bb")]
    queries = [[], ["C"], ["A", "Bb", "E", "F#", "G"], ["C", "C", "E"], ["Cb"], ["B#"], ["E#", "F##"], ["Fb", "Bbb"], ["C", "C#"]]
    for name, up, down in candidates:
        for src in (sorted(up), sorted(down)):
            queries.append(rnd.sample(src, rnd.randint(1, 7)))
    for _ in range(150):
        queries.append(rnd.sample(pool[:21], rnd.randint(1, 4)))
        queries.append(rnd.sample(pool, rnd.randint(1, 3)))
    for i, q in enumerate(queries):
        want = sorted(name for name, up, down in candidates if set(q) <= up or set(q) <= down)
        arg = [list(q), tuple(q), iter(list(q))][i % 3]
        got = scales.determine(arg) if i % 2 else scales.determine(notes=arg)
        ok(isinstance(got, list) and sorted(got) == want, "determine(%r) = %r, expected (any order) %r" % (q, got, want))
    ok(sorted(scales.determine(["A", "Bb", "E", "F#", "G"])) == sorted(["G melodic minor", "G Bachian", "D harmonic major"]),
       "documented example")
    print("C05 holds on %d checks" % checked[0])
    sys.exit(0)


main()
