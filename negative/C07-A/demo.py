import mingus, os; assert os.path.realpath(mingus.__file__).startswith(os.path.realpath(os.path.dirname(__file__)))
"""Direct check of property C07 (chord recognition inverts construction)
through the public API of mingus.core.chords / mingus.core.intervals.

Exit status 0 when the statement holds on every case tried, 1 otherwise.
"""
import itertools
import random
import sys

from mingus.core import chords, intervals

LETTERS = "CDEFGAB"
ROOTS1 = [l + a for l in LETTERS for a in ("", "#", "b")]  # the 21 notes
ROOTS2 = ["C##", "Fbb", "G##", "Bbb", "E##", "Dbb"]  # sampled double accidentals
ORDINALS = [
    "",
    ", first inversion",
    ", second inversion",
    ", third inversion",
    ", fourth inversion",
    ", fifth inversion",
    ", sixth inversion",
]

failures = []
ncases = [0]


def fail(msg):
    failures.append(msg)
    if len(failures) >= 15:
        finish()


def finish():
    if failures:
        print("C07 VIOLATED (%d cases run)" % ncases[0])
        for f in failures:
            print("  " + f)
        sys.exit(1)
    print("C07 holds on %d cases" % ncases[0])
    sys.exit(0)


def both_forms(chord):
    """determine() in both output forms; neither may raise, same length."""
    given = list(chord)
    try:
        short = chords.determine(list(chord), True)
        long_ = chords.determine(list(chord), False)
    except Exception as e:  # noqa
        fail("determine(%r) raised %r" % (given, e))
        return None, None
    if not isinstance(short, list) or not isinstance(long_, list):
        fail("determine(%r) did not return lists: %r / %r" % (given, short, long_))
        return None, None
    if len(short) != len(long_):
        fail("determine(%r): forms differ in length: %r / %r" % (given, short, long_))
        return None, None
    return short, long_


def halves(name):
    return name.split("|")


def check_names_constructible(chord, short):
    """Every shorthand name (and each polychord half) is accepted by from_shorthand."""
    for name in short:
        for piece in [name] + (halves(name) if "|" in name else []):
            try:
                built = chords.from_shorthand(piece)
            except Exception as e:  # noqa
                fail("determine(%r, True) returned %r; from_shorthand(%r) raised %r"
                     % (chord, name, piece, e))
                continue
            if not isinstance(built, list) or not built:
                fail("from_shorthand(%r) gave %r" % (piece, built))


def check_same_order(chord, short, long_):
    """Same order: position i of both forms speaks of the same chord.

    A polychord name is the same in both forms; an ordinary long name starts
    with the root of the shorthand name at the same position and carries the
    meaning of that shorthand.
    """
    for s, l in zip(short, long_):
        if "|" in s or "|" in l:
            if s != l:
                fail("determine(%r): position mismatch %r vs %r" % (chord, s, l))
            continue
        root = s[0]
        for c in s[1:]:
            if c in "#b":
                root += c
            else:
                break
        # the root may swallow a leading 'b' of the shorthand only if the
        # shorthand starts with b, which no chord shorthand does
        sh = s[len(root):]
        meaning = chords.chord_shorthand_meaning.get(sh)
        if meaning is None:
            fail("determine(%r, True) returned unknown shorthand %r" % (chord, s))
            continue
        if not l.startswith(root + meaning):
            fail("determine(%r): position mismatch %r vs %r" % (chord, s, l))
            continue
        if l[len(root + meaning):] not in ORDINALS:
            fail("determine(%r): odd long form %r" % (chord, l))


# ---------------------------------------------------------------- part 1 --
# every shorthand x root x rotation x form
def check_built_chord(root, sh):
    name = root + sh
    try:
        base = chords.from_shorthand(name)
    except Exception as e:  # noqa
        fail("from_shorthand(%r) raised %r" % (name, e))
        return
    n = len(base)
    for k in range(n):
        ncases[0] += 1
        rot = base[k:] + base[:k]
        if n == 2:
            # documented trivial answer: the name of the interval
            for form in (True, False):
                got = chords.determine(list(rot), form)
                want = [intervals.determine(rot[0], rot[1])]
                if got != want:
                    fail("determine(%r, %r) = %r, expected %r" % (rot, form, got, want))
            continue
        short, long_ = both_forms(rot)
        if short is None:
            continue
        check_names_constructible(rot, short)
        check_same_order(rot, short, long_)
        want_long = root + chords.chord_shorthand_meaning[sh] + ORDINALS[k]
        hit = False
        for s, l in zip(short, long_):
            if "|" in s:
                continue
            try:
                rebuilt = chords.from_shorthand(s)
            except Exception:  # noqa  (already reported)
                continue
            if rebuilt == base and l == want_long:
                hit = True
                break
        if not hit:
            fail("%s = %r, rotation %d %r not recognised: short=%r long=%r (wanted %r)"
                 % (name, base, k, rot, short, long_, want_long))


for sh in sorted(chords.chord_shorthand):
    for root in ROOTS1:
        check_built_chord(root, sh)
rnd = random.Random(7)
for sh in sorted(chords.chord_shorthand):
    for root in rnd.sample(ROOTS2, 2):
        check_built_chord(root, sh)

# ---------------------------------------------------------------- part 2 --
# all 21^3 three-note inputs: every name denotes a chord containing the notes
for trio in itertools.product(ROOTS1, repeat=3):
    ncases[0] += 1
    trio = list(trio)
    short, long_ = both_forms(trio)
    if short is None:
        continue
    check_names_constructible(trio, short)
    check_same_order(trio, short, long_)
    for s in short:
        try:
            built = chords.from_shorthand(s)
        except Exception:  # noqa
            continue
        missing = [x for x in trio if x not in built]
        if missing:
            fail("determine(%r, True) returned %r = %r which lacks %r"
                 % (trio, s, built, missing))

# ---------------------------------------------------------------- part 3 --
# sampled 4-7 note inputs: no raise, same length / order, names constructible
POOL = ROOTS1 + ROOTS2
for n in (4, 5, 6, 7):
    for _ in range(150):
        ncases[0] += 1
        ch = [rnd.choice(POOL) for _ in range(n)]
        short, long_ = both_forms(ch)
        if short is None:
            continue
        check_names_constructible(ch, short)
        check_same_order(ch, short, long_)
# perturbations of real chords are likelier to be recognised as something
for sh in ("M7", "m7", "7", "9", "m9", "M9", "6/9", "13", "m11", "M13", "7b5", "dim7"):
    for root in ("C", "F#", "Bb", "E", "Ab"):
        base = chords.from_shorthand(root + sh)
        for _ in range(6):
            ncases[0] += 1
            ch = list(base)
            rnd.shuffle(ch)
            if rnd.random() < 0.5:
                ch[rnd.randrange(len(ch))] = rnd.choice(ROOTS1)
            if len(ch) < 7 and rnd.random() < 0.4:
                ch.append(rnd.choice(ROOTS1))
            short, long_ = both_forms(ch)
            if short is None:
                continue
            check_names_constructible(ch, short)
            check_same_order(ch, short, long_)

# ---------------------------------------------------------------- part 4 --
# trivial answers for 0, 1 and 2 notes
for form in (False, True):
    ncases[0] += 1
    if chords.determine([], form) != []:
        fail("determine([], %r) = %r" % (form, chords.determine([], form)))
    for note in ROOTS1 + ROOTS2:
        if chords.determine([note], form) != [note]:
            fail("determine([%r], %r) = %r" % (note, form, chords.determine([note], form)))
    for a, b, want in [
        ("C", "E", "major third"),
        ("C", "Eb", "minor third"),
        ("C", "G", "perfect fifth"),
        ("C", "F", "perfect fourth"),
        ("C", "E#", "augmented third"),
        ("C", "Ebb", "diminished third"),
        ("D", "C", "minor seventh"),
        ("F#", "C#", "perfect fifth"),
        ("Bb", "A", "major seventh"),
        ("A", "A", "major unison"),
        ("A", "A#", "augmented unison"),
        ("A", "Ab", "minor unison"),
        ("G", "Ab", "minor second"),
        ("B", "F", "minor fifth"),
        ("F", "B", "augmented fourth"),
        ("Eb", "C", "major sixth"),
    ]:
        ncases[0] += 1
        got = chords.determine([a, b], form)
        if got != [want]:
            fail("determine([%r, %r], %r) = %r, expected [%r]" % (a, b, form, got, want))
for a in ROOTS1:
    for b in ROOTS1:
        ncases[0] += 1
        got = chords.determine([a, b])
        if got != [intervals.determine(a, b)] or not isinstance(got[0], str):
            fail("determine([%r, %r]) = %r" % (a, b, got))

finish()
