import mingus, os; assert os.path.realpath(mingus.__file__).startswith(os.path.realpath(os.path.dirname(__file__)))

"""Direct check of property C19 through the public API.

LilyPond text of notes / note containers / bars / tracks / compositions is
decoded with a small independent reader of the subset used; MusicXML is decoded
with ElementTree.  Exit 0 when everything matches, 1 with a message otherwise.
"""
import random
import re
import sys
import xml.etree.ElementTree as ET
from fractions import Fraction

import mingus.core.value as value
import mingus.extra.lilypond as lilypond
import mingus.extra.musicxml as musicxml
from mingus.containers import Bar, Composition, Note, NoteContainer, Track
from mingus.containers.instrument import Instrument, MidiInstrument, Piano

CASES = [0]


class Mismatch(Exception):
    pass


def check(cond, msg):
    if not cond:
        raise Mismatch(msg)


# ---------------------------------------------------------------- vocabulary

LETTERS = "CDEFGAB"
ACCS = ["", "#", "##", "b", "bb"]
NAMES = [l + a for l in LETTERS for a in ACCS]
OCTAVES = list(range(0, 9))

MAJOR = ["Cb", "Gb", "Db", "Ab", "Eb", "Bb", "F", "C", "G", "D", "A", "E", "B", "F#", "C#"]
MINOR = ["ab", "eb", "bb", "f", "c", "g", "d", "a", "e", "b", "f#", "c#", "g#", "d#", "a#"]
FIFTHS = {}
for _i, (_M, _m) in enumerate(zip(MAJOR, MINOR)):
    FIFTHS[_M] = _i - 7
    FIFTHS[_m] = _i - 7
KEYS = MAJOR + MINOR

BASES = [0.25, 0.5, 1, 2, 4, 8, 16, 32, 64, 128]

# (value handed to the library, base, dots, (actual, normal))
VOCAB = []
for _b in BASES:
    VOCAB.append((_b, _b, 0, (1, 1)))
    VOCAB.append((float(_b), _b, 0, (1, 1)))
    for _d in range(1, 5):
        VOCAB.append((value.dots(_b, _d), _b, _d, (1, 1)))
    VOCAB.append((value.triplet(_b), _b, 0, (3, 2)))
    VOCAB.append((value.quintuplet(_b), _b, 0, (5, 4)))
    VOCAB.append((value.septuplet(_b), _b, 0, (7, 4)))
    VOCAB.append((value.tuplet(_b, 3, 2), _b, 0, (3, 2)))
# integer spellings of tuplets
for _v, _b, _r in [(3, 2, (3, 2)), (6, 4, (3, 2)), (12, 8, (3, 2)), (24, 16, (3, 2)),
                   (5, 4, (5, 4)), (10, 8, (5, 4)), (20, 16, (5, 4)), (7, 4, (7, 4)),
                   (14, 8, (7, 4)), (28, 16, (7, 4)), (48, 32, (3, 2)), (96, 64, (3, 2))]:
    VOCAB.append((_v, _b, 0, _r))

METERS = [(4, 4), (3, 4), (2, 4), (6, 8), (2, 2), (5, 4), (7, 8), (12, 8), (9, 8), (3, 8),
          (16, 4), (32, 4), (3, 2), (1, 1), (6, 4), (5, 8), (11, 16), (64, 4)]

MARKUP = [
    "Untitled", "A & B", "<tag>", "a < b > c", 'say "hi"', "it's", "50% {off}", "}{",
    "line one\nline two", "&amp; already", "]]> cdata end", "<!-- no -->", "café ♫",
    "% comment", "\\header", "tab\there", "  padded  ", "x" * 300, "&#38;", "<a href='x'>y</a>",
]


def quarter_length(base, dots, ratio):
    q = Fraction(4) / Fraction(base)
    q = q * (2 - Fraction(1, 2 ** dots))
    return q * Fraction(ratio[1], ratio[0])


# --------------------------------------------------- independent LilyPond reader

TOKEN = re.compile(
    r"\s*(?:(?P<cmd>\\[A-Za-z]+)|(?P<frac>\d+/\d+)|(?P<num>\d+)|(?P<dots>\.+)"
    r"|(?P<brace>[{}<>])|(?P<pitch>[a-g](?:is|es)*[',]*)|(?P<rest>r))"
)


def tokenize(text):
    pos = 0
    out = []
    text = text.rstrip()
    while pos < len(text):
        m = TOKEN.match(text, pos)
        check(m is not None and m.end() > pos, "untokenizable LilyPond at %r" % text[pos:pos + 30])
        out.append((m.lastgroup, m.group(m.lastgroup)))
        pos = m.end()
    return out


def decode_pitch(tok):
    m = re.match(r"^([a-g])((?:is|es)*)([',]*)$", tok)
    check(m is not None, "bad pitch %r" % tok)
    name = m.group(1).upper()
    suffix = m.group(2)
    for i in range(0, len(suffix), 2):
        name += "#" if suffix[i:i + 2] == "is" else "b"
    marks = m.group(3)
    check(len(set(marks)) <= 1, "mixed octave marks in %r" % tok)
    octave = 3 + marks.count("'") - marks.count(",")
    return (name, octave)


class Reader(object):
    def __init__(self, text):
        self.toks = tokenize(text)
        self.i = 0

    def peek(self):
        return self.toks[self.i] if self.i < len(self.toks) else (None, None)

    def take(self):
        t = self.peek()
        check(t[0] is not None, "unexpected end of LilyPond text")
        self.i += 1
        return t

    def expect(self, kind, text=None):
        t = self.take()
        check(t[0] == kind and (text is None or t[1] == text), "expected %s %r, got %r" % (kind, text, t))
        return t[1]

    def duration(self):
        kind, tok = self.peek()
        base = None
        if kind == "num":
            self.take()
            base = int(tok)
        elif kind == "cmd" and tok in ("\\longa", "\\breve"):
            self.take()
            base = 0.25 if tok == "\\longa" else 0.5
        else:
            return None
        dots = 0
        if self.peek()[0] == "dots":
            dots = len(self.take()[1])
        return (base, dots)

    def sequence(self, ratio=(1, 1)):
        """Items up to (not including) the closing brace / end."""
        items = []
        while True:
            kind, tok = self.peek()
            if kind is None or (kind == "brace" and tok == "}"):
                return items
            self.take()
            if kind == "brace" and tok == "{":
                inner = self.sequence(ratio)
                self.expect("brace", "}")
                items.append(("block", inner))
            elif kind == "brace" and tok == "<":
                notes = []
                while self.peek()[0] == "pitch":
                    notes.append(decode_pitch(self.take()[1]))
                self.expect("brace", ">")
                items.append(("entry", notes, self.duration(), ratio))
            elif kind == "pitch":
                items.append(("entry", [decode_pitch(tok)], self.duration(), ratio))
            elif kind == "rest":
                items.append(("entry", [], self.duration(), ratio))
            elif kind == "cmd" and tok == "\\times":
                n, d = self.expect("frac").split("/")
                check(ratio == (1, 1), "nested tuplets")
                self.expect("brace", "{")
                inner = self.sequence((int(d), int(n)))
                self.expect("brace", "}")
                items.extend(inner)
            elif kind == "cmd" and tok == "\\key":
                tonic = decode_pitch(self.expect("pitch"))
                mode = self.expect("cmd")
                check(mode in ("\\major", "\\minor"), "bad mode %r" % mode)
                check(tonic[1] == 3, "key tonic carries octave marks")
                items.append(("key", tonic[0], mode[1:]))
            elif kind == "cmd" and tok == "\\time":
                n, d = self.expect("frac").split("/")
                items.append(("time", int(n), int(d)))
            else:
                check(False, "unexpected token %r" % (tok,))


def read_single_block(text):
    r = Reader(text)
    items = r.sequence()
    check(r.peek()[0] is None, "trailing LilyPond tokens")
    check(len(items) == 1 and items[0][0] == "block", "expected exactly one { } block: %r" % text[:60])
    return items[0][1]


# ------------------------------------------------------------- expected models

def expected_notes(nc):
    if nc is None:
        return []
    return [(n.name, n.octave) for n in nc.notes]


def expected_entries(bar, spec):
    """spec: list of (base, dots, ratio) parallel to bar.bar."""
    check(len(spec) == len(bar.bar), "demo bookkeeping error")
    out = []
    for entry, (base, dots, ratio) in zip(bar.bar, spec):
        out.append((expected_notes(entry[2]), (base, dots), ratio))
    return out


def check_bar_items(items, bar, spec, what):
    """Return (key or None, time or None) shown in the bar after checking entries."""
    key = None
    time = None
    entries = []
    for it in items:
        if it[0] == "key":
            check(key is None and not entries, "%s: key shown twice or late" % what)
            key = (it[1], it[2])
        elif it[0] == "time":
            check(time is None and not entries, "%s: time shown twice or late" % what)
            time = (it[1], it[2])
        elif it[0] == "entry":
            entries.append((it[1], it[2], it[3]))
        else:
            check(False, "%s: unexpected nested block inside bar" % what)
    exp = expected_entries(bar, spec)
    check(len(entries) == len(exp), "%s: %d entries decoded, %d expected" % (what, len(entries), len(exp)))
    for k, (got, want) in enumerate(zip(entries, exp)):
        check(got[0] == want[0], "%s entry %d: notes %r != %r" % (what, k, got[0], want[0]))
        check(got[1] is not None, "%s entry %d: no duration" % (what, k))
        check(got[1][0] == want[1][0] and got[1][1] == want[1][1],
              "%s entry %d: value %r != %r" % (what, k, got[1], want[1]))
        check(tuple(got[2]) == tuple(want[2]), "%s entry %d: ratio %r != %r" % (what, k, got[2], want[2]))
    if key is not None:
        tonic = bar.key.key[0].upper() + bar.key.key[1:]
        mode = "minor" if bar.key.key[0].islower() else "major"
        check(key == (tonic, mode), "%s: key %r != %r" % (what, key, (tonic, mode)))
    if time is not None:
        check(time == tuple(bar.meter), "%s: time %r != %r" % (what, time, bar.meter))
    return key, time


def check_track_items(items, track, specs, what):
    blocks = [it for it in items if it[0] == "block"]
    check(len(blocks) == len(items), "%s: stray items between bars" % what)
    check(len(blocks) == len(track.bars), "%s: %d bars decoded, %d expected" % (what, len(blocks), len(track.bars)))
    cur_key = ("C", "major")
    cur_time = (4, 4)
    for n, (blk, bar, spec) in enumerate(zip(blocks, track.bars, specs)):
        key, time = check_bar_items(blk[1], bar, spec, "%s bar %d" % (what, n))
        if key is not None:
            cur_key = key
        if time is not None:
            cur_time = time
        tonic = bar.key.key[0].upper() + bar.key.key[1:]
        mode = "minor" if bar.key.key[0].islower() else "major"
        check(cur_key == (tonic, mode), "%s bar %d: key change not shown" % (what, n))
        check(cur_time == tuple(bar.meter), "%s bar %d: meter change not shown" % (what, n))


def split_header(text, comp):
    a = text.find("\\header")
    check(a == 0, "no \\header at the start")
    p = 0
    for label, val in (("title", comp.title), ("composer", comp.author), ("opus", comp.subtitle)):
        needle = '%s = "%s"' % (label, val)
        q = text.find(needle, p)
        check(q >= 0, "header lacks %s %r" % (label, val))
        p = q + len(needle)
    rest = text[p:]
    m = re.match(r"\s*\}", rest)
    check(m is not None, "header not closed after opus")
    return rest[m.end():]


# ------------------------------------------------------------------ XML reader

def check_xml(text, comp, specs_per_track, what):
    try:
        root = ET.fromstring(text)
    except ET.ParseError as e:
        raise Mismatch("%s: not well-formed XML: %s" % (what, e))
    check(root.tag == "score-partwise", "%s: root is %r" % (what, root.tag))
    if comp.title:
        t = root.find("movement-title")
        check(t is not None and (t.text or "") == comp.title, "%s: title %r != %r" % (what, t is not None and t.text, comp.title))
    if comp.author:
        c = root.find("identification/creator")
        check(c is not None and (c.text or "") == comp.author, "%s: author altered" % what)
    plists = root.findall("part-list")
    check(len(plists) == 1, "%s: part-list count" % what)
    sparts = plists[0].findall("score-part")
    parts = root.findall("part")
    check(len(parts) == len(comp.tracks), "%s: %d parts for %d tracks" % (what, len(parts), len(comp.tracks)))
    check(len(sparts) == len(parts), "%s: part-list length differs" % what)
    ids = [p.get("id") for p in parts]
    check(all(ids), "%s: part without id" % what)
    check(len(set(ids)) == len(ids), "%s: part ids not unique %r" % (what, ids))
    check([s.get("id") for s in sparts] == ids, "%s: part-list ids differ from part ids" % what)
    for tn, (sp, part, track, specs) in enumerate(zip(sparts, parts, comp.tracks, specs_per_track)):
        w = "%s track %d" % (what, tn)
        pn = sp.find("part-name")
        check(pn is not None and (pn.text or "") == track.name, "%s: track name %r != %r" % (w, pn is not None and pn.text, track.name))
        if track.instrument:
            iname = sp.find("score-instrument/instrument-name")
            check(iname is not None and (iname.text or "") == str(track.instrument.name),
                  "%s: instrument name altered" % w)
        measures = part.findall("measure")
        check(len(measures) == len(track.bars), "%s: %d measures for %d bars" % (w, len(measures), len(track.bars)))
        for bn, (meas, bar, spec) in enumerate(zip(measures, track.bars, specs)):
            wb = "%s bar %d" % (w, bn)
            check(meas.get("number") == str(bn + 1), "%s: measure number %r" % (wb, meas.get("number")))
            att = meas.find("attributes")
            check(att is not None, "%s: no attributes" % wb)
            divisions = Fraction(att.findtext("divisions"))
            check(divisions > 0, "%s: divisions" % wb)
            check(int(att.findtext("time/beats")) == bar.meter[0], "%s: beats" % wb)
            check(int(att.findtext("time/beat-type")) == bar.meter[1], "%s: beat-type" % wb)
            check(int(att.findtext("key/fifths")) == FIFTHS[bar.key.key], "%s: fifths" % wb)
            mode = "minor" if bar.key.key[0].islower() else "major"
            check(att.findtext("key/mode") == mode, "%s: mode" % wb)
            want = []
            for entry, (base, dots, ratio) in zip(bar.bar, spec):
                notes = expected_notes(entry[2])
                q = quarter_length(base, dots, ratio)
                if not notes:
                    want.append((None, False, dots, q))
                for k, nt in enumerate(notes):
                    want.append((nt, k > 0, dots, q))
            got = meas.findall("note")
            check(len(got) == len(want), "%s: %d note elements, %d expected" % (wb, len(got), len(want)))
            for k, (el, (nt, in_chord, dots, q)) in enumerate(zip(got, want)):
                wn = "%s note %d" % (wb, k)
                if nt is None:
                    check(el.find("rest") is not None and el.find("pitch") is None, "%s: should be a rest" % wn)
                else:
                    check(el.find("rest") is None and el.find("pitch") is not None, "%s: should be pitched" % wn)
                    step = el.findtext("pitch/step")
                    alter = int(el.findtext("pitch/alter") or 0)
                    octave = int(el.findtext("pitch/octave"))
                    walter = nt[0].count("#") - nt[0].count("b")
                    check((step, alter, octave) == (nt[0][0], walter, nt[1]),
                          "%s: pitch %r != %r" % (wn, (step, alter, octave), nt))
                check((el.find("chord") is not None) == in_chord, "%s: chord flag" % wn)
                check(len(el.findall("dot")) == dots, "%s: dots" % wn)
                dur = Fraction(el.findtext("duration"))
                check(dur / divisions == q, "%s: duration %s/%s != %s quarters" % (wn, dur, divisions, q))


# -------------------------------------------------------------- case generation

def random_nc(rng, size=None):
    if size is None:
        size = rng.choice([0, 1, 1, 1, 2, 3, 4, 5])
    if size == 0:
        return None
    nc = NoteContainer()
    for _ in range(size):
        nc.add_note(Note(rng.choice(NAMES), rng.choice(OCTAVES)))
    return nc


def fill_bar(rng, key, meter, choices, max_entries=12):
    bar = Bar(key, meter)
    spec = []
    tries = 0
    while tries < 40 and len(spec) < max_entries:
        tries += 1
        v, base, dots, ratio = rng.choice(choices)
        if bar.place_notes(random_nc(rng), v):
            spec.append((base, dots, ratio))
    return bar, spec


def run_lily_bar(bar, spec, what):
    CASES[0] += 1
    for showkey in (True, False):
        for showtime in (True, False):
            text = lilypond.from_Bar(bar, showkey, showtime)
            items = read_single_block(text)
            key, time = check_bar_items(items, bar, spec, what)
            check((key is not None) == showkey, "%s: showkey=%r not honoured" % (what, showkey))
            check((time is not None) == showtime, "%s: showtime=%r not honoured" % (what, showtime))
    text = lilypond.from_Bar(bar)
    key, time = check_bar_items(read_single_block(text), bar, spec, what)
    check(key is not None and time is not None, "%s: defaults must show key and time" % what)


def run_composition(comp, specs_per_track, what):
    CASES[0] += 1
    text = lilypond.from_Composition(comp)
    music = split_header(text, comp)
    r = Reader(music)
    items = r.sequence()
    check(r.peek()[0] is None, "%s: trailing LilyPond tokens" % what)
    check(len(items) == len(comp.tracks) and all(i[0] == "block" for i in items),
          "%s: %d track blocks for %d tracks" % (what, len(items), len(comp.tracks)))
    for tn, (it, track, specs) in enumerate(zip(items, comp.tracks, specs_per_track)):
        check_track_items(it[1], track, specs, "%s ly track %d" % (what, tn))
        single = lilypond.from_Track(track)
        check_track_items(read_single_block(single), track, specs, "%s ly from_Track %d" % (what, tn))
    xml = musicxml.from_Composition(comp)
    check_xml(xml, comp, specs_per_track, what + " xml")
    # same objects exported a second time
    check_xml(musicxml.from_Composition(comp), comp, specs_per_track, what + " xml (2nd export)")


def main():
    rng = random.Random(1906)

    # --- single notes, every name x every octave
    for name in NAMES:
        for octave in OCTAVES:
            CASES[0] += 1
            n = Note(name, octave)
            items = read_single_block(lilypond.from_Note(n))
            check(items == [("entry", [(name, octave)], None, (1, 1))], "from_Note(%s-%d): %r" % (name, octave, items))
            bare = lilypond.from_Note(n, standalone=False)
            check(decode_pitch(bare) == (name, octave), "from_Note bare %r" % bare)
            noct = lilypond.from_Note(n, False, standalone=False)
            check(decode_pitch(noct) == (name, 3), "from_Note without octaves %r" % noct)
            noct = lilypond.from_Note(note=n, process_octaves=False, standalone=True)
            check(read_single_block(noct) == [("entry", [(name, 3)], None, (1, 1))], "keyword form")

    # --- note containers with every value of the vocabulary
    for v, base, dots, ratio in VOCAB:
        for size in (0, 1, 2, 5):
            CASES[0] += 1
            nc = random_nc(rng, size)
            text = lilypond.from_NoteContainer(nc, v)
            items = read_single_block(text)
            check(len(items) == 1 and items[0][0] == "entry", "from_NoteContainer %r" % text)
            check(items[0][1] == expected_notes(nc), "from_NoteContainer notes %r" % text)
            check(items[0][2] == (base, dots), "from_NoteContainer(%r) value %r != %r" % (v, items[0][2], (base, dots)))
    for size in range(0, 6):
        for _ in range(10):
            CASES[0] += 1
            nc = random_nc(rng, size) if size else NoteContainer()
            items = read_single_block(lilypond.from_NoteContainer(nc, duration=None, standalone=True))
            check(items[0][1] == expected_notes(nc) and items[0][2] is None, "from_NoteContainer w/o duration")

    # --- systematic bars: every vocabulary value alone and between plain quarters
    for n, (v, base, dots, ratio) in enumerate(VOCAB):
        key = KEYS[n % len(KEYS)]
        bar = Bar(key, (64, 4))
        spec = []
        layout = [(4, 4, 0, (1, 1)), (v, base, dots, ratio), (v, base, dots, ratio), (8, 8, 0, (1, 1))]
        for (vv, bb, dd, rr) in layout:
            check(bar.place_notes(random_nc(rng), vv), "demo: could not place %r" % vv)
            spec.append((bb, dd, rr))
        run_lily_bar(bar, spec, "systematic bar value=%r" % v)
        comp = Composition()
        t = Track()
        t.add_bar(bar)
        comp.add_track(t)
        run_composition(comp, [[spec]], "systematic comp value=%r" % v)

    # --- all keys x a few meters, incl. empty bars
    for key in KEYS:
        for meter in ((4, 4), (6, 8), (3, 2)):
            bar = Bar(key, meter)
            run_lily_bar(bar, [], "empty bar %s %r" % (key, meter))
            bar, spec = fill_bar(rng, key, meter, VOCAB)
            run_lily_bar(bar, spec, "bar %s %r" % (key, meter))

    # --- tuplet runs: consecutive groups of different ratios and back to plain
    trip = (12, 8, 0, (3, 2))
    quin = (10, 8, 0, (5, 4))
    sept = (14, 8, 0, (7, 4))
    plain = (8, 8, 0, (1, 1))
    dotted = (value.dots(8), 8, 1, (1, 1))
    patterns = [
        [trip] * 3, [plain, trip, trip, trip, plain], [trip] * 3 + [quin] * 5, [quin] * 5 + [plain, dotted],
        [trip, plain, trip, plain, trip], [sept] * 7 + [trip] * 3 + [plain], [trip, quin, sept, plain, dotted, trip],
        [plain, plain], [dotted, trip, trip, trip, dotted],
    ]
    for pn, pat in enumerate(patterns):
        bar = Bar(KEYS[pn], (16, 4))
        spec = []
        for (vv, bb, dd, rr) in pat:
            check(bar.place_notes(random_nc(rng), vv), "demo: could not place")
            spec.append((bb, dd, rr))
        run_lily_bar(bar, spec, "tuplet pattern %d" % pn)
        comp = Composition()
        t = Track()
        t.add_bar(bar)
        comp.add_track(t)
        run_composition(comp, [[spec]], "tuplet pattern comp %d" % pn)

    # --- random compositions
    for cn in range(150):
        comp = Composition()
        comp.set_title(rng.choice(MARKUP), rng.choice(MARKUP + [""]))
        comp.set_author(rng.choice(MARKUP + [""]), "someone@example.org")
        specs_per_track = []
        shared_bar = None
        for tn in range(rng.choice([1, 1, 2, 3, 4])):
            ins = rng.choice([None, None, "midi", "piano", "plain"])
            if ins == "midi":
                inst = MidiInstrument(rng.choice(MARKUP))
                inst.instrument_nr = rng.randrange(0, 128)
            elif ins == "piano":
                inst = Piano()
            elif ins == "plain":
                inst = Instrument()
                inst.name = rng.choice(MARKUP)
                inst.clef = rng.choice(["treble", "bass", "alto", "Tenor", "percussion"])
            else:
                inst = None
            t = Track(inst)
            if rng.random() < 0.7:
                t.name = rng.choice(MARKUP)
            specs = []
            key = rng.choice(KEYS)
            meter = rng.choice(METERS)
            for bn in range(rng.choice([0, 1, 2, 3, 5, 8])):
                if rng.random() < 0.4:
                    key = rng.choice(KEYS)
                if rng.random() < 0.4:
                    meter = rng.choice(METERS)
                if rng.random() < 0.1:
                    bar, spec = Bar(key, meter), []
                else:
                    pool = VOCAB if rng.random() < 0.5 else [x for x in VOCAB if x[1] >= 2]
                    bar, spec = fill_bar(rng, key, meter, pool)
                t.add_bar(bar)
                specs.append(spec)
                if shared_bar is None and spec:
                    shared_bar = (bar, spec)
                elif shared_bar is not None and rng.random() < 0.15:
                    # the same Bar object used a second time
                    t.add_bar(shared_bar[0])
                    specs.append(shared_bar[1])
                    key, meter = shared_bar[0].key.key, shared_bar[0].meter
            comp.add_track(t)
            specs_per_track.append(specs)
        run_composition(comp, specs_per_track, "random comp %d" % cn)

    # --- a long track
    t = Track()
    specs = []
    for bn in range(400):
        bar, spec = fill_bar(rng, KEYS[bn % 30], METERS[bn % len(METERS)], VOCAB)
        t.add_bar(bar)
        specs.append(spec)
    comp = Composition()
    comp.set_title("long")
    comp.add_track(t)
    run_composition(comp, [specs], "long comp")

    # --- other musicxml entry points
    bar, spec = fill_bar(rng, "Eb", (4, 4), VOCAB)
    for text, what in ((musicxml.from_Bar(bar), "from_Bar"),):
        CASES[0] += 1
        c = Composition()
        tt = Track()
        tt.add_bar(bar)
        c.add_track(tt)
        check_xml(text, c, [[spec]], what)
    tt = Track()
    tt.add_bar(bar)
    c = Composition()
    c.add_track(tt)
    CASES[0] += 1
    check_xml(musicxml.from_Track(tt), c, [[spec]], "from_Track")


if __name__ == "__main__":
    try:
        main()
    except Mismatch as e:
        print("C19 VIOLATED: %s" % e)
        sys.exit(1)
    print("C19 holds on %d cases" % CASES[0])
    sys.exit(0)
