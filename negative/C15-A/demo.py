import mingus, os; assert os.path.realpath(mingus.__file__).startswith(os.path.realpath(os.path.dirname(__file__)))

"""Direct check of property C15 (no hidden shared state) through the public API.

Exit 0 when every check holds, 1 (with a message) otherwise.
"""
import copy
import json
import random
import subprocess
import sys

from mingus.core import keys, chords, intervals, progressions, notes
from mingus.containers.note import Note
from mingus.containers.note_container import NoteContainer
from mingus.containers.bar import Bar
from mingus.containers.track import Track
from mingus.containers.composition import Composition
from mingus.containers.suite import Suite
from mingus.containers.instrument import MidiInstrument
from mingus.midi.midi_track import MidiTrack
from mingus.midi.midi_file_out import MidiFile
from mingus.midi.sequencer import Sequencer
from mingus.extra import fft

FAILS = []
COUNT = [0]


def check(cond, msg):
    COUNT[0] += 1
    if not cond:
        FAILS.append(msg)


ALL_KEYS = [k for couple in keys.keys for k in couple]
NOTE_NAMES = ["C", "C#", "Db", "D", "E", "E#", "Fb", "F#", "G", "Ab", "A", "Bb", "B", "Cb", "F##", "Gbb"]
NATURALS = ["C", "D", "E", "F", "G", "A", "B"]
UNARY_INTERVALS = [
    "minor_unison", "major_unison", "augmented_unison", "minor_second", "major_second",
    "minor_third", "major_third", "minor_fourth", "major_fourth", "perfect_fourth",
    "minor_fifth", "major_fifth", "perfect_fifth", "minor_sixth", "major_sixth",
    "minor_seventh", "major_seventh",
]
DIATONIC_INTERVALS = ["second", "third", "fourth", "fifth", "sixth", "seventh"]
UNARY_CHORDS = [
    "major_triad", "minor_triad", "diminished_triad", "augmented_triad", "major_seventh",
    "minor_seventh", "dominant_seventh", "half_diminished_seventh", "minor_seventh_flat_five",
    "diminished_seventh", "minor_major_seventh", "minor_sixth", "major_sixth", "dominant_sixth",
    "sixth_ninth", "minor_ninth", "major_ninth", "dominant_ninth", "dominant_flat_ninth",
    "dominant_sharp_ninth", "eleventh", "minor_eleventh", "major_eleventh", "minor_thirteenth",
    "major_thirteenth", "dominant_thirteenth", "suspended_triad", "suspended_second_triad",
    "suspended_fourth_triad", "suspended_seventh", "suspended_fourth_ninth",
    "augmented_major_seventh", "augmented_minor_seventh", "dominant_flat_five",
    "lydian_dominant_seventh", "hendrix_chord",
]
KEY_CHORDS = [
    "triads", "sevenths", "tonic", "tonic7", "supertonic", "supertonic7", "mediant", "mediant7",
    "subdominant", "subdominant7", "dominant", "dominant7", "submediant", "submediant7",
    "subtonic", "subtonic7", "I", "I7", "ii", "II", "ii7", "II7", "iii", "III", "iii7", "III7",
    "IV", "IV7", "V", "V7", "vi", "VI", "vi7", "VI7", "vii", "VII", "vii7", "VII7",
]
SHORTHANDS = [
    "C", "Am", "Amin7", "F#dim7", "Bbmaj7", "G7", "Dm7b5", "Em/M7", "C6/9", "A/G", "Dm|G",
    "Esus4", "Ab+", "C#m11", "D13", "NC", "Ebhendrix", "G5", "Bm6", "F7b9", "CM7|Dm",
]
CHORDS_TO_NAME = [
    [], ["C"], ["C", "E"], ["C", "E", "G"], ["A", "C", "E"], ["E", "G", "C"], ["C", "Eb", "Gb"],
    ["C", "E", "G", "B"], ["D", "F", "A", "C"], ["G", "B", "D", "F"], ["C", "E", "G", "B", "D"],
    ["C", "E", "G", "Bb", "D", "F"], ["C", "E", "G", "B", "D", "F", "A"],
    ["F#", "A#", "C#"], ["Bb", "D", "F", "A"], ["C", "E", "G", "B", "D", "F", "A", "C#"],
]
PROGRESSIONS = [
    ["I", "IV", "V"], ["I7", "V7"], ["ii", "V7", "I"], ["bII", "#IV"], ["Im7", "IVdim7"],
    ["VIIdim", "iii7"], ["vi", "IIm6"], "I", "bVIIM7", ["X"],
]
PROG_KEYS = ["C", "F", "Eb", "A", "F#", "Bb"]
FREQS = [
    8.0, 8.1757, 9.0, 16.35, 27.5, 55.0, 110.0, 220.0, 261.63, 439.0, 440.0, 441.0, 466.16,
    880.0, 1000.0, 3000.0, 6000.0, 12000.0, 12543.85, 12543.86, 13000.0, 20000.0, -1.0, 0.0,
    5.0, 0.001, 100.0, 99.9, 100.1, 4186.01,
]


def call(f, *args):
    """Return a plain description of the outcome of f(*args)."""
    try:
        return repr(f(*args))
    except Exception as e:  # noqa
        return "EXC:" + type(e).__name__


def battery():
    """The fixed battery of queries. Returns a list of [label, outcome]."""
    out = []

    def q(label, f, *args):
        out.append([label, call(f, *args)])

    for k in ALL_KEYS:
        q("keys.get_notes(%s)" % k, keys.get_notes, k)
        q("keys.get_key_signature(%s)" % k, keys.get_key_signature, k)
        q("keys.get_key_signature_accidentals(%s)" % k, keys.get_key_signature_accidentals, k)
        q("keys.is_valid_key(%s)" % k, keys.is_valid_key, k)
        q("keys.relative_major(%s)" % k, keys.relative_major, k)
        q("keys.relative_minor(%s)" % k, keys.relative_minor, k)
        for name in KEY_CHORDS:
            q("chords.%s(%s)" % (name, k), getattr(chords, name), k)
    for bad in ["H", "", "c##", "Fb", "C-"]:
        q("keys.get_notes(%r)" % bad, keys.get_notes, bad)
        q("keys.get_key_signature(%r)" % bad, keys.get_key_signature, bad)
        q("keys.is_valid_key(%r)" % bad, keys.is_valid_key, bad)
    for a in range(-8, 9):
        q("keys.get_key(%d)" % a, keys.get_key, a)
    for n in NOTE_NAMES:
        for name in UNARY_INTERVALS:
            q("intervals.%s(%s)" % (name, n), getattr(intervals, name), n)
        for name in UNARY_CHORDS:
            q("chords.%s(%s)" % (name, n), getattr(chords, name), n)
        for m in ["C", "F#", "Bb", "E"]:
            q("intervals.measure(%s,%s)" % (n, m), intervals.measure, n, m)
            q("intervals.determine(%s,%s)" % (n, m), intervals.determine, n, m)
            q("intervals.determine(%s,%s,True)" % (n, m), intervals.determine, n, m, True)
            q("intervals.is_consonant(%s,%s)" % (n, m), intervals.is_consonant, n, m)
            q("intervals.is_dissonant(%s,%s)" % (n, m), intervals.is_dissonant, n, m)
        for sh in ["1", "b2", "2", "b3", "3", "4", "#4", "5", "b6", "6", "bb7", "7", "9"]:
            q("intervals.from_shorthand(%s,%s)" % (n, sh), intervals.from_shorthand, n, sh)
            q("intervals.from_shorthand(%s,%s,False)" % (n, sh), intervals.from_shorthand, n, sh, False)
    for k in ["C", "G", "Eb", "f#", "a", "Cb", "C#"]:
        for n in NATURALS:
            for name in DIATONIC_INTERVALS:
                q("intervals.%s(%s,%s)" % (name, n, k), getattr(intervals, name), n, k)
            for i in range(0, 9, 2):
                q("intervals.interval(%s,%s,%d)" % (k, n, i), intervals.interval, k, n, i)
            q("chords.triad(%s,%s)" % (n, k), chords.triad, n, k)
            q("chords.seventh(%s,%s)" % (n, k), chords.seventh, n, k)
    for k in ["C", "G", "F"]:
        for n in ["C", "E", "F#", "Bb"]:
            for i in [1, 3, 6, 10]:
                q("intervals.get_interval(%s,%d,%s)" % (n, i, k), intervals.get_interval, n, i, k)
    q("intervals.invert", intervals.invert, ["C", "E", "G"])
    for sh in SHORTHANDS:
        q("chords.from_shorthand(%s)" % sh, chords.from_shorthand, sh)
    q("chords.from_shorthand(list)", chords.from_shorthand, list(SHORTHANDS[:5]))
    for c in CHORDS_TO_NAME:
        q("chords.determine(%r)" % c, chords.determine, list(c))
        q("chords.determine(%r,True)" % c, chords.determine, list(c), True)
        q("chords.determine(%r,False,True,True)" % c, chords.determine, list(c), False, True, True)
        q("chords.invert(%r)" % c, lambda x: chords.invert(x) if x else None, list(c))
    for p in PROGRESSIONS:
        for k in PROG_KEYS:
            q("progressions.to_chords(%r,%s)" % (p, k), progressions.to_chords, copy.deepcopy(p), k)
        if isinstance(p, list):
            for i in range(len(p)):
                q("progressions.substitute(%r,%d)" % (p, i), progressions.substitute, list(p), i)
                q("progressions.substitute(%r,%d,1)" % (p, i), progressions.substitute, list(p), i, 1)
                for name in ["substitute_harmonic", "substitute_minor_for_major",
                             "substitute_major_for_minor", "substitute_diminished_for_diminished",
                             "substitute_diminished_for_dominant"]:
                    q("progressions.%s(%r,%d)" % (name, p, i), getattr(progressions, name), list(p), i)
                    q("progressions.%s(%r,%d,True)" % (name, p, i), getattr(progressions, name), list(p), i, True)
    for c in CHORDS_TO_NAME[3:10]:
        for k in ["C", "G", "F"]:
            q("progressions.determine(%r,%s)" % (c, k), progressions.determine, list(c), k)
            q("progressions.determine(%r,%s,True)" % (c, k), progressions.determine, list(c), k, True)
    q("progressions.determine(nested)", progressions.determine, [["C", "E", "G"], ["G", "B", "D"]], "C", True)
    for s in ["I", "bIM7", "##vii7", "IVdim7", "bbVI", "xyz"]:
        q("progressions.parse_string(%s)" % s, progressions.parse_string, s)
    for t in [("I", 0, ""), ("V", -2, "7"), ("II", 3, "m"), ("VI", 8, ""), ("IV", -9, "dim")]:
        q("progressions.tuple_to_string(%r)" % (t,), progressions.tuple_to_string, t)
    for a in progressions.numerals:
        q("progressions.skip(%s,3)" % a, progressions.skip, a, 3)
        for b in progressions.numerals:
            q("progressions.interval_diff(%s,%s,4)" % (a, b), progressions.interval_diff, a, b, 4)
    # frequency -> note index lookups (position memory), in a scrambled fixed order
    for f in FREQS:
        q("fft._find_log_index(%r)" % f, fft._find_log_index, f)
    for f in reversed(FREQS):
        q("fft._find_log_index(%r) rev" % f, fft._find_log_index, f)
    table = [(f, 1.0 + i) for i, f in enumerate(FREQS)]
    q("fft.find_notes", lambda t: [(repr(n), a) for (n, a) in fft.find_notes(t) if a], table)
    q("fft.find_notes maxNote", lambda t: [(repr(n), a) for (n, a) in fft.find_notes(t, 60) if a], table)
    return out


def scramble(result, rng):
    """Modify a returned value in place as deeply as possible."""
    if isinstance(result, list):
        for x in result:
            scramble(x, rng)
        if result and rng.random() < 0.5:
            result[0] = "ZZ"
        result.append("QQ")
        if rng.random() < 0.3:
            del result[:]
    elif isinstance(result, dict):
        result["QQ"] = "ZZ"
    elif isinstance(result, tuple):
        for x in result:
            scramble(x, rng)


def random_history(rng, steps):
    """Random interleaving of public theory calls; returned values are scrambled."""
    pool = []
    for k in ALL_KEYS + ["H", "", "Fb"]:
        pool.append((keys.get_notes, (k,)))
        pool.append((keys.get_key_signature, (k,)))
        pool.append((keys.get_key_signature_accidentals, (k,)))
        for name in KEY_CHORDS:
            pool.append((getattr(chords, name), (k,)))
    for n in NOTE_NAMES:
        for name in UNARY_INTERVALS:
            pool.append((getattr(intervals, name), (n,)))
        for name in UNARY_CHORDS:
            pool.append((getattr(chords, name), (n,)))
        for m in NOTE_NAMES:
            pool.append((intervals.determine, (n, m)))
            pool.append((intervals.measure, (n, m)))
    for sh in SHORTHANDS:
        pool.append((chords.from_shorthand, (sh,)))
    for c in CHORDS_TO_NAME:
        pool.append((chords.determine, (c,)))
        pool.append((chords.determine, (c, True)))
    for p in PROGRESSIONS:
        for k in PROG_KEYS:
            pool.append((progressions.to_chords, (p, k)))
        if isinstance(p, list):
            pool.append((progressions.substitute, (p, 0, 1)))
    for c in CHORDS_TO_NAME[3:10]:
        pool.append((progressions.determine, (c, "C", True)))
    for f in FREQS + [rng.uniform(1, 14000) for _ in range(40)]:
        pool.append((fft._find_log_index, (f,)))
    for _ in range(steps):
        f, args = rng.choice(pool)
        try:
            r = f(*copy.deepcopy(args))
        except Exception:  # noqa
            continue
        scramble(r, rng)
        if rng.random() < 0.05:
            # a little container / instance work in between
            nc = NoteContainer().from_chord(rng.choice(SHORTHANDS[:8]))
            nc.transpose("3")
            b = Bar(rng.choice(ALL_KEYS))
            b + nc
            b.determine_chords(True)
            fft.find_notes([(rng.uniform(1, 13000), 1.0) for _ in range(5)])


# --------------------------------------------------------------------------
# Part 1: history independence (cold interpreter vs. warm / arbitrary history)
# --------------------------------------------------------------------------
def part_history():
    env = dict(os.environ)
    proc = subprocess.run(
        [sys.executable, os.path.abspath(__file__), "--battery"],
        env=env, stdout=subprocess.PIPE, check=True,
    )
    cold = json.loads(proc.stdout.decode("utf-8"))

    def compare(tag):
        warm = json.loads(json.dumps(battery()))
        check(len(warm) == len(cold), "%s: battery size differs" % tag)
        bad = [(a, b) for a, b in zip(cold, warm) if a != b]
        check(not bad, "%s: %d battery answers differ from the cold interpreter, first: %r"
              % (tag, len(bad), bad[:1]))

    compare("first run in this interpreter")
    compare("second run (warm memo tables)")
    for seed in range(8):
        rng = random.Random(1000 + seed)
        random_history(rng, 400 + 150 * seed)
        compare("after random history seed %d" % seed)

    # position memory: every ordered pair (previous lookup, lookup)
    coldidx = {}
    for f in FREQS:
        for prev in FREQS:
            fft._find_log_index(prev)
            i = fft._find_log_index(f)
            if f not in coldidx:
                coldidx[f] = i
            check(i == coldidx[f], "fft index of %r depends on previous lookup %r: %r vs %r"
                  % (f, prev, i, coldidx[f]))
    # and the index is the right one: the first table entry >= f (128 when out of range)
    table = [Note().from_int(x).to_hertz() for x in range(128)]
    rng = random.Random(7)
    probes = FREQS + [rng.uniform(0.5, 14000) for _ in range(300)] + table[::5]
    rng.shuffle(probes)
    for f in probes:
        if f <= 0 or f > table[127]:
            want = 128
        else:
            want = min(i for i in range(128) if table[i] >= f)
        got = fft._find_log_index(f)
        check(got == want, "fft index of %r is %r, expected %r" % (f, got, want))


# --------------------------------------------------------------------------
# Part 2: argument / result aliasing for the public theory functions
# --------------------------------------------------------------------------
def alias_cases():
    cases = []
    for k in ["C", "F", "f#", "Cb", "a#", "Eb"]:
        for name in ["get_notes", "get_key_signature_accidentals", "get_key_signature",
                     "relative_minor", "relative_major", "is_valid_key"]:
            cases.append((getattr(keys, name), (k,)))
        for name in KEY_CHORDS:
            cases.append((getattr(chords, name), (k,)))
    cases.append((keys.get_key, (3,)))
    for n in ["C", "F#", "Bb"]:
        for name in UNARY_CHORDS:
            cases.append((getattr(chords, name), (n,)))
        for name in UNARY_INTERVALS:
            cases.append((getattr(intervals, name), (n,)))
        cases.append((chords.triad, (n[0], "C")))
        cases.append((chords.seventh, (n[0], "G")))
    cases.append((intervals.invert, (["C", "E", "G"],)))
    cases.append((intervals.invert, (["C", "E"],)))
    for sh in SHORTHANDS:
        cases.append((chords.from_shorthand, (sh,)))
    cases.append((chords.from_shorthand, (list(SHORTHANDS[:6]),)))
    for c in CHORDS_TO_NAME:
        if len(c) != 1:  # a one-note chord is handed back as is
            cases.append((chords.determine, (list(c),)))
            cases.append((chords.determine, (list(c), True)))
        if c:
            cases.append((chords.invert, (list(c),)))
            cases.append((chords.first_inversion, (list(c),)))
            cases.append((chords.second_inversion, (list(c),)))
            cases.append((chords.third_inversion, (list(c),)))
    cases.append((chords.determine_triad, (["A", "C", "E"], True)))
    cases.append((chords.determine_seventh, (["C", "E", "G", "B"], True)))
    cases.append((chords.determine_extended_chord5, (["C", "E", "G", "B", "D"], True)))
    cases.append((chords.determine_extended_chord6, (["C", "E", "G", "Bb", "D", "F"], True)))
    cases.append((chords.determine_extended_chord7, (["C", "E", "G", "B", "D", "F", "A"], True)))
    cases.append((chords.determine_polychords, (["C", "E", "G", "B", "D", "F", "A", "C#"], True)))
    for p in PROGRESSIONS:
        for k in ["C", "Eb"]:
            cases.append((progressions.to_chords, (copy.deepcopy(p), k)))
        if isinstance(p, list):
            for i in range(len(p)):
                cases.append((progressions.substitute, (list(p), i)))
                cases.append((progressions.substitute, (list(p), i, 2)))
                for name in ["substitute_harmonic", "substitute_minor_for_major",
                             "substitute_major_for_minor", "substitute_diminished_for_diminished",
                             "substitute_diminished_for_dominant"]:
                    cases.append((getattr(progressions, name), (list(p), i, True)))
    for c in CHORDS_TO_NAME[3:10]:
        cases.append((progressions.determine, (list(c), "C")))
        cases.append((progressions.determine, (list(c), "F", True)))
    cases.append((progressions.determine, ([["C", "E", "G"], ["G", "B", "D"]], "C", True)))
    cases.append((progressions.parse_string, ("bIM7",)))
    cases.append((progressions.tuple_to_string, (("V", -2, "7"),)))
    return cases


def public_tables():
    return copy.deepcopy({
        "keys.keys": keys.keys, "keys.major_keys": keys.major_keys,
        "keys.minor_keys": keys.minor_keys, "keys.base_scale": keys.base_scale,
        "notes.fifths": notes.fifths,
        "chords.chord_shorthand_meaning": chords.chord_shorthand_meaning,
        "chords.chord_shorthand": sorted(chords.chord_shorthand),
        "progressions.numerals": progressions.numerals,
        "progressions.numeral_intervals": progressions.numeral_intervals,
    })


def part_aliasing():
    rng = random.Random(42)
    tables = public_tables()
    for f, args in alias_cases():
        label = "%s.%s%r" % (f.__module__, f.__name__, args)
        work = copy.deepcopy(args)
        try:
            r1 = f(*work)
        except Exception as e:  # noqa
            r1 = e
        check(work == args, "%s modified its arguments: %r" % (label, work))
        if isinstance(r1, Exception):
            try:
                f(*copy.deepcopy(args))
                check(False, "%s raised only the first time" % label)
            except Exception as e2:  # noqa
                check(type(e2) is type(r1), "%s raises differing exceptions" % label)
            continue
        pristine = copy.deepcopy(r1)
        scramble(r1, rng)
        work2 = copy.deepcopy(args)
        r2 = f(*work2)
        check(r2 == pristine, "%s: modifying the returned value changed a later call: %r != %r"
              % (label, r2, pristine))
        check(work2 == args, "%s modified its arguments on the second call" % label)
        scramble(r2, rng)
        r3 = f(*copy.deepcopy(args))
        check(r3 == pristine, "%s: third call differs: %r != %r" % (label, r3, pristine))
    check(public_tables() == tables, "a public module table was modified by the calls")


# --------------------------------------------------------------------------
# Part 3: sibling instances, class defaults, copies
# --------------------------------------------------------------------------
def state(obj, seen=None):
    """Structural description of an object (instance attributes, recursively)."""
    if seen is None:
        seen = set()
    if isinstance(obj, (str, bytes, int, float, bool, type(None))):
        return repr(obj)
    if id(obj) in seen:
        return "<cycle>"
    seen = seen | {id(obj)}
    if isinstance(obj, (list, tuple)):
        return [type(obj).__name__] + [state(x, seen) for x in obj]
    if isinstance(obj, dict):
        return {repr(k): state(v, seen) for k, v in obj.items()}
    if hasattr(obj, "__dict__"):
        d = {k: state(v, seen) for k, v in vars(obj).items()}
        d["__class__"] = type(obj).__name__
        if isinstance(obj, Note):
            d["__public__"] = repr((obj.name, obj.octave, obj.channel, obj.velocity, obj.dynamics))
        return d
    return repr(obj)


def class_defaults(cls):
    out = {}
    for k, v in vars(cls).items():
        if k.startswith("__") or callable(v) or isinstance(v, (property, staticmethod, classmethod)):
            continue
        out[k] = state(v)
    return out


def some_nc():
    return NoteContainer(["C", "E", "G"])


def some_bar():
    b = Bar("G", (3, 4))
    b.place_notes(["A", "C"], 4)
    b.place_rest(4)
    b.place_notes("E", 4)
    return b


def some_track():
    t = Track(MidiInstrument())
    t.add_bar(some_bar())
    t.add_notes(["C", "E"], 2)
    t.add_notes("G", 4)
    return t


def some_composition():
    c = Composition()
    c.add_track(some_track())
    c.add_track(some_track())
    c.add_note("F")
    c.set_title("T", "S")
    c.set_author("A", "a@b")
    return c


def some_suite():
    s = Suite()
    s.add_composition(some_composition())
    s.set_title("ST")
    s.set_author("SA")
    return s


def some_miditrack():
    t = MidiTrack(90)
    t.play_Note(Note("C", 4, velocity=80, channel=2))
    t.play_NoteContainer(some_nc())
    t.stop_NoteContainer(some_nc())
    t.play_Bar(some_bar())
    t.play_Track(some_track())
    t.set_tempo(140)
    t.set_instrument(1, 13)
    return t


def some_midifile():
    m = MidiFile()
    m.tracks.append(some_miditrack())
    return m


class Listener(object):
    def __init__(self):
        self.got = []

    def notify(self, msg, params):
        self.got.append(msg)


def some_sequencer():
    s = Sequencer()
    s.attach(Listener())
    s.set_instrument(1, 5)
    s.play_Note(Note("C"), 2, 70)
    s.stop_Note(Note("C"), 2)
    s.play_NoteContainer(some_nc())
    return s


SCRIPTS = {
    Note: (lambda: Note("D", 5, velocity=70, channel=3), [
        lambda a: a.set_note("E-3"), lambda a: a.augment(), lambda a: a.diminish(),
        lambda a: a.transpose("5"), lambda a: a.transpose("b3", False),
        lambda a: a.change_octave(-2), lambda a: a.octave_up(), lambda a: a.from_int(37),
        lambda a: a.set_velocity(1), lambda a: a.set_channel(9), lambda a: a.empty(),
        lambda a: a.from_hertz(523.3), lambda a: a.from_shorthand("c''"),
        lambda a: a.set_note("F#", 2, {"velocity": 5, "channel": 4}),
        lambda a: a.remove_redundant_accidentals(),
    ]),
    NoteContainer: (some_nc, [
        lambda a: a.add_note("B"), lambda a: a.add_note("D", 6, {"velocity": 3}),
        lambda a: a.add_notes(["F", "A"]), lambda a: a.add_notes([["C", 2], ["E", 7, {"channel": 4}]]),
        lambda a: a.from_chord("F#m7"), lambda a: a.from_interval("D", "b7"),
        lambda a: a.from_progression("V7", "Eb"), lambda a: a.remove_note("E"),
        lambda a: a.remove_notes(["C", "G"]), lambda a: a.augment(), lambda a: a.diminish(),
        lambda a: a.transpose("4"), lambda a: a.sort(), lambda a: a.__setitem__(0, "B"),
        lambda a: a + "Bb", lambda a: a - "C", lambda a: a.empty(),
        lambda a: a.remove_duplicate_notes(), lambda a: a[0].augment(),
        lambda a: a.notes.append(Note("A", 1)),
    ]),
    Bar: (some_bar, [
        lambda a: a.place_notes("D", 8), lambda a: a.place_notes(some_nc(), 16),
        lambda a: a.place_rest(8), lambda a: a + "F", lambda a: a.set_meter((6, 8)),
        lambda a: a.transpose("3"), lambda a: a.augment(), lambda a: a.diminish(),
        lambda a: a.remove_last_entry(), lambda a: a.__setitem__(0, ["D", "F#"]),
        lambda a: a.__setitem__(2, "B"), lambda a: a.empty(),
        lambda a: a.place_notes_at(["B"], 0.0), lambda a: a[0][2].add_note("Bb"),
        lambda a: a.bar.append([0.75, 4, some_nc()]),
    ]),
    Track: (some_track, [
        lambda a: a.add_notes("A", 4), lambda a: a.add_notes(["C", "G"], 8),
        lambda a: a.add_bar(some_bar()), lambda a: a.from_chords(["C", ["Am", "Dm"], "G7"], 1),
        lambda a: a.transpose("2"), lambda a: a.augment(), lambda a: a.diminish(),
        lambda a: a + "B", lambda a: a + some_bar(), lambda a: a + some_nc(),
        lambda a: a.__setitem__(0, Bar("F")), lambda a: a.bars.append(Bar()),
        lambda a: a[0].place_notes("D", 4), lambda a: setattr(a, "name", "Other"),
        lambda a: a.set_tuning("fake"),
    ]),
    Composition: (some_composition, [
        lambda a: a.add_track(some_track()), lambda a: a.add_note("C"), lambda a: a + "E",
        lambda a: a + some_track(), lambda a: a.set_title("X", "Y"), lambda a: a.set_author("P", "q"),
        lambda a: a.reset(), lambda a: a.empty(), lambda a: a.__setitem__(0, Track()),
        lambda a: a.tracks.append(Track()), lambda a: a[0].add_notes("G"),
        lambda a: a[1].transpose("3"),
    ]),
    Suite: (some_suite, [
        lambda a: a.add_composition(some_composition()), lambda a: a + Composition(),
        lambda a: a.set_author("Z", "z"), lambda a: a.set_title("TT", "SS"),
        lambda a: a.__setitem__(0, Composition()), lambda a: a.compositions.append(Composition()),
        lambda a: a[0].add_note("D"),
    ]),
    MidiTrack: (some_miditrack, [
        lambda a: a.play_Note(Note("E", 3)), lambda a: a.stop_Note(Note("E", 3)),
        lambda a: a.play_NoteContainer(some_nc()), lambda a: a.play_Bar(some_bar()),
        lambda a: a.play_Track(some_track()), lambda a: a.set_tempo(60),
        lambda a: a.set_instrument(2, 40, 3), lambda a: a.set_deltatime(300),
        lambda a: a.set_meter((6, 8)), lambda a: a.set_key("eb"), lambda a: a.set_track_name("nm"),
        lambda a: a.reset(),
    ]),
    MidiFile: (some_midifile, [
        lambda a: a.tracks.append(MidiTrack()), lambda a: a.tracks[0].play_Note(Note("A")),
        lambda a: a.reset(), lambda a: a.get_midi_data(), lambda a: a.header(),
        lambda a: setattr(a, "time_division", b"\x00\x60"),
    ]),
    Sequencer: (some_sequencer, [
        lambda a: a.attach(Listener()), lambda a: a.detach(a.listeners[0]),
        lambda a: a.set_instrument(3, 9), lambda a: a.control_change(1, 7, 100),
        lambda a: a.play_Note(Note("G"), 1, 90), lambda a: a.play_Bar(some_bar()),
        lambda a: a.play_Track(some_track()), lambda a: a.stop_everything(),
    ]),
}

FRESH = {
    Note: Note, NoteContainer: NoteContainer, Bar: Bar, Track: Track, Composition: Composition,
    Suite: Suite, MidiTrack: MidiTrack, MidiFile: MidiFile, Sequencer: Sequencer,
}


def part_instances():
    for cls, (make, ops) in SCRIPTS.items():
        name = cls.__name__
        defaults = class_defaults(cls)
        fresh0 = state(FRESH[cls]())
        made0 = state(make())
        for i, op in enumerate(ops):
            a = make()
            b = make()
            fresh = FRESH[cls]()
            sb = state(b)
            sf = state(fresh)
            check(sb == made0, "%s: two equally built instances differ (op %d)" % (name, i))
            check(sf == fresh0, "%s(): a fresh instance differs from an earlier fresh one (op %d)" % (name, i))
            try:
                op(a)
            except Exception as e:  # noqa
                check(False, "%s op %d raised %r" % (name, i, e))
            check(state(b) == sb, "%s: op %d on one instance changed a sibling" % (name, i))
            check(state(fresh) == sf, "%s: op %d on one instance changed a fresh sibling" % (name, i))
            check(class_defaults(cls) == defaults, "%s: op %d changed the class defaults" % (name, i))
            check(state(FRESH[cls]()) == fresh0,
                  "%s: an instance created after op %d is not like the first" % (name, i))
        # whole script on one instance
        a, b = make(), make()
        sb = state(b)
        for op in ops:
            try:
                op(a)
            except Exception:  # noqa
                pass
        check(state(b) == sb, "%s: the whole script on one instance changed a sibling" % name)
        check(class_defaults(cls) == defaults, "%s: the whole script changed the class defaults" % name)
        check(state(make()) == made0, "%s: instance built after the script differs" % name)

    # default-argument instances must not share their lists
    pairs = [
        (NoteContainer(), NoteContainer(), "notes"), (Bar(), Bar(), "bar"), (Track(), Track(), "bars"),
        (Composition(), Composition(), "tracks"), (Suite(), Suite(), "compositions"),
        (MidiFile(), MidiFile(), "tracks"), (Sequencer(), Sequencer(), "listeners"),
    ]
    for a, b, attr in pairs:
        la, lb = getattr(a, attr), getattr(b, attr)
        check(la is not lb, "%s: two instances share their %s list" % (type(a).__name__, attr))
        check(la is not getattr(type(a), attr, None),
              "%s: an instance uses the class-level %s list" % (type(a).__name__, attr))
        la.append("x")
        check(len(lb) == 0, "%s.%s leaked into a sibling" % (type(a).__name__, attr))
        check(len(getattr(type(a)(), attr)) == 0, "%s.%s leaked into new instances" % (type(a).__name__, attr))

    # copies of notes
    note_ops = SCRIPTS[Note][1]
    for i, op in enumerate(note_ops):
        src = Note("D", 5, velocity=70, channel=3)
        cp = Note(src)
        check(state(cp)["__public__"] == state(src)["__public__"], "Note copy differs from its source")
        s = state(src)
        op(cp)
        check(state(src) == s, "Note: op %d on a copy changed the source" % i)
        src2 = Note("D", 5, velocity=70, channel=3)
        cp2 = Note(src2)
        s2 = state(cp2)
        op(src2)
        check(state(cp2) == s2, "Note: op %d on the source changed the copy" % i)
    dyn = {"velocity": 33, "channel": 5}
    n = Note("C", 4, dyn)
    check(dyn == {"velocity": 33, "channel": 5}, "Note() modified the dynamics dict passed in")
    dyn["velocity"] = 99
    check(n.velocity == 33 and n.dynamics == {"velocity": 33, "channel": 5},
          "Note kept a reference to the dynamics dict passed in")
    d = n.dynamics
    d["velocity"] = 1
    check(n.velocity == 33, "modifying Note.dynamics result changed the note")
    n2 = Note("C", 4, dyn, velocity=10, channel=2)
    check(dyn == {"velocity": 99, "channel": 5}, "Note(velocity=..) modified the dynamics dict passed in")
    check((n2.velocity, n2.channel) == (10, 2), "Note(velocity=, channel=) not honoured")
    dyn3 = {"velocity": 12}
    Note().set_note("E", 3, dyn3)
    check(dyn3 == {"velocity": 12}, "set_note modified the dynamics dict passed in")

    # copies of containers
    nc_ops = SCRIPTS[NoteContainer][1]
    for i, op in enumerate(nc_ops):
        src = some_nc()
        cp = NoteContainer(src)
        check(cp == src and [state(x)["__public__"] for x in cp] == [state(x)["__public__"] for x in src],
              "NoteContainer copy differs from its source")
        s = state(src)
        op(cp)
        check(state(src) == s, "NoteContainer: op %d on a copy changed the source" % i)
        src2 = some_nc()
        cp2 = NoteContainer(src2)
        s2 = state(cp2)
        op(src2)
        check(state(cp2) == s2, "NoteContainer: op %d on the source changed the copy" % i)
        src3 = some_nc()
        cp3 = NoteContainer()
        cp3.add_notes(src3)
        s3 = state(src3)
        op(cp3)
        check(state(src3) == s3, "NoteContainer.add_notes(container): op %d on it changed the source" % i)

    # arguments of container calls are left alone
    arg = ["C", "E", "G"]
    NoteContainer(arg)
    check(arg == ["C", "E", "G"], "NoteContainer() modified its list argument")
    arg = [["C", 5, {"velocity": 20}], ["E", 6, {"velocity": 30, "channel": 2}]]
    keep = copy.deepcopy(arg)
    nc = NoteContainer(arg)
    check(arg == keep, "NoteContainer() modified its nested list argument")
    arg[0][2]["velocity"] = 99
    check(nc[0].velocity == 20, "NoteContainer kept a reference to a dynamics dict")
    arg = ["A", "C"]
    b = Bar()
    b.place_notes(arg, 4)
    b + arg
    b[0] = arg
    check(arg == ["A", "C"], "Bar modified a list argument")
    arg.append("E")
    check(len(b[0][2]) == 2 and len(b[1][2]) == 2, "Bar kept a reference to a list argument")
    arg = ["C", ["Am", "Dm"], "G7", None]
    keep = copy.deepcopy(arg)
    Track().from_chords(arg, 1)
    check(arg == keep, "Track.from_chords modified its argument")
    meter = (3, 4)
    Bar("C", meter)
    check(meter == (3, 4), "Bar modified its meter")
    arg = ["C", "E"]
    t = Track()
    t.add_notes(arg, 4)
    check(arg == ["C", "E"], "Track.add_notes modified its argument")
    prog = ["I", "V7"]
    NoteContainer().from_progression("V7", "C")
    check(prog == ["I", "V7"], "from_progression modified a list")

    # midi writer output depends only on the object it is asked to write
    def render(obj_maker):
        t = MidiTrack(120)
        t.play_Track(obj_maker())
        m = MidiFile([t])
        return m.get_midi_data()

    first = render(some_track)
    other = MidiTrack(200)
    other.play_Bar(some_bar())
    other.set_instrument(3, 77)
    m_other = MidiFile([other])
    m_other.get_midi_data()
    check(render(some_track) == first, "MIDI data of a track depends on other writer instances")
    tracks = [MidiTrack(100)]
    mf = MidiFile(tracks)
    check(len(tracks) == 1, "MidiFile modified the list passed in")
    check(len(MidiFile().tracks) == 0, "MidiFile() default tracks not empty")
    check(MidiTrack().track_data == MidiTrack().track_data, "two new MidiTracks differ")
    x, y = MidiTrack(), MidiTrack()
    x.play_Note(Note("C"))
    check(y.track_data == MidiTrack().track_data, "MidiTrack data leaked into a sibling")
    check(mf.tracks[0].track_data == MidiTrack(100).track_data, "MidiTrack in a file changed")


def main():
    if "--battery" in sys.argv:
        sys.stdout.write(json.dumps(battery()))
        return 0
    import traceback
    for part in (part_history, part_aliasing, part_instances):
        try:
            part()
        except Exception:  # noqa - a crash here means earlier calls poisoned later ones
            check(False, "%s crashed:\n%s" % (part.__name__, traceback.format_exc(limit=-3)))
    part_history_again = battery()  # after all the container work as well
    env_cold = subprocess.run([sys.executable, os.path.abspath(__file__), "--battery"],
                              stdout=subprocess.PIPE, check=True)
    check(json.loads(env_cold.stdout.decode("utf-8")) == json.loads(json.dumps(part_history_again)),
          "battery after the instance work differs from the cold interpreter")
    if FAILS:
        print("C15 VIOLATED: %d of %d checks failed" % (len(FAILS), COUNT[0]))
        for f in FAILS[:25]:
            print(" -", f)
        return 1
    print("C15 holds: %d checks passed" % COUNT[0])
    return 0


if __name__ == "__main__":
    sys.exit(main())
