import mingus, os; assert os.path.realpath(mingus.__file__).startswith(os.path.realpath(os.path.dirname(__file__)))
import signal
import sys

from mingus.core import meter, value

failures = []
checked = [0]


def check(cond, msg):
    checked[0] += 1
    if not cond:
        failures.append(msg)


def close(a, b, rel=1e-9):
    return abs(a - b) <= rel * max(abs(a), abs(b))


def on_alarm(signum, frame):
    print("FAIL: a call did not terminate in time")
    os._exit(1)


signal.signal(signal.SIGALRM, on_alarm)
signal.alarm(120)

BASES = [0.25, 0.5, 1, 2, 4, 8, 16, 32, 64, 128]
assert list(value.base_values) == BASES
RATIOS = [(3, 2), (5, 4), (7, 4)]
EPS = [-0.0099, -0.005, -0.001, -1e-9, 0.0, 1e-9, 0.001, 0.005, 0.0099]

# 1. construction -> analysis round trip -------------------------------------
for b in BASES:
    for bb in (b, float(b)):
        for d in range(5):
            v = value.dots(bb, d)
            check(value.determine(v) == (b, d, 1, 1), "determine(dots(%r, %r)) = %r" % (bb, d, value.determine(v)))
            v = value.dots(value=bb, nr=d)
            check(value.determine(value=v) == (b, d, 1, 1), "keyword form: determine(dots(%r, %r))" % (bb, d))
        check(value.determine(value.dots(bb)) == (b, 1, 1, 1), "dots default nr for %r" % (bb,))
        built = {
            (3, 2): [value.triplet(bb), value.tuplet(bb, 3, 2), value.triplet(value=bb)],
            (5, 4): [value.quintuplet(bb), value.tuplet(bb, 5, 4), value.quintuplet(value=bb)],
            (7, 4): [
                value.septuplet(bb),
                value.septuplet(bb, True),
                value.septuplet(value=bb, in_fourths=True),
                value.tuplet(value=bb, rat1=7, rat2=4),
            ],
        }
        for (r1, r2), vs in built.items():
            for v in vs:
                check(
                    value.determine(v) == (b, 0, r1, r2),
                    "determine(%r:%r tuplet of %r = %r) = %r" % (r1, r2, bb, v, value.determine(v)),
                )

# the tables the module publishes agree with the helpers
for i, b in enumerate(BASES):
    check(value.base_triplets[i] == value.triplet(b), "base_triplets[%d]" % i)
    check(value.base_quintuplets[i] == value.quintuplet(b), "base_quintuplets[%d]" % i)
    check(value.base_septuplets[i] == value.septuplet(b), "base_septuplets[%d]" % i)

# 2. values within 1% of an undotted / single-dotted recognised value ---------
for b in BASES:
    recognised = [
        (b, (b, 0, 1, 1)),
        (value.dots(b, 1), (b, 1, 1, 1)),
        (value.triplet(b), (b, 0, 3, 2)),
        (value.quintuplet(b), (b, 0, 5, 4)),
        (value.septuplet(b), (b, 0, 7, 4)),
    ]
    for v, expected in recognised:
        for e in EPS:
            for w in (v * (1 + e), v / (1 + e)):
                got = value.determine(w)
                check(got == expected, "determine(%r) [%r perturbed by %r] = %r, expected %r" % (w, v, e, got, expected))

# repeated analysis of the same value gives the same answer
for _ in range(3):
    for b in BASES:
        for d in range(5):
            check(value.determine(value.dots(b, d)) == (b, d, 1, 1), "repeat determine(dots(%r,%r))" % (b, d))
# many distinct values in one process
for k in range(3000):
    w = 8 * (1 + (k - 1500) / 1500.0 * 0.0099)
    check(value.determine(w) == (8, 0, 1, 1), "determine(%r) near 8" % w)

# 3. add / subtract -----------------------------------------------------------
pool = []
for b in BASES:
    pool.extend([b, value.dots(b, 1), value.dots(b, 2), value.triplet(b), value.quintuplet(b), value.septuplet(b)])
pool = pool[::3] + [3, 5.5, 100.0]
for a in pool:
    for b in pool:
        s = value.add(a, b)
        check(close(s, 1.0 / (1.0 / a + 1.0 / b)), "add(%r, %r) = %r" % (a, b, s))
        check(close(1.0 / s, 1.0 / a + 1.0 / b), "1/add(%r, %r)" % (a, b))
        check(close(value.subtract(s, b), a, 1e-7), "subtract(add(%r, %r), %r) = %r" % (a, b, b, value.subtract(s, b)))
        check(close(value.add(value1=a, value2=b), s, 1e-12), "add keywords")
        check(close(value.add(b, a), s, 1e-12), "add commutes")
        if a != b:
            t = value.subtract(a, b)
            check(close(t, 1.0 / (1.0 / a - 1.0 / b), 1e-7), "subtract(%r, %r) = %r" % (a, b, t))
            check(close(value.add(t, b), a, 1e-7), "add(subtract(%r, %r), %r) = %r" % (a, b, b, value.add(t, b)))
            check(close(value.subtract(value1=a, value2=b), t, 1e-12), "subtract keywords")
check(value.add(8, 4) == 8 / 3.0 or close(value.add(8, 4), 8 / 3.0, 1e-15), "add(8,4)")
check(value.subtract(4, 8) == 8.0 or close(value.subtract(4, 8), 8.0, 1e-15), "subtract(4,8)")
check(close(value.dots(4, 1), value.add(4, 8), 1e-14), "dotted quarter = quarter + eighth")
check(close(value.dots(4, 2), value.add(value.add(4, 8), 16), 1e-14), "double dotted quarter")

# 4. tuplet helpers equal the general ratio formula ----------------------------
for v in pool + [7, 9.75, 1000, 0.1]:
    check(value.triplet(v) == value.tuplet(v, 3, 2), "triplet(%r)" % (v,))
    check(value.quintuplet(v) == value.tuplet(v, 5, 4), "quintuplet(%r)" % (v,))
    check(value.septuplet(v) == value.tuplet(v, 7, 4), "septuplet(%r)" % (v,))
    check(value.septuplet(v, True) == value.tuplet(v, 7, 4), "septuplet(%r, True)" % (v,))
    check(value.septuplet(v, False) == value.tuplet(v, 7, 8), "septuplet(%r, False)" % (v,))
    check(value.septuplet(v, in_fourths=False) == value.tuplet(v, rat1=7, rat2=8), "septuplet kw")
    check(close(value.triplet(v), 3 * v / 2.0, 1e-14), "triplet formula")
    check(close(value.quintuplet(v), 5 * v / 4.0, 1e-14), "quintuplet formula")
    check(close(value.septuplet(v), 7 * v / 4.0, 1e-14), "septuplet formula")
    check(close(value.septuplet(v, False), 7 * v / 8.0, 1e-14), "septuplet/8 formula")
    for r1, r2 in [(3, 2), (5, 4), (7, 4), (7, 8), (9, 8), (11, 8), (2, 3), (1, 1)]:
        check(close(value.tuplet(v, r1, r2), r1 * v / float(r2), 1e-14), "tuplet(%r, %r, %r)" % (v, r1, r2))

# 5. meters -------------------------------------------------------------------
def power_of_two(u):
    """Independent oracle: u is one of 1, 2, 4, 8, ..."""
    if isinstance(u, int):
        return u > 0 and bin(u).count("1") == 1
    if u != u or u in (float("inf"), float("-inf")):
        return False
    if u < 1 or u != int(u):
        return False
    return bin(int(u)).count("1") == 1


units = list(range(-20, 70)) + [96, 100, 127, 128, 129, 255, 256, 257, 1000, 1024, 4096, 4097, 65536, 65535]
units += [2 ** k for k in range(20, 130, 7)] + [2 ** k + 1 for k in range(20, 130, 7)] + [2 ** k - 1 for k in range(20, 130, 7)]
units += [3 * 2 ** 80, -(2 ** 40), 10 ** 30]
units += [0.0, -0.0, 0.5, 0.25, 0.125, 1.0, 1.5, 2.0, 2.5, 3.0, 4.0, 6.0, 8.0, 12.0, 16.0, 16.5, 1024.0, 1e300,
          2.0 ** 200, 2.0 ** 1000, 3 * 2.0 ** 500, 2.0 ** 53 + 2, 1e-300, 5e-324, -1.0, -2.0, -4.0, -0.5,
          float("inf"), float("-inf"), float("nan"), 0.1, 1.0000000000000002, 3.9999999999999996]
counts = list(range(-9, 40)) + [99, 100, 101, 300, 2 ** 40, 2 ** 40 + 1, 3 * 2 ** 70, 3 * 2 ** 70 + 1, -(10 ** 20)]

for u in units:
    exp = power_of_two(u)
    got = meter.valid_beat_duration(u)
    check(bool(got) == exp, "valid_beat_duration(%r) = %r" % (u, got))
    check(bool(meter.valid_beat_duration(duration=u)) == exp, "valid_beat_duration(duration=%r)" % (u,))
for u in units:
    exp_u = power_of_two(u)
    for c in counts:
        for m in ((c, u), [c, u]):
            valid = c > 0 and exp_u
            check(bool(meter.is_valid(m)) == valid, "is_valid(%r)" % (m,))
            check(bool(meter.is_compound(m)) == (valid and c % 3 == 0 and c >= 6), "is_compound(%r)" % (m,))
            check(bool(meter.is_asymmetrical(m)) == (valid and c % 2 == 1), "is_asymmetrical(%r)" % (m,))
        check(bool(meter.is_valid(meter=(c, u))) == (c > 0 and exp_u), "is_valid(meter=...)")
check(meter.is_valid(meter.common_time) and meter.is_valid(meter.cut_time), "common/cut time")
# a meter object used several times, results stable
m = (9, 8)
for _ in range(5):
    check(meter.is_valid(m) and meter.is_compound(m) and meter.is_asymmetrical(m), "(9, 8) repeated")
check(m == (9, 8), "meter untouched")

signal.alarm(0)
if failures:
    print("FAIL: %d of %d checks" % (len(failures), checked[0]))
    for f in failures[:25]:
        print("  " + f)
    sys.exit(1)
print("ok: %d checks" % checked[0])
sys.exit(0)
