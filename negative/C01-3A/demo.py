import mingus, os; assert os.path.realpath(mingus.__file__).startswith(os.path.realpath(os.path.dirname(__file__)))
import itertools
import sys

from mingus.core import notes
from mingus.core.mt_exceptions import NoteFormatError, RangeError, FormatError

NATURAL = {"C": 0, "D": 2, "E": 4, "F": 5, "G": 7, "A": 9, "B": 11}
failures = []
checked = [0]


def check(cond, msg):
    checked[0] += 1
    if not cond:
        failures.append(msg)


def expected_pc(name):
    return (NATURAL[name[0]] + name.count("#") - name.count("b")) % 12


def raises(exc, fn, *args, **kwargs):
    try:
        fn(*args, **kwargs)
    except exc:
        return True
    except Exception as e:  # wrong class
        return "raised %s" % type(e).__name__
    return "no exception"


# --- all names: 7 letters x every accidental string up to length 5, plus long ones
names = []
for letter in "ABCDEFG":
    for k in range(0, 6):
        for acc in itertools.product("#b", repeat=k):
            names.append(letter + "".join(acc))
for letter in "ABCDEFG":
    names.append(letter + "#" * 13)
    names.append(letter + "b" * 25)
    names.append(letter + "#b" * 300)
    names.append(letter + "b" * 1000 + "#" * 1003)
    names.append(letter + "#" * 5000)

for n in names:
    pc = expected_pc(n)
    net = n.count("#") - n.count("b")
    check(notes.is_valid_note(n) is True, "is_valid_note(%r) not True" % n[:40])
    got = notes.note_to_int(n)
    check(got == pc and 0 <= got <= 11, "note_to_int(%r) = %r, expected %r" % (n[:40], got, pc))
    check(notes.note_to_int(note=n) == pc, "note_to_int(note=%r)" % n[:40])

    a = notes.augment(n)
    check(notes.is_valid_note(a) and a[0] == n[0] and notes.note_to_int(a) == (pc + 1) % 12,
          "augment(%r) = %r" % (n[:40], a[:40]))
    d = notes.diminish(n)
    check(notes.is_valid_note(d) and d[0] == n[0] and notes.note_to_int(d) == (pc - 1) % 12,
          "diminish(%r) = %r" % (n[:40], d[:40]))

    r = notes.remove_redundant_accidentals(n)
    want = n[0] + ("#" * net if net >= 0 else "b" * (-net))
    check(r == want, "remove_redundant_accidentals(%r) = %r, expected %r" % (n[:40], r[:40], want[:40]))
    check(notes.note_to_int(r) == pc, "remove_redundant_accidentals(%r) changed pitch class" % n[:40])

    q = notes.reduce_accidentals(n)
    ok = notes.is_valid_note(q) and len(q) <= 2 and notes.note_to_int(q) == pc
    if net > 0:
        ok = ok and "b" not in q
    elif net < 0:
        ok = ok and "#" not in q
    else:
        ok = ok and q == n[0]
    check(ok, "reduce_accidentals(%r) = %r" % (n[:40], q))

# --- int <-> name round trip, both styles
for i in range(12):
    s = notes.int_to_note(i)
    f = notes.int_to_note(i, "b")
    check(s == notes.int_to_note(i, "#") == notes.int_to_note(note_int=i, accidentals="#"), "default style for %d" % i)
    check(notes.note_to_int(s) == i and notes.note_to_int(f) == i, "round trip %d" % i)
    check(len(s) <= 2 and s[0] in NATURAL and s[1:] in ("", "#"), "sharp style %r" % s)
    check(len(f) <= 2 and f[0] in NATURAL and f[1:] in ("", "b"), "flat style %r" % f)
    check(notes.int_to_note(i, accidentals="b") == f, "keyword style %d" % i)

# --- enharmonic exactly when pitch classes agree
sample = [n for n in names if len(n) <= 4] + [n for n in names if len(n) > 100][:6]
for x in sample[::3]:
    for y in sample[::5]:
        e = notes.is_enharmonic(x, y)
        check(e is (expected_pc(x) == expected_pc(y)) or e == (expected_pc(x) == expected_pc(y)),
              "is_enharmonic(%r, %r) = %r" % (x[:40], y[:40], e))

# --- malformed, non-empty strings
bad = ["c", "d", "H", "asdasd", "C###f", "E*", "C ", " C", "C\n", "\nC", "C#\n", "C-4", "C4", "Cis",
       "#", "b", "bb", "#C", "C♯", "C♭", "Ç", "Éb", "C{", "C{0}", "C%s", "C%", "%d",
       "{", "C#%r", "Cx", "CC", "C#B", "Cb#B", "C##b#x", "C" + "#" * 500 + "x", "x" + "#" * 500, "C\x00",
       "C#\t", "Do", "1", "0", "-1", "Ć", "Ｃ", "Bb ", "c#", "Cb b"]
for s in bad:
    check(notes.is_valid_note(s) is False, "is_valid_note(%r) not False" % s[:40])
    for _ in range(2):  # refused calls repeated
        r = raises(NoteFormatError, notes.note_to_int, s)
        check(r is True, "note_to_int(%r): %s" % (s[:40], r))
        r = raises(NoteFormatError, notes.reduce_accidentals, s)
        check(r is True, "reduce_accidentals(%r): %s" % (s[:40], r))
    check(notes.is_valid_note(s) is False, "is_valid_note(%r) not False after refusal" % s[:40])

# --- ints outside 0..11, unknown styles
for i in [-1, 12, 13, 24, -12, -123, 123123, 2 ** 64, -(2 ** 64), 10 ** 5000, -(10 ** 5000)]:
    for style in ("#", "b"):
        r = raises(RangeError, notes.int_to_note, i, style)
        check(r is True, "int_to_note(<%d bits>, %r): %s" % (i.bit_length(), style, r))
    r = raises(RangeError, notes.int_to_note, i)
    check(r is True, "int_to_note(<%d bits>): %s" % (i.bit_length(), r))
for style in ["", "x", "##", "bb", "sharp", "flat", "B", "#b", " ", "%s", "{0}", "\n", "♯", "%", "b\n"]:
    for i in (0, 1, 6, 11):
        r = raises(FormatError, notes.int_to_note, i, style)
        check(r is True, "int_to_note(%d, %r): %s" % (i, style, r))
        r = raises(FormatError, notes.int_to_note, i, accidentals=style)
        check(r is True, "int_to_note(%d, accidentals=%r): %s" % (i, style, r))

# things still fine after all the refusals
for i in range(12):
    check(notes.note_to_int(notes.int_to_note(i)) == i, "round trip after refusals %d" % i)

if failures:
    print("C01 FAILED: %d of %d checks" % (len(failures), checked[0]))
    for m in failures[:20]:
        print("  " + m)
    sys.exit(1)
print("C01 holds (%d checks)" % checked[0])
sys.exit(0)
