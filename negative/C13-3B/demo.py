import mingus, os; assert os.path.realpath(mingus.__file__).startswith(os.path.realpath(os.path.dirname(__file__)))
import itertools
import random
import sys
from fractions import Fraction

from mingus.containers import Bar, Note, NoteContainer
from mingus.core import value as V

TOL = 1e-9
CASES = [0]


def fail(msg):
    print("C13 FAILS: " + msg)
    sys.exit(1)


# ---- the value vocabulary with exact lengths ---------------------------------
VOCAB = []  # (value as handed to the library, exact length)
for base in (1, 2, 4, 8, 16, 32, 64, 128):
    VOCAB.append((base, Fraction(1, base)))
    VOCAB.append((float(base), Fraction(1, base)))
    for nr in (1, 2, 3):
        VOCAB.append((V.dots(base, nr), Fraction(2 ** (nr + 1) - 1, base * 2 ** nr)))
    VOCAB.append((V.triplet(base), Fraction(2, 3 * base)))
    VOCAB.append((V.quintuplet(base), Fraction(4, 5 * base)))
    VOCAB.append((V.septuplet(base), Fraction(4, 7 * base)))
SMALL = [x for x in VOCAB if x[1] >= Fraction(1, 24) and not isinstance(x[0], float) or x[0] in (V.dots(4), V.dots(2), V.triplet(4), V.triplet(8), V.quintuplet(4), V.septuplet(4), V.dots(8, 2))]

METERS = [(4, 4), (3, 4), (2, 2), (6, 8), (5, 4), (7, 8), (12, 8), (1, 1), (3, 16), (2, 4), (9, 8), (0, 0)]

CONTENTS = [
    lambda: "C",
    lambda: "Eb-5",
    lambda: Note("G", 3),
    lambda: ["C", "E", "G"],
    lambda: [Note("A", 4), Note("C", 5)],
    lambda: ["F#-2"],
    lambda: NoteContainer(["D", "F"]),
    lambda: NoteContainer(),
    lambda: [],
    lambda: None,
]


def expected_content(c):
    if c is None:
        return None
    if isinstance(c, NoteContainer):
        return c
    return NoteContainer(c)


def shape(content):
    if content is None:
        return None
    return [(n.name, n.octave) for n in content]


def snapshot(b):
    return (
        [(e[0], e[1], shape(e[2])) for e in b.bar],
        b.current_beat,
        b.length,
        tuple(b.meter),
        len(b),
    )


class Model(object):
    def __init__(self, meter):
        self.meter = meter
        self.length = Fraction(0) if meter == (0, 0) else Fraction(meter[0], meter[1])
        self.entries = []  # (value, exact length, shape)

    def total(self):
        return sum((e[1] for e in self.entries), Fraction(0))

    def fits(self, length):
        return self.meter == (0, 0) or self.total() + length <= self.length


def check(b, m, where):
    CASES[0] += 1
    if len(b) != len(m.entries) or len(b.bar) != len(m.entries):
        fail("%s: %d entries, expected %d" % (where, len(b.bar), len(m.entries)))
    acc = Fraction(0)
    for i, (entry, want) in enumerate(zip(b.bar, m.entries)):
        if len(entry) != 3:
            fail("%s: entry %d is %r" % (where, i, entry))
        if abs(entry[0] - float(acc)) > TOL:
            fail("%s: entry %d starts at %r, expected %s" % (where, i, entry[0], acc))
        if entry[1] != want[0]:
            fail("%s: entry %d has value %r, expected %r" % (where, i, entry[1], want[0]))
        if want[2] is None:
            if entry[2] is not None:
                fail("%s: entry %d should be a rest, is %r" % (where, i, entry[2]))
        else:
            if not isinstance(entry[2], NoteContainer):
                fail("%s: entry %d content is %r, not a note container" % (where, i, entry[2]))
            if shape(entry[2]) != want[2]:
                fail("%s: entry %d holds %r, expected %r" % (where, i, shape(entry[2]), want[2]))
        if b[i] is not entry:
            fail("%s: b[%d] is not the entry" % (where, i))
        acc += want[1]
    if abs(b.current_beat - float(acc)) > TOL:
        fail("%s: current beat %r, expected %s" % (where, b.current_beat, acc))
    if abs(b.current_beat + b.space_left() - float(m.length)) > TOL:
        fail("%s: current beat %r + space left %r != length %s" % (where, b.current_beat, b.space_left(), m.length))
    if abs(b.length - float(m.length)) > TOL:
        fail("%s: length %r expected %s" % (where, b.length, m.length))
    want_full = bool(m.entries) and m.meter != (0, 0) and abs(m.length - acc) <= Fraction(1, 1000)
    got = b.is_full()
    if got is not want_full and got != want_full:
        fail("%s: is_full() is %r, expected %r" % (where, got, want_full))


def do_place(b, m, val, length, content_maker, how, where):
    content = content_maker() if content_maker is not None else None
    want = m.fits(length)
    before = snapshot(b)
    if how == "rest":
        got = b.place_rest(val)
        content = None
    elif how == "kw":
        got = b.place_notes(notes=content, duration=val)
    else:
        got = b.place_notes(content, val)
    if bool(got) != want or not isinstance(got, bool):
        fail("%s: placing %r (%s) returned %r, expected %r (total so far %s of %s)" % (where, val, length, got, want, m.total(), m.length))
    if want:
        m.entries.append((val, length, shape(expected_content(content))))
        if snapshot(b)[0][:-1] != before[0]:
            fail("%s: accepted placement disturbed the earlier entries" % where)
    elif snapshot(b) != before:
        fail("%s: refused placement changed the bar: %r -> %r" % (where, before, snapshot(b)))
    check(b, m, where)


def do_plus(b, m, content_maker, where):
    unit = m.meter[1] if m.meter[1] != 0 else 4
    content = content_maker()
    want = m.fits(Fraction(1, unit))
    before = snapshot(b)
    got = b + content
    if bool(got) != want:
        fail("%s: + returned %r, expected %r" % (where, got, want))
    if want:
        m.entries.append((unit, Fraction(1, unit), shape(expected_content(content))))
    elif snapshot(b) != before:
        fail("%s: refused + changed the bar" % where)
    check(b, m, where)


def do_remove(b, m, where):
    if not m.entries:
        return
    before = snapshot(b)
    b.remove_last_entry()
    m.entries.pop()
    if snapshot(b)[0] != before[0][:-1]:
        fail("%s: remove_last_entry disturbed the other entries" % where)
    check(b, m, where)


def run_history(meter, ops, where):
    b = Bar("C", meter)
    m = Model(meter)
    check(b, m, where + " (fresh)")
    for k, op in enumerate(ops):
        w = "%s step %d %r" % (where, k, op[:2])
        if op[0] in ("place", "kw", "rest"):
            do_place(b, m, op[1][0], op[1][1], op[2], op[0], w)
        elif op[0] == "+":
            do_plus(b, m, op[2], w)
        else:
            do_remove(b, m, w)
    return b, m


# ---- 1. exhaustive short histories -------------------------------------------
def alphabet(vocab, rnd):
    ops = []
    for v in vocab:
        ops.append(("place", v, rnd.choice(CONTENTS[:7])))
        ops.append(("rest", v, None))
    ops.append(("+", None, CONTENTS[3]))
    ops.append(("remove", None, None))
    return ops


rnd = random.Random(13)
for meter in METERS:
    alpha = alphabet(SMALL, rnd)
    for ops in itertools.product(alpha, repeat=2):
        run_history(meter, ops, "meter %r exhaustive" % (meter,))
for meter in [(4, 4), (6, 8), (0, 0)]:
    alpha = alphabet(rnd.sample(VOCAB, 7), rnd)
    for ops in itertools.product(alpha, repeat=3):
        run_history(meter, ops, "meter %r depth 3" % (meter,))

# ---- 2. fills to capacity with every value in every meter -----------------------
for meter in METERS:
    for val, length in VOCAB:
        if meter == (0, 0):
            n = 40
        else:
            n = int(Fraction(meter[0], meter[1]) / length) + 2
            if n > 400:
                continue
        maker = CONTENTS[(int(val * 7) + n) % len(CONTENTS)]
        ops = [("place" if i % 3 else "kw", (val, length), maker) for i in range(n)]
        # the refusals at the end are repeated, then undone and refilled
        ops += [("remove", None, None), ("rest", (val, length), None), ("rest", (val, length), None), ("+", None, CONTENTS[0])]
        run_history(meter, ops, "meter %r fill with %r" % (meter, val))

# ---- 3. long random histories ------------------------------------------------------
for seed in range(12):
    r = random.Random(1000 + seed)
    meter = METERS[seed % len(METERS)]
    pool = VOCAB if seed % 2 else SMALL
    ops = []
    for _ in range(2500 if meter == (0, 0) else 600):
        x = r.random()
        if x < 0.45:
            ops.append((r.choice(["place", "kw"]), r.choice(pool), r.choice(CONTENTS)))
        elif x < 0.6:
            ops.append(("rest", r.choice(pool), None))
        elif x < 0.7:
            ops.append(("+", None, r.choice(CONTENTS[:9])))
        else:
            ops.append(("remove", None, None))
    b, m = run_history(meter, ops, "random history %d in %r" % (seed, meter))

# ---- 4. assigning content / adding notes at a beat changes only that entry --------
for meter in [(4, 4), (6, 8), (0, 0)]:
    b, m = run_history(
        meter,
        [("place", (8, Fraction(1, 8)), CONTENTS[0]), ("rest", (8, Fraction(1, 8)), None),
         ("place", (V.triplet(8), Fraction(1, 12)), CONTENTS[3]), ("place", (V.dots(8), Fraction(3, 16)), CONTENTS[2]),
         ("place", (16, Fraction(1, 16)), CONTENTS[6])],
        "edit setup %r" % (meter,),
    )
    for idx in (0, 1, 2, 3, 4, -1):
        for maker in CONTENTS[:9] + [lambda: "B♭{%s}\n"]:
            new = maker()
            try:
                want = shape(expected_content(new))
            except Exception:
                before = snapshot(b)
                try:
                    b[idx] = new
                except Exception:
                    pass
                else:
                    fail("assigning unusable content %r was accepted" % (new,))
                if snapshot(b) != before:
                    fail("refused assignment changed the bar")
                continue
            b[idx] = maker()
            e = list(m.entries[idx])
            e[2] = want
            m.entries[idx] = tuple(e)
            check(b, m, "after b[%d] = %r in %r" % (idx, new, meter))
    for idx in (0, 2, 3, 4):
        at = b.bar[idx][0]
        for extra in ("G", ["B", "D-6"], Note("E", 2), NoteContainer(["A-3"])):
            want = NoteContainer([Note(n) for n in b.bar[idx][2]])
            want.add_notes(extra)
            b.place_notes_at(extra, at)
            e = list(m.entries[idx])
            e[2] = shape(want)
            m.entries[idx] = tuple(e)
            check(b, m, "after place_notes_at(%r, %r) in %r" % (extra, at, meter))
    # a beat where nothing starts: nothing changes
    before = snapshot(b)
    b.place_notes_at("C", 0.0123)
    if snapshot(b) != before:
        fail("place_notes_at at an unused beat changed the bar")

# ---- 5. setting a meter ------------------------------------------------------------
for unit in list(range(0, 70)) + [128, 256, 1024, 4096, 1000, 96, 2 ** 20, 2 ** 20 + 2, 3 * 2 ** 10]:
    for count in (0, 1, 2, 3, 4, 5, 6, 7, 9, 12, 17):
        ok = (unit > 0 and unit & (unit - 1) == 0) or (count, unit) == (0, 0)
        b = Bar("C", (3, 4))
        b.place_notes("C", 4)
        before = snapshot(b)
        CASES[0] += 1
        try:
            b.set_meter((count, unit))
        except Exception:
            if ok:
                fail("set_meter(%r) refused" % ((count, unit),))
            if snapshot(b) != before:
                fail("refused set_meter(%r) changed the bar" % ((count, unit),))
            try:
                Bar("C", (count, unit))
            except Exception:
                pass
            else:
                fail("Bar('C', %r) accepted" % ((count, unit),))
        else:
            if not ok:
                fail("set_meter(%r) accepted" % ((count, unit),))
            want = 0.0 if unit == 0 else Fraction(count, unit)
            if tuple(b.meter) != (count, unit) or abs(b.length - float(want)) > 1e-12:
                fail("set_meter(%r) gave meter %r length %r" % ((count, unit), b.meter, b.length))
            nb = Bar("D", (count, unit))
            if tuple(nb.meter) != (count, unit) or abs(nb.length - float(want)) > 1e-12 or len(nb) != 0 or nb.current_beat != 0:
                fail("Bar('D', %r) gave meter %r length %r" % ((count, unit), nb.meter, nb.length))

print("C13 holds on %d checked states" % CASES[0])
sys.exit(0)
